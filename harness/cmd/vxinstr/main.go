// vxinstr is the source-to-source instrumenter of the C17 (schedule exploration) and C08 (trace monitor) checks. It
// works on a scratch copy of the repository and inserts calls into the harness by *textual insertion at statement
// boundaries* (the original token stream is left untouched, so build constraints, //go: directives and comments keep
// their places).
//
// mode sched (C17):
//   - a package-level variable is *frozen* when, outside init functions and variable initialisers, it is never an
//     assignment target, never has its address taken other than as a direct call argument, is never sliced as an
//     array, never is the receiver of a mutating pointer method and never is the destination of copy/append. Reads of
//     frozen variables commute with everything and get no scheduling point. Every statement mentioning a non-frozen
//     variable gets `vxsched.Acc(name, write, loc)` in front of it (scheduling point + logged access).
//   - for the receiver types named with -shared, fields that some method writes are treated the same way, keyed by the
//     receiver's address.
//   - every call of a body-less (assembly) function is bracketed by vxsched.AsmEnter / vxsched.AsmExit.
//   - imports of sync and sync/atomic are redirected to the shim packages.
//   - a generated file registers every package-level variable for deep hashing.
//
// mode trace (C08): every block entry, every short-circuit right operand and every non-constant index or slice bound
// emits a trace event (the index events carry the value).
package main

import (
	"encoding/json"
	"flag"
	"fmt"
	"go/ast"
	"go/build"
	"go/importer"
	"go/parser"
	"go/token"
	"go/types"
	"os"
	"path/filepath"
	"sort"
	"strings"
)

type insertion struct {
	off  int
	text string
	seq  int
}

type fileEdit struct {
	path string
	src  []byte
	ins  []insertion
	repl [][3]interface{} // start, end, text
	used bool
}

var (
	mode    = flag.String("mode", "sched", "sched | trace")
	root    = flag.String("root", ".", "root of the repository copy")
	shared  = flag.String("shared", "", "comma separated receiver type names whose fields are instrumented (sched mode)")
	report  = flag.String("report", "", "write a JSON report here")
	methods = flag.String("methods", "", "JSON side file carrying mutating-method facts across packages")
)

var readonlyStd = map[string]bool{}

func init() {
	for _, m := range []string{"Cmp", "CmpAbs", "Sign", "Bytes", "FillBytes", "BitLen", "Bit", "Text", "String", "Int64", "Uint64", "IsInt64", "IsUint64",
		"ProbablyPrime", "TrailingZeroBits", "Append", "Format", "Len", "Cap", "Error", "Size", "BlockSize", "NonceSize", "Overhead", "Params", "IsOnCurve",
		// cipher.Block / cipher.AEAD / hash.Hash.Sum are logically read-only on their receiver (what they do to the object's memory is
		// watched by the write-footprint monitor on the registered objects)
		"Encrypt", "Decrypt", "Seal", "Open", "Sum"} {
		readonlyStd[m] = true
	}
}

type report_ struct {
	Package     string              `json:"package"`
	Globals     []string            `json:"globals"`
	NonFrozen   map[string][]string `json:"non_frozen"` // name -> reasons
	FieldsMut   map[string][]string `json:"mutable_fields"`
	AccSites    int                 `json:"access_sites"`
	AsmCalls    int                 `json:"asm_call_sites"`
	SyncImports int                 `json:"sync_imports_redirected"`
	TraceSites  int                 `json:"trace_sites"`
	Unsupported []string            `json:"unsupported"`
}

func main() {
	flag.Parse()
	mut := map[string]bool{}
	if *methods != "" {
		if b, err := os.ReadFile(*methods); err == nil {
			json.Unmarshal(b, &mut)
		}
	}
	var reports []report_
	// two phases: every package is parsed and type-checked on the pristine sources first (the source importer must be able
	// to type-check the module's own packages when they are imported, which it cannot once they import the harness),
	// then instrumented in the given order
	var loaded []*pkgCtx
	for _, dir := range flag.Args() {
		loaded = append(loaded, load(filepath.Join(*root, dir), dir))
	}
	for _, p := range loaded {
		reports = append(reports, p.process(mut))
	}
	if *methods != "" {
		b, _ := json.Marshal(mut)
		os.WriteFile(*methods, b, 0o644)
	}
	if *report != "" {
		b, _ := json.MarshalIndent(reports, "", " ")
		os.WriteFile(*report, b, 0o644)
	}
}

func fatal(f string, a ...interface{}) {
	fmt.Fprintf(os.Stderr, "vxinstr: "+f+"\n", a...)
	os.Exit(1)
}

type pkgCtx struct {
	fset   *token.FileSet
	files  []*ast.File
	edits  map[*ast.File]*fileEdit
	info   *types.Info
	pkg    *types.Package
	parent map[ast.Node]ast.Node
	rep    *report_
	seq    int
}

func load(dir, rel string) *pkgCtx {
	ctx := build.Default
	ctx.BuildTags = append(ctx.BuildTags, "verif")
	bp, err := ctx.ImportDir(dir, 0)
	if err != nil {
		fatal("import %s: %v", dir, err)
	}
	fset := token.NewFileSet()
	p := &pkgCtx{fset: fset, edits: map[*ast.File]*fileEdit{}, parent: map[ast.Node]ast.Node{}}
	for _, name := range bp.GoFiles {
		path := filepath.Join(dir, name)
		src, err := os.ReadFile(path)
		if err != nil {
			fatal("%v", err)
		}
		f, err := parser.ParseFile(fset, path, src, parser.ParseComments)
		if err != nil {
			fatal("parse %s: %v", path, err)
		}
		p.files = append(p.files, f)
		p.edits[f] = &fileEdit{path: path, src: src}
	}
	conf := types.Config{Importer: importer.ForCompiler(fset, "source", nil), Error: func(err error) {}}
	p.info = &types.Info{Uses: map[*ast.Ident]types.Object{}, Defs: map[*ast.Ident]types.Object{}, Types: map[ast.Expr]types.TypeAndValue{}, Selections: map[*ast.SelectorExpr]*types.Selection{}}
	cwd, _ := os.Getwd()
	os.Chdir(dir)
	pkg, _ := conf.Check(bp.ImportPath, fset, p.files, p.info)
	os.Chdir(cwd)
	p.pkg = pkg
	rep := report_{Package: rel, NonFrozen: map[string][]string{}, FieldsMut: map[string][]string{}}
	p.rep = &rep
	for _, f := range p.files {
		ast.Inspect(f, func(n ast.Node) bool { return p.recordParents(n) })
	}
	return p
}

func (p *pkgCtx) process(mut map[string]bool) report_ {
	fset := p.fset
	if *mode == "trace" {
		p.traceMode()
	} else {
		p.schedMode(mut)
	}
	for f, e := range p.edits {
		if !e.used {
			continue
		}
		out := apply(e)
		// imports: right after the package clause
		pos := fset.Position(f.Name.End()).Offset
		_ = pos
		if err := os.WriteFile(e.path, out, 0o644); err != nil {
			fatal("%v", err)
		}
	}
	return *p.rep
}

var stack []ast.Node

func (p *pkgCtx) recordParents(n ast.Node) bool {
	if n == nil {
		stack = stack[:len(stack)-1]
		return true
	}
	if len(stack) > 0 {
		p.parent[n] = stack[len(stack)-1]
	}
	stack = append(stack, n)
	return true
}

func apply(e *fileEdit) []byte {
	type ev struct {
		off, end int
		text     string
		seq      int
	}
	var evs []ev
	for _, i := range e.ins {
		evs = append(evs, ev{i.off, i.off, i.text, i.seq})
	}
	for _, r := range e.repl {
		evs = append(evs, ev{r[0].(int), r[1].(int), r[2].(string), -1})
	}
	sort.SliceStable(evs, func(a, b int) bool {
		if evs[a].off != evs[b].off {
			return evs[a].off < evs[b].off
		}
		return evs[a].seq < evs[b].seq
	})
	var out []byte
	cur := 0
	for _, v := range evs {
		if v.off < cur {
			continue
		}
		out = append(out, e.src[cur:v.off]...)
		out = append(out, v.text...)
		cur = v.end
	}
	out = append(out, e.src[cur:]...)
	return out
}

func (p *pkgCtx) fileOf(n ast.Node) *ast.File {
	for _, f := range p.files {
		if f.Pos() <= n.Pos() && n.Pos() <= f.End() {
			return f
		}
	}
	return nil
}

func (p *pkgCtx) insert(at token.Pos, text string) {
	f := p.fileOf(posNode(at))
	if f == nil {
		return
	}
	e := p.edits[f]
	p.seq++
	e.ins = append(e.ins, insertion{off: p.fset.Position(at).Offset, text: text, seq: p.seq})
	e.used = true
}

type posNode token.Pos

func (n posNode) Pos() token.Pos { return token.Pos(n) }
func (n posNode) End() token.Pos { return token.Pos(n) }

func (p *pkgCtx) loc(n ast.Node) string {
	ps := p.fset.Position(n.Pos())
	return fmt.Sprintf("%s:%d", filepath.Base(ps.Filename), ps.Line)
}

// listStmt returns the nearest ancestor statement of n that sits directly in a statement list.
func (p *pkgCtx) listStmt(n ast.Node) ast.Stmt {
	for cur := n; cur != nil; cur = p.parent[cur] {
		st, ok := cur.(ast.Stmt)
		if !ok {
			continue
		}
		switch par := p.parent[cur].(type) {
		case *ast.BlockStmt:
			for _, s := range par.List {
				if s == st {
					return st
				}
			}
		case *ast.CaseClause:
			for _, s := range par.Body {
				if s == st {
					return st
				}
			}
		case *ast.CommClause:
			for _, s := range par.Body {
				if s == st {
					return st
				}
			}
		case *ast.LabeledStmt:
			// go on upwards: insert before the label
		}
	}
	return nil
}

// enclosingFunc returns the FuncDecl containing n (nil for package-level initialisers).
func (p *pkgCtx) enclosingFunc(n ast.Node) *ast.FuncDecl {
	for cur := n; cur != nil; cur = p.parent[cur] {
		if fd, ok := cur.(*ast.FuncDecl); ok {
			return fd
		}
	}
	return nil
}

// chainTop climbs from an identifier through selectors, indexes, stars and parens to the maximal access chain.
func (p *pkgCtx) chainTop(id ast.Node) ast.Expr {
	cur := id.(ast.Expr)
	for {
		par := p.parent[cur]
		switch x := par.(type) {
		case *ast.SelectorExpr:
			if x.X == cur {
				// stop before a method selector: the chain is the receiver
				if sel := p.info.Selections[x]; sel != nil && sel.Kind() == types.MethodVal {
					return cur
				}
				cur = x
				continue
			}
		case *ast.IndexExpr:
			if x.X == cur {
				cur = x
				continue
			}
		case *ast.StarExpr:
			cur = x
			continue
		case *ast.ParenExpr:
			cur = x
			continue
		}
		return cur
	}
}

type occ struct {
	id     *ast.Ident
	write  bool
	reason string
}

// classify decides whether the access chain rooted at id is a (potential) write.
func (p *pkgCtx) classify(id *ast.Ident, mut map[string]bool) (bool, string) {
	top := p.chainTop(id)
	par := p.parent[top]
	switch x := par.(type) {
	case *ast.AssignStmt:
		for _, l := range x.Lhs {
			if l == top {
				return true, "assigned"
			}
		}
	case *ast.IncDecStmt:
		if x.X == top {
			return true, "inc/dec"
		}
	case *ast.RangeStmt:
		if x.Key == top || x.Value == top {
			return true, "range target"
		}
	case *ast.UnaryExpr:
		if x.Op == token.AND {
			if call, ok := p.parent[x].(*ast.CallExpr); ok {
				for _, a := range call.Args {
					if a == x {
						return false, ""
					}
				}
			}
			return true, "escape: address taken"
		}
	case *ast.SliceExpr:
		if x.X == top {
			if tv, ok := p.info.Types[top]; ok {
				if _, isArr := tv.Type.Underlying().(*types.Array); isArr {
					if call, ok := p.parent[x].(*ast.CallExpr); ok {
						for _, a := range call.Args {
							if a == x {
								return p.copyDst(call, x), "array sliced into copy/append destination"
							}
						}
					}
					return true, "escape: array sliced"
				}
			}
			if call, ok := p.parent[x].(*ast.CallExpr); ok && p.copyDst(call, x) {
				return true, "copy/append destination"
			}
		}
	case *ast.SelectorExpr:
		if x.X == top {
			if sel := p.info.Selections[x]; sel != nil && sel.Kind() == types.MethodVal {
				fn := sel.Obj().(*types.Func)
				sig := fn.Type().(*types.Signature)
				recv := sig.Recv()
				if recv == nil {
					return false, ""
				}
				_, ptrRecv := recv.Type().(*types.Pointer)
				if !ptrRecv {
					if _, isIface := recv.Type().Underlying().(*types.Interface); !isIface {
						return false, ""
					}
				}
				key := methodKey(fn)
				if v, ok := mut[key]; ok {
					if v {
						return true, "receiver of mutating method " + fn.Name()
					}
					if mut["esc:"+key] && !p.callResultReadOnly(x) {
						return true, "receiver of accessor " + fn.Name() + " whose result (a pointer into the receiver) is kept or written through"
					}
					return false, ""
				}
				if readonlyStd[fn.Name()] {
					return false, ""
				}
				return true, "receiver of pointer method " + fn.Name()
			}
		}
	case *ast.CallExpr:
		for _, a := range x.Args {
			if a == top && p.copyDst(x, top) {
				return true, "copy/append destination"
			}
		}
	}
	return false, ""
}

// returnedPointer: the address expression u is, through parentheses and type conversions only, a result of a return
// statement.
func (p *pkgCtx) returnedPointer(u ast.Expr) bool {
	var cur ast.Node = u
	for {
		switch x := p.parent[cur].(type) {
		case *ast.ParenExpr:
			cur = x
			continue
		case *ast.CallExpr:
			if tv, ok := p.info.Types[x.Fun]; ok && tv.IsType() && len(x.Args) == 1 && x.Args[0] == cur {
				cur = x
				continue
			}
			return false
		case *ast.ReturnStmt:
			return true
		default:
			return false
		}
	}
}

// callResultReadOnly: sel is the selector of a call of an accessor (a method returning a pointer into its receiver);
// the call's result is dereferenced on the spot and the value read (operand of an operator, right-hand side, value
// argument) and has no reference type, so nothing can be written through it and it is not kept.
func (p *pkgCtx) callResultReadOnly(sel *ast.SelectorExpr) bool {
	call, ok := p.parent[sel].(*ast.CallExpr)
	if !ok || call.Fun != sel {
		return false
	}
	var cur ast.Expr = call
	derefd := false
loop:
	for {
		switch x := p.parent[cur].(type) {
		case *ast.ParenExpr:
			cur = x
		case *ast.StarExpr:
			cur, derefd = x, true
		case *ast.IndexExpr:
			if x.X != cur {
				break loop
			}
			cur, derefd = x, true
		case *ast.SelectorExpr:
			if x.X != cur {
				break loop
			}
			if s := p.info.Selections[x]; s == nil || s.Kind() != types.FieldVal {
				return false
			}
			cur, derefd = x, true
		default:
			break loop
		}
	}
	if !derefd {
		return false
	}
	tv, ok := p.info.Types[cur]
	if !ok || !plainValueType(tv.Type) {
		return false
	}
	switch x := p.parent[cur].(type) {
	case *ast.AssignStmt:
		for _, l := range x.Lhs {
			if l == cur {
				return false
			}
		}
		return true
	case *ast.BinaryExpr, *ast.ReturnStmt, *ast.ValueSpec, *ast.KeyValueExpr, *ast.CompositeLit:
		return true
	case *ast.CallExpr:
		for _, a := range x.Args {
			if a == cur {
				return true
			}
		}
	}
	return false
}

func plainValueType(t types.Type) bool {
	switch x := t.Underlying().(type) {
	case *types.Basic:
		return x.Kind() != types.UnsafePointer
	case *types.Array:
		return plainValueType(x.Elem())
	}
	return false
}

// isSyncType reports whether t (or what it points to / contains as array element) is declared in sync or sync/atomic.
func isSyncType(t types.Type) bool {
	for {
		switch x := t.(type) {
		case *types.Pointer:
			t = x.Elem()
			continue
		case *types.Array:
			t = x.Elem()
			continue
		case *types.Named:
			if x.Obj() != nil && x.Obj().Pkg() != nil {
				pp := x.Obj().Pkg().Path()
				if pp == "sync" || pp == "sync/atomic" || strings.HasPrefix(pp, "verif/shim/") {
					return true
				}
			}
			return false
		default:
			return false
		}
	}
}

// syncMethodUse: the access chain rooted at id is the receiver of a method declared in sync, sync/atomic or the shim
// packages (possibly promoted from an embedded field).  That is a synchronisation operation, modelled by the shim as a
// scheduling point with happens-before edges - not a data access to the variable that embeds the object.
func (p *pkgCtx) syncMethodUse(id *ast.Ident) bool {
	top := p.chainTop(id)
	sel, ok := p.parent[top].(*ast.SelectorExpr)
	if !ok || sel.X != top {
		return false
	}
	s := p.info.Selections[sel]
	if s == nil || s.Kind() != types.MethodVal {
		return false
	}
	fn, ok := s.Obj().(*types.Func)
	if !ok || fn.Pkg() == nil {
		return false
	}
	pp := fn.Pkg().Path()
	return pp == "sync" || pp == "sync/atomic" || strings.HasPrefix(pp, "verif/shim/")
}

// hasSyncField: t is (a pointer to) a struct with a field declared in sync / sync/atomic - a monitor object that does
// its own locking inside its methods.
func hasSyncField(t types.Type) bool {
	if p, ok := t.Underlying().(*types.Pointer); ok {
		t = p.Elem()
	}
	st, ok := t.Underlying().(*types.Struct)
	if !ok {
		return false
	}
	for i := 0; i < st.NumFields(); i++ {
		if isSyncType(st.Field(i).Type()) {
			return true
		}
	}
	return false
}

// monitorMethodUse: id is a variable of a struct type that carries its own lock, used as the receiver of one of its
// methods. The method locks inside; logging an access at the call site (outside the lock) would report a race between
// two correctly synchronised calls. What the method does to the variable is seen by the value scan, which runs before
// every release and attributes a change to the thread that holds the lock.
func (p *pkgCtx) monitorMethodUse(id *ast.Ident) bool {
	top := p.chainTop(id)
	if top != ast.Expr(id) {
		return false
	}
	sel, ok := p.parent[top].(*ast.SelectorExpr)
	if !ok || sel.X != top {
		return false
	}
	s := p.info.Selections[sel]
	if s == nil || s.Kind() != types.MethodVal {
		return false
	}
	obj := p.info.Uses[id]
	return obj != nil && hasSyncField(obj.Type())
}

func methodKey(fn *types.Func) string {
	sig := fn.Type().(*types.Signature)
	r := sig.Recv().Type()
	if pt, ok := r.(*types.Pointer); ok {
		r = pt.Elem()
	}
	// qualified by package name, not path: the package under instrumentation is type-checked under the path "." while
	// its importers see it under its import path, and the facts of one must be found by the other
	return types.TypeString(r, func(pk *types.Package) string { return pk.Name() }) + "." + fn.Name()
}

func (p *pkgCtx) copyDst(call *ast.CallExpr, arg ast.Expr) bool {
	if id, ok := call.Fun.(*ast.Ident); ok && (id.Name == "copy" || id.Name == "append") && len(call.Args) > 0 && call.Args[0] == arg {
		if _, isBuiltin := p.info.Uses[id].(*types.Builtin); isBuiltin {
			return true
		}
	}
	return false
}

func (p *pkgCtx) schedMode(mut map[string]bool) {
	sharedTypes := map[string]bool{}
	for _, s := range strings.Split(*shared, ",") {
		if s != "" {
			sharedTypes[s] = true
		}
	}
	// ---- mutating-method facts for this package (fixpoint): a pointer-receiver method mutates when its body has a
	// write-context access rooted at the receiver, or calls a mutating method on the receiver (or one of its fields)
	type mdecl struct {
		fd   *ast.FuncDecl
		recv *types.Var
		key  string
	}
	var mds []mdecl
	for _, f := range p.files {
		for _, d := range f.Decls {
			fd, ok := d.(*ast.FuncDecl)
			if !ok || fd.Recv == nil || fd.Body == nil || len(fd.Recv.List) == 0 || len(fd.Recv.List[0].Names) == 0 {
				continue
			}
			obj, _ := p.info.Defs[fd.Name].(*types.Func)
			rv, _ := p.info.Defs[fd.Recv.List[0].Names[0]].(*types.Var)
			if obj == nil || rv == nil {
				continue
			}
			if _, isPtr := rv.Type().(*types.Pointer); !isPtr {
				mut[methodKey(obj)] = false
				continue
			}
			mds = append(mds, mdecl{fd, rv, methodKey(obj)})
			if _, ok := mut[methodKey(obj)]; !ok {
				mut[methodKey(obj)] = false
			}
		}
	}
	for changed := true; changed; {
		changed = false
		for _, m := range mds {
			if mut[m.key] {
				continue
			}
			ast.Inspect(m.fd.Body, func(n ast.Node) bool {
				id, ok := n.(*ast.Ident)
				if !ok || p.info.Uses[id] != m.recv {
					return true
				}
				if p.syncMethodUse(id) {
					return true
				}
				if w, _ := p.classify(id, mut); w {
					mut[m.key] = true
					changed = true
				}
				// passing the receiver's fields by address to a function counts as a write unless the callee provably
				// only reads through that parameter (assembly callees are covered by the value scan at AsmExit)
				top := p.chainTop(id)
				if u, ok := p.parent[top].(*ast.UnaryExpr); ok && u.Op == token.AND && !p.addrArgReadOnly(u, map[*ast.FuncDecl]bool{}) {
					if p.returnedPointer(u) {
						// an accessor: the method itself writes nothing, it returns a pointer into the receiver. What
						// happens through that pointer is decided at each call site (see callResultReadOnly)
						if !mut["esc:"+m.key] {
							mut["esc:"+m.key] = true
							changed = true
						}
						return true
					}
					mut[m.key] = true
					changed = true
				}
				return true
			})
		}
	}
	// ---- package-level variables
	pkgVars := map[types.Object]string{}
	var syncGlobals []string
	if p.pkg != nil {
		sc := p.pkg.Scope()
		for _, name := range sc.Names() {
			if v, ok := sc.Lookup(name).(*types.Var); ok {
				if isSyncType(v.Type()) {
					syncGlobals = append(syncGlobals, name) // modelled by the shim, not as data; registered for reset only
					continue
				}
				pkgVars[v] = name
				p.rep.Globals = append(p.rep.Globals, name)
			}
		}
	}
	// functions (without receiver) that are called only from init functions or from other init-only functions, or from
	// package-level variable initialisers, run at initialisation time only
	callers := map[string]map[string]bool{}
	for _, f := range p.files {
		ast.Inspect(f, func(n ast.Node) bool {
			call, ok := n.(*ast.CallExpr)
			if !ok {
				return true
			}
			id, ok := call.Fun.(*ast.Ident)
			if !ok {
				return true
			}
			if fn, ok := p.info.Uses[id].(*types.Func); !ok || fn.Pkg() != p.pkg {
				return true
			}
			from := "<pkginit>"
			if fd := p.enclosingFunc(call); fd != nil {
				from = fd.Name.Name
				if fd.Recv != nil {
					from = "<method>"
				}
			}
			if callers[id.Name] == nil {
				callers[id.Name] = map[string]bool{}
			}
			callers[id.Name][from] = true
			return true
		})
	}
	initOnly := map[string]bool{}
	for changed := true; changed; {
		changed = false
		for name, cs := range callers {
			if initOnly[name] || name == "init" || (len(name) > 0 && name[0] >= 'A' && name[0] <= 'Z') {
				continue // exported functions can be called from anywhere
			}
			all := true
			for c := range cs {
				if c != "init" && c != "<pkginit>" && !initOnly[c] {
					all = false
				}
			}
			// a function value taken without a call (passed around) disqualifies: detect any non-call use
			if all {
				for _, f := range p.files {
					ast.Inspect(f, func(n ast.Node) bool {
						id, ok := n.(*ast.Ident)
						if !ok || id.Name != name {
							return true
						}
						if fn, ok := p.info.Uses[id].(*types.Func); ok && fn.Pkg() == p.pkg {
							if call, ok := p.parent[id].(*ast.CallExpr); !ok || call.Fun != id {
								all = false
							}
						}
						return true
					})
				}
			}
			if all {
				initOnly[name] = true
				changed = true
			}
		}
	}
	occs := map[types.Object][]occ{}
	for _, f := range p.files {
		ast.Inspect(f, func(n ast.Node) bool {
			id, ok := n.(*ast.Ident)
			if !ok {
				return true
			}
			obj := p.info.Uses[id]
			if _, isVar := pkgVars[obj]; !isVar {
				return true
			}
			fd := p.enclosingFunc(id)
			if fd == nil || (fd.Name.Name == "init" && fd.Recv == nil) || initOnly[fd.Name.Name] {
				return true // initialisation time: single-threaded by the language
			}
			if p.syncMethodUse(id) {
				return true
			}
			if p.monitorMethodUse(id) {
				// no access is logged at the call site, but the variable is mutable state: watched by value
				p.rep.NonFrozen[pkgVars[obj]] = append(p.rep.NonFrozen[pkgVars[obj]], fmt.Sprintf("%s: method call on a struct that carries its own lock", p.loc(id)))
				return true
			}
			w, why := p.classify(id, mut)
			occs[obj] = append(occs[obj], occ{id, w, why})
			return true
		})
	}
	// local aliases: a local variable initialised from &G..., G[..:..] (array) or from a reference-typed G stands for G in
	// the rest of the function; its uses are classified and instrumented like uses of G (iterated to a fixpoint)
	alias := map[types.Object]types.Object{}
	rootGlobal := func(e ast.Expr) types.Object {
		for {
			switch x := e.(type) {
			case *ast.UnaryExpr:
				if x.Op != token.AND {
					return nil
				}
				e = x.X
			case *ast.ParenExpr:
				e = x.X
			case *ast.IndexExpr:
				e = x.X
			case *ast.SliceExpr:
				e = x.X
			case *ast.SelectorExpr:
				if sel := p.info.Selections[x]; sel != nil && sel.Kind() == types.FieldVal {
					e = x.X
				} else {
					return nil
				}
			case *ast.StarExpr:
				e = x.X
			case *ast.Ident:
				obj := p.info.Uses[x]
				if _, ok := pkgVars[obj]; ok {
					return obj
				}
				if g, ok := alias[obj]; ok {
					return g
				}
				return nil
			default:
				return nil
			}
		}
	}
	isRefLike := func(e ast.Expr) bool {
		if u, ok := e.(*ast.UnaryExpr); ok && u.Op == token.AND {
			return true
		}
		if tv, ok := p.info.Types[e]; ok {
			switch tv.Type.Underlying().(type) {
			case *types.Pointer, *types.Slice, *types.Map:
				return true
			}
		}
		return false
	}
	for changed := true; changed; {
		changed = false
		for _, f := range p.files {
			ast.Inspect(f, func(n ast.Node) bool {
				var lhs []ast.Expr
				var rhs []ast.Expr
				switch x := n.(type) {
				case *ast.AssignStmt:
					lhs, rhs = x.Lhs, x.Rhs
				case *ast.ValueSpec:
					for _, nm := range x.Names {
						lhs = append(lhs, nm)
					}
					rhs = x.Values
				default:
					return true
				}
				if len(lhs) != len(rhs) || p.enclosingFunc(n) == nil {
					return true
				}
				for i := range lhs {
					id, ok := lhs[i].(*ast.Ident)
					if !ok || !isRefLike(rhs[i]) {
						continue
					}
					g := rootGlobal(rhs[i])
					if g == nil {
						continue
					}
					lobj := p.info.Defs[id]
					if lobj == nil {
						lobj = p.info.Uses[id]
					}
					if lobj == nil {
						continue
					}
					if _, isPkg := pkgVars[lobj]; isPkg {
						continue
					}
					if alias[lobj] == nil {
						alias[lobj] = g
						changed = true
					}
				}
				return true
			})
		}
	}
	if len(alias) > 0 {
		for _, f := range p.files {
			ast.Inspect(f, func(n ast.Node) bool {
				id, ok := n.(*ast.Ident)
				if !ok {
					return true
				}
				g, ok := alias[p.info.Uses[id]]
				if !ok {
					return true
				}
				fd := p.enclosingFunc(id)
				if fd == nil || (fd.Name.Name == "init" && fd.Recv == nil) || initOnly[fd.Name.Name] {
					return true
				}
				if p.syncMethodUse(id) {
					return true
				}
				w, why := p.classify(id, mut)
				// an alias is a pointer: handing it (or an address derived from it) to any call may write through it
				top := p.chainTop(id)
				if !w {
					var arg ast.Expr = top
					if u, ok := p.parent[top].(*ast.UnaryExpr); ok && u.Op == token.AND {
						arg = u
					}
					if call, ok := p.parent[arg].(*ast.CallExpr); ok && p.isAsmCall(call) {
						w, why = true, "passed to an assembly routine through a local alias"
					}
				}
				occs[g] = append(occs[g], occ{id, w, "via alias " + id.Name + ": " + why})
				return true
			})
		}
	}
	pkgName := ""
	if p.pkg != nil {
		pkgName = p.pkg.Name()
	}
	for obj, list := range occs {
		frozen := true
		for _, o := range list {
			if o.write {
				frozen = false
				p.rep.NonFrozen[pkgVars[obj]] = append(p.rep.NonFrozen[pkgVars[obj]], fmt.Sprintf("%s: %s", p.loc(o.id), o.reason))
			}
		}
		if frozen {
			continue
		}
		for _, o := range list {
			p.accBefore(o.id, fmt.Sprintf("vxsched.Acc(%q, %v, %q); ", pkgName+"."+pkgVars[obj], o.write && !strings.Contains(o.reason, "escape:"), p.loc(o.id)))
		}
	}
	// ---- fields of shared receiver types
	for _, m := range mds {
		tn := m.key[:strings.LastIndex(m.key, ".")]
		short := tn[strings.LastIndex(tn, ".")+1:]
		if !sharedTypes[short] {
			continue
		}
		_ = tn
	}
	fieldW := map[string]bool{} // "Type.field" written by some method
	type focc struct {
		id    *ast.Ident
		field string
		tname string
		write bool
	}
	var foccs []focc
	for _, m := range mds {
		tn := m.key[:strings.LastIndex(m.key, ".")]
		short := tn[strings.LastIndex(tn, ".")+1:]
		if !sharedTypes[short] {
			continue
		}
		ast.Inspect(m.fd.Body, func(n ast.Node) bool {
			id, ok := n.(*ast.Ident)
			if !ok || p.info.Uses[id] != m.recv {
				return true
			}
			sel, ok := p.parent[id].(*ast.SelectorExpr)
			if !ok || sel.X != id {
				return true
			}
			if s := p.info.Selections[sel]; s == nil || s.Kind() != types.FieldVal || isSyncType(s.Obj().Type()) {
				return true
			}
			w, why := p.classify(id, mut)
			// taking the address of a field and passing it to a Go function with a body is a potential write as well
			top := p.chainTop(id)
			if u, ok := p.parent[top].(*ast.UnaryExpr); ok && u.Op == token.AND && !w {
				if call, ok := p.parent[u].(*ast.CallExpr); ok && !p.isAsmCall(call) {
					// conservative: only reads are assumed for calls into this package's assembly (the footprint monitor covers them)
					w, why = false, ""
				}
			}
			fk := short + "." + sel.Sel.Name
			if w {
				fieldW[fk] = true
				p.rep.FieldsMut[fk] = append(p.rep.FieldsMut[fk], fmt.Sprintf("%s: %s", p.loc(id), why))
			}
			foccs = append(foccs, focc{id, sel.Sel.Name, short, w && !strings.HasPrefix(why, "escape:")})
			return true
		})
	}
	for _, o := range foccs {
		fk := o.tname + "." + o.field
		if !fieldW[fk] {
			continue
		}
		p.accBefore(o.id, fmt.Sprintf("vxsched.AccPtr(%q, vxunsafe.Pointer(%s), %v, %q); ", fk, o.id.Name, o.write, p.loc(o.id)))
	}
	// ---- assembly calls
	for _, f := range p.files {
		ast.Inspect(f, func(n ast.Node) bool {
			call, ok := n.(*ast.CallExpr)
			if !ok || !p.isAsmCall(call) {
				return true
			}
			name := call.Fun.(*ast.Ident).Name
			st := p.listStmt(call)
			if st == nil {
				p.rep.Unsupported = append(p.rep.Unsupported, "asm call not in a statement list: "+p.loc(call))
				return true
			}
			var ptrs []string
			for _, a := range call.Args {
				if hasCall(a) {
					continue
				}
				tv, ok := p.info.Types[a]
				if !ok {
					continue
				}
				src := p.text(a)
				switch tv.Type.Underlying().(type) {
				case *types.Pointer:
					ptrs = append(ptrs, "vxunsafe.Pointer("+src+")")
				case *types.Slice:
					ptrs = append(ptrs, "vxunsafe.Pointer(vxunsafe.SliceData("+src+"))")
				}
			}
			loc := p.loc(call)
			// pointer expressions such as &ret[len(dst)] may be out of range when the call itself would panic: evaluate them
			// lazily inside a closure that recovers, so that instrumentation never changes which panic the code raises
			args := ""
			if len(ptrs) > 0 {
				args = ", " + strings.Join(ptrs, ", ")
			}
			p.insert(st.Pos(), fmt.Sprintf("func() { defer func() { recover() }(); vxsched.AsmEnter(%q, %q%s) }(); ", name, loc, args))
			// arguments that contain calls run Go code between AsmEnter and the routine itself (a lazily built key schedule
			// fetched in the argument list): the last argument is wrapped so that what that code changed is accounted to Go
			// code right before the routine starts, and only the routine's own stores are attributed to it at AsmExit
			anyCall := false
			for _, a := range call.Args {
				anyCall = anyCall || hasCall(a)
			}
			if anyCall && len(call.Args) > 0 && !call.Ellipsis.IsValid() {
				last := call.Args[len(call.Args)-1]
				p.insert(last.Pos(), "vxsched.PreAsm(")
				p.insert(last.End(), ")")
			}
			switch st.(type) {
			case *ast.ExprStmt, *ast.AssignStmt:
				p.insert(st.End(), fmt.Sprintf("; vxsched.AsmExit(%q, %q)", name, loc))
			default:
				p.rep.Unsupported = append(p.rep.Unsupported, "asm call in a "+fmt.Sprintf("%T", st)+" (no AsmExit): "+loc)
			}
			p.rep.AsmCalls++
			return true
		})
	}
	// ---- sync imports
	for _, f := range p.files {
		for _, im := range f.Imports {
			path := strings.Trim(im.Path.Value, "\"")
			var repl string
			switch path {
			case "sync":
				repl = "sync \"verif/shim/sync\""
			case "sync/atomic":
				repl = "atomic \"verif/shim/atomic\""
			default:
				continue
			}
			if im.Name != nil {
				repl = im.Name.Name + " " + repl[strings.Index(repl, "\""):]
			}
			e := p.edits[f]
			start := p.fset.Position(im.Pos()).Offset
			end := p.fset.Position(im.End()).Offset
			e.repl = append(e.repl, [3]interface{}{start, end, repl})
			e.used = true
			p.rep.SyncImports++
		}
	}
	// ---- finalizers: the runtime runs them on a goroutine of its own, outside the controlled scheduler (an instrumented
	// access made from there would park a thread the scheduler does not know). Under the scheduler variants
	// runtime.SetFinalizer becomes a no-op (vxsched.SetFinalizer); what finalizers do to objects that stay in use is the
	// business of the lifetime scenarios, which run on the uninstrumented build.
	for _, f := range p.files {
		f := f
		ast.Inspect(f, func(n ast.Node) bool {
			call, ok := n.(*ast.CallExpr)
			if !ok {
				return true
			}
			sel, ok := call.Fun.(*ast.SelectorExpr)
			if !ok || sel.Sel.Name != "SetFinalizer" {
				return true
			}
			id, ok := sel.X.(*ast.Ident)
			if !ok {
				return true
			}
			if pn, ok := p.info.Uses[id].(*types.PkgName); !ok || pn.Imported().Path() != "runtime" {
				return true
			}
			e := p.edits[f]
			e.repl = append(e.repl, [3]interface{}{p.fset.Position(sel.Pos()).Offset, p.fset.Position(sel.End()).Offset, "vxsched.SetFinalizer"})
			e.used = true
			p.insert(f.End(), "\nvar _ = "+id.Name+".KeepAlive\n")
			return true
		})
	}
	// ---- imports for edited files + registration of globals
	for f, e := range p.edits {
		if !e.used {
			continue
		}
		p.insert(f.Name.End(), "\nimport vxsched \"verif/sched\"\nimport vxunsafe \"unsafe\"\n")
		p.insert(f.End(), "\nvar _ = vxsched.Active\nvar _ vxunsafe.Pointer\n")
		_ = e
	}
	if p.pkg != nil && len(p.rep.Globals)+len(syncGlobals) > 0 && len(p.files) > 0 {
		var b strings.Builder
		fmt.Fprintf(&b, "// Code generated by vxinstr. DO NOT EDIT.\n\npackage %s\n\nimport (\n\t\"reflect\"\n\tvxsched \"verif/sched\"\n)\n\nfunc init() {\n\tvxsched.RegisterGlobals([]vxsched.Global{\n", p.pkg.Name())
		for _, g := range p.rep.Globals {
			if g == "_" {
				continue
			}
			_, nf := p.rep.NonFrozen[g]
			fmt.Fprintf(&b, "\t\t{Name: %q, V: reflect.ValueOf(&%s).Elem(), Mutable: %v},\n", p.pkg.Name()+"."+g, g, nf)
		}
		for _, g := range syncGlobals {
			fmt.Fprintf(&b, "\t\t{Name: %q, V: reflect.ValueOf(&%s).Elem(), Sync: true},\n", p.pkg.Name()+"."+g, g)
		}
		fmt.Fprintf(&b, "\t})\n}\n")
		dir := filepath.Dir(p.edits[p.files[0]].path)
		os.WriteFile(filepath.Join(dir, "zzgen_vx_globals.go"), []byte(b.String()), 0o644)
	}
}

func hasCall(e ast.Expr) bool {
	found := false
	ast.Inspect(e, func(n ast.Node) bool {
		if c, ok := n.(*ast.CallExpr); ok {
			if id, ok := c.Fun.(*ast.Ident); ok && (id.Name == "len" || id.Name == "cap") {
				return true
			}
			found = true
		}
		return true
	})
	return found
}

func (p *pkgCtx) text(n ast.Node) string {
	f := p.fileOf(n)
	e := p.edits[f]
	return string(e.src[p.fset.Position(n.Pos()).Offset:p.fset.Position(n.End()).Offset])
}

// funcDeclOf returns the declaration of the package-level function called by call (nil when it is not a plain
// function of this package).
func (p *pkgCtx) funcDeclOf(call *ast.CallExpr) *ast.FuncDecl {
	id, ok := call.Fun.(*ast.Ident)
	if !ok {
		return nil
	}
	fn, ok := p.info.Uses[id].(*types.Func)
	if !ok || fn.Pkg() != p.pkg {
		return nil
	}
	for _, f := range p.files {
		for _, d := range f.Decls {
			if fd, ok := d.(*ast.FuncDecl); ok && fd.Recv == nil && fd.Name.Name == id.Name {
				return fd
			}
		}
	}
	return nil
}

// addrArgReadOnly: arg (a pointer-valued expression) is passed directly as a call argument to an assembly function
// (whose stores are found by the value scan at AsmExit) or to a Go function of this package that only reads through
// the corresponding parameter.
func (p *pkgCtx) addrArgReadOnly(arg ast.Expr, busy map[*ast.FuncDecl]bool) bool {
	call, ok := p.parent[arg].(*ast.CallExpr)
	if !ok {
		return false
	}
	idx := -1
	for i, a := range call.Args {
		if a == arg {
			idx = i
		}
	}
	fd := p.funcDeclOf(call)
	if fd == nil || idx < 0 {
		return false
	}
	if fd.Body == nil {
		return true
	}
	if busy[fd] {
		return false
	}
	busy[fd] = true
	defer delete(busy, fd)
	// the idx-th parameter object
	var param types.Object
	n := 0
	for _, fl := range fd.Type.Params.List {
		if len(fl.Names) == 0 {
			n++
			continue
		}
		for _, nm := range fl.Names {
			if n == idx {
				param = p.info.Defs[nm]
			}
			n++
		}
	}
	if param == nil {
		return false
	}
	if _, isPtr := param.Type().Underlying().(*types.Pointer); !isPtr {
		return false // slices, variadics: not analysed
	}
	ro := true
	ast.Inspect(fd.Body, func(nd ast.Node) bool {
		id, ok := nd.(*ast.Ident)
		if !ok || !ro || p.info.Uses[id] != param {
			return ro
		}
		top := p.chainTop(id)
		if top == ast.Expr(id) {
			// the bare pointer: only a nil comparison or a read-only hand-on is accepted
			switch par := p.parent[id].(type) {
			case *ast.BinaryExpr:
				if par.Op == token.EQL || par.Op == token.NEQ {
					return true
				}
			case *ast.CallExpr:
				if p.addrArgReadOnly(id, busy) {
					return true
				}
			}
			ro = false
			return false
		}
		if w, _ := p.classify(id, map[string]bool{}); w {
			ro = false
			return false
		}
		switch par := p.parent[top].(type) {
		case *ast.UnaryExpr:
			if par.Op == token.AND && !p.addrArgReadOnly(par, busy) {
				ro = false
			}
		case *ast.SliceExpr:
			if par.X == top {
				ro = false
			}
		}
		return ro
	})
	return ro
}

func (p *pkgCtx) isAsmCall(call *ast.CallExpr) bool {
	id, ok := call.Fun.(*ast.Ident)
	if !ok {
		return false
	}
	fn, ok := p.info.Uses[id].(*types.Func)
	if !ok || fn.Pkg() != p.pkg {
		return false
	}
	for _, f := range p.files {
		for _, d := range f.Decls {
			if fd, ok := d.(*ast.FuncDecl); ok && fd.Recv == nil && fd.Name.Name == id.Name {
				return fd.Body == nil
			}
		}
	}
	return false
}

// accBefore inserts text before the list statement containing n, and additionally at the start of the loop body when
// n sits in the header of a for statement (the header is re-evaluated on every iteration).
func (p *pkgCtx) accBefore(n ast.Node, text string) {
	st := p.listStmt(n)
	if st == nil {
		p.rep.Unsupported = append(p.rep.Unsupported, "access outside a statement list: "+p.loc(n))
		return
	}
	p.insert(st.Pos(), text)
	p.rep.AccSites++
	for cur := ast.Node(n); cur != nil && cur != st; cur = p.parent[cur] {
		par := p.parent[cur]
		if fs, ok := par.(*ast.ForStmt); ok && (fs.Cond == cur || fs.Post == cur) {
			p.insert(fs.Body.Lbrace+1, " "+text)
		}
		if rs, ok := par.(*ast.RangeStmt); ok && rs.X == cur {
			_ = rs // the range expression is evaluated once
		}
	}
}

// ------------------------------------------------------------------ trace mode (C08)

func (p *pkgCtx) traceMode() {
	type siteInfo struct {
		ID   uint32 `json:"id"`
		Kind string `json:"kind"`
		Loc  string `json:"loc"`
		Func string `json:"func"`
		Text string `json:"text"`
	}
	var sitesOut []siteInfo
	blockID := map[ast.Node]uint32{}
	newSite := func(n ast.Node, kind string) string {
		p.rep.TraceSites++
		fn := ""
		if fd := p.enclosingFunc(n); fd != nil {
			fn = fd.Name.Name
			if fd.Recv != nil && len(fd.Recv.List) > 0 {
				fn = strings.TrimPrefix(p.text(fd.Recv.List[0].Type), "*") + "." + fn
			}
		}
		key := fmt.Sprintf("%s/%s#%d", p.rep.Package, p.loc(n), p.rep.TraceSites)
		var id uint32 = 2166136261
		for i := 0; i < len(key); i++ {
			id ^= uint32(key[i])
			id *= 16777619
		}
		txt := ""
		switch kind {
		case "shortcircuit", "index", "slicebound":
			txt = p.text(n)
		case "then", "else":
			if is, ok := p.parent[n].(*ast.IfStmt); ok {
				txt = p.text(is.Cond)
			}
		case "for":
			if fs, ok := p.parent[n].(*ast.ForStmt); ok && fs.Cond != nil {
				txt = p.text(fs.Cond)
			}
		case "range":
			if rs, ok := p.parent[n].(*ast.RangeStmt); ok {
				txt = p.text(rs.X)
			}
		case "case":
			if cc, ok := n.(*ast.CaseClause); ok && len(cc.List) > 0 {
				txt = p.text(cc.List[0])
			}
		}
		txt = strings.Join(strings.Fields(txt), " ")
		if len(txt) > 90 {
			txt = txt[:90]
		}
		sitesOut = append(sitesOut, siteInfo{id, kind, p.loc(n), p.rep.Package + ":" + fn, txt})
		blockID[n] = id
		return fmt.Sprintf("%d", id)
	}
	defer func() {
		b, _ := json.Marshal(sitesOut)
		dir := filepath.Dir(p.edits[p.files[0]].path)
		os.WriteFile(filepath.Join(dir, ".vx_trace_sites.json"), b, 0o644)
	}()
	for _, f := range p.files {
		usedHere := false
		ast.Inspect(f, func(n ast.Node) bool {
			switch x := n.(type) {
			case *ast.FuncDecl:
				if x.Body != nil {
					p.insert(x.Body.Lbrace+1, fmt.Sprintf(" vxtrace.B(%s); ", newSite(x, "func")))
					blockID[x.Body] = blockID[x]
					usedHere = true
				}
			case *ast.FuncLit:
				p.insert(x.Body.Lbrace+1, fmt.Sprintf(" vxtrace.B(%s); ", newSite(x, "funclit")))
				blockID[x.Body] = blockID[x]
				usedHere = true
			case *ast.IfStmt:
				p.insert(x.Body.Lbrace+1, fmt.Sprintf(" vxtrace.B(%s); ", newSite(x.Body, "then")))
				if eb, ok := x.Else.(*ast.BlockStmt); ok {
					p.insert(eb.Lbrace+1, fmt.Sprintf(" vxtrace.B(%s); ", newSite(eb, "else")))
				}
				usedHere = true
			case *ast.ForStmt:
				p.insert(x.Body.Lbrace+1, fmt.Sprintf(" vxtrace.B(%s); ", newSite(x.Body, "for")))
				usedHere = true
			case *ast.RangeStmt:
				p.insert(x.Body.Lbrace+1, fmt.Sprintf(" vxtrace.B(%s); ", newSite(x.Body, "range")))
				usedHere = true
			case *ast.CaseClause:
				p.insert(x.Colon+1, fmt.Sprintf(" vxtrace.B(%s); ", newSite(x, "case")))
				usedHere = true
			case *ast.BinaryExpr:
				if x.Op == token.LAND || x.Op == token.LOR {
					if tv, ok := p.info.Types[x]; ok && tv.Value != nil {
						return true // constant expression
					}
					if p.enclosingFunc(x) == nil {
						return true
					}
					p.insert(x.Y.Pos(), fmt.Sprintf("vxtrace.S(%s) && (", newSite(x.Y, "shortcircuit")))
					p.insert(x.Y.End(), ")")
					usedHere = true
				}
			case *ast.IndexExpr:
				if p.enclosingFunc(x) == nil {
					return true
				}
				tv, ok := p.info.Types[x.Index]
				if !ok || tv.Value != nil || tv.IsType() {
					return true
				}
				xt, ok := p.info.Types[x.X]
				if !ok || xt.IsType() {
					return true
				}
				switch u := xt.Type.Underlying().(type) {
				case *types.Slice, *types.Array:
				case *types.Pointer:
					if _, isArr := u.Elem().Underlying().(*types.Array); !isArr {
						return true
					}
				case *types.Basic:
					if u.Info()&types.IsString == 0 {
						return true
					}
				default:
					return true // maps, generic instantiations
				}
				if bt, isBasic := tv.Type.Underlying().(*types.Basic); !isBasic || bt.Info()&types.IsInteger == 0 {
					return true
				}
				p.insert(x.Index.Pos(), fmt.Sprintf("vxtrace.I(%s, (", newSite(x.Index, "index")))
				p.insert(x.Index.End(), "))")
				usedHere = true
			case *ast.SliceExpr:
				if p.enclosingFunc(x) == nil {
					return true
				}
				for _, b := range []ast.Expr{x.Low, x.High, x.Max} {
					if b == nil {
						continue
					}
					tv, ok := p.info.Types[b]
					if !ok || tv.Value != nil {
						continue
					}
					if bt, isBasic := tv.Type.Underlying().(*types.Basic); !isBasic || bt.Info()&types.IsInteger == 0 {
						continue
					}
					p.insert(b.Pos(), fmt.Sprintf("vxtrace.I(%s, (", newSite(b, "slicebound")))
					p.insert(b.End(), "))")
					usedHere = true
				}
			}
			return true
		})
		if usedHere {
			p.insert(f.Name.End(), "\nimport vxtrace \"verif/trace\"\n")
			p.insert(f.End(), "\nvar _ = vxtrace.B\n")
		}
	}
	// external callees, attributed to the innermost instrumented block that contains the call; the value-bearing operands
	// (receiver and arguments that are big integers, byte strings or integers) are handed to vxtrace.X right before the
	// statement that makes the call, so that the monitor can tell a call on public values from a call on secrets
	type extCall struct {
		Site   uint32 `json:"site"`
		Func   string `json:"func"`
		Callee string `json:"callee"`
		Loc    string `json:"loc"`
		Text   string `json:"text"`
		XSite  uint32 `json:"xsite"`
	}
	var exts []extCall
	// operand text for vxtrace.X, "" when the type carries no value of interest, "?" when it cannot be evaluated twice
	var simple func(e ast.Expr) bool
	simple = func(e ast.Expr) bool {
		switch x := e.(type) {
		case *ast.Ident:
			return true
		case *ast.BasicLit:
			return true
		case *ast.SelectorExpr:
			if sel := p.info.Selections[x]; sel != nil && sel.Kind() != types.FieldVal {
				return false
			}
			return simple(x.X)
		case *ast.ParenExpr:
			return simple(x.X)
		case *ast.StarExpr:
			return simple(x.X)
		case *ast.UnaryExpr:
			return x.Op == token.AND && simple(x.X)
		case *ast.IndexExpr:
			return simple(x.X) && simple(x.Index)
		case *ast.SliceExpr:
			return simple(x.X) && (x.Low == nil || simple(x.Low)) && (x.High == nil || simple(x.High)) && x.Max == nil
		}
		return false
	}
	operand := func(e ast.Expr) string {
		tv, ok := p.info.Types[e]
		if !ok {
			return ""
		}
		t := tv.Type
		isBig := func(t types.Type) bool {
			n, ok := t.(*types.Named)
			return ok && n.Obj().Pkg() != nil && n.Obj().Pkg().Path() == "math/big" && n.Obj().Name() == "Int"
		}
		fresh := false
		if c, ok := e.(*ast.CallExpr); ok {
			if id, ok := c.Fun.(*ast.Ident); ok && (id.Name == "new" || id.Name == "make") {
				fresh = true
			}
		}
		txt := p.text(e)
		switch u := t.(type) {
		case *types.Pointer:
			if isBig(u.Elem()) {
				if fresh {
					return ""
				}
				if !simple(e) {
					return `"?"`
				}
				return txt
			}
			return ""
		case *types.Named:
			if isBig(u) {
				if !simple(e) || !tv.Addressable() {
					return `"?"`
				}
				return "&" + txt
			}
		}
		switch u := t.Underlying().(type) {
		case *types.Slice:
			if b, ok := u.Elem().Underlying().(*types.Basic); ok && b.Kind() == types.Uint8 {
				if fresh {
					return ""
				}
				if !simple(e) {
					return `"?"`
				}
				return txt
			}
		case *types.Array:
			if b, ok := u.Elem().Underlying().(*types.Basic); ok && b.Kind() == types.Uint8 {
				if !simple(e) || !tv.Addressable() {
					return `"?"`
				}
				return txt + "[:]"
			}
		case *types.Basic:
			if u.Info()&types.IsInteger != 0 && tv.Value == nil {
				if !simple(e) {
					return `"?"`
				}
				switch u.Kind() {
				case types.Int, types.Int64, types.Uint64, types.Uint, types.Uint32, types.Int32, types.Uint8:
					if _, named := t.(*types.Named); named {
						return "int64(" + txt + ")"
					}
					return txt
				}
				return "int64(" + txt + ")"
			}
		}
		return ""
	}
	skipPkg := map[string]bool{"math/bits": true, "crypto/subtle": true, "errors": true, "fmt": true, "encoding/binary": true, "sync": true, "sync/atomic": true, "unsafe": true}
	usedX := map[*ast.File]bool{}
	for _, f := range p.files {
		f := f
		ast.Inspect(f, func(n ast.Node) bool {
			call, ok := n.(*ast.CallExpr)
			if !ok {
				return true
			}
			var obj types.Object
			var recv ast.Expr
			switch fn := call.Fun.(type) {
			case *ast.Ident:
				obj = p.info.Uses[fn]
			case *ast.SelectorExpr:
				obj = p.info.Uses[fn.Sel]
				if sel := p.info.Selections[fn]; sel != nil && sel.Kind() == types.MethodVal {
					recv = fn.X
				}
			}
			fobj, ok := obj.(*types.Func)
			if !ok || fobj.Pkg() == nil || fobj.Pkg() == p.pkg || strings.HasPrefix(fobj.Pkg().Path(), "github.com/bilibili/smgo") {
				return true
			}
			fd := p.enclosingFunc(call)
			if fd == nil {
				return true
			}
			fn := fd.Name.Name
			if fd.Recv != nil && len(fd.Recv.List) > 0 {
				fn = strings.TrimPrefix(p.text(fd.Recv.List[0].Type), "*") + "." + fn
			}
			var site uint32
			for cur := ast.Node(call); cur != nil; cur = p.parent[cur] {
				if id, ok := blockID[cur]; ok {
					site = id
					break
				}
			}
			var xsite uint32
			if !skipPkg[fobj.Pkg().Path()] && p.listStmt(call) != nil {
				var ops []string
				if recv != nil {
					if o := operand(recv); o != "" {
						ops = append(ops, o)
					}
				}
				for _, a := range call.Args {
					if o := operand(a); o != "" {
						ops = append(ops, o)
					}
				}
				// an operand that is declared by the very statement that makes the call (if v := f(); g(v) ...) cannot be read
				// in front of that statement
				st := p.listStmt(call)
				declaredHere := func(e ast.Expr) bool {
					found := false
					ast.Inspect(e, func(n ast.Node) bool {
						if id, ok := n.(*ast.Ident); ok {
							if obj := p.info.Uses[id]; obj != nil && obj.Pos() >= st.Pos() && obj.Pos() < st.End() {
								found = true
							}
						}
						return !found
					})
					return found
				}
				k := 0
				if recv != nil && operand(recv) != "" {
					if declaredHere(recv) {
						ops[k] = `"?"`
					}
					k++
				}
				for _, a := range call.Args {
					if operand(a) != "" {
						if declaredHere(a) {
							ops[k] = `"?"`
						}
						k++
					}
				}
				idtxt := newSite(call, "ext")
				delete(blockID, call) // a call is not a block: inner calls keep their enclosing block
				fmt.Sscanf(idtxt, "%d", &xsite)
				p.accBefore(call, fmt.Sprintf("vxtrace.X(%s%s); ", idtxt, func() string {
					if len(ops) == 0 {
						return ""
					}
					return ", " + strings.Join(ops, ", ")
				}()))
				usedX[f] = true
			}
			exts = append(exts, extCall{site, p.rep.Package + ":" + fn, fobj.FullName(), p.loc(call), strings.Join(strings.Fields(p.text(call)), " "), xsite})
			return true
		})
	}
	// comparisons the compiler implements as memory comparisons: == / != on arrays, strings and multi-field structs of
	// plain values. There is no branch, index or callee in the source, yet the instructions executed depend on where the
	// operands first differ. Both operands are wrapped in vxtrace.Q (recorded, returned unchanged) and the comparison is
	// listed as an external callee of the enclosing block, judged by its operands like any other.
	cmpType := func(t types.Type) bool {
		switch u := t.Underlying().(type) {
		case *types.Basic:
			return u.Info()&types.IsString != 0
		case *types.Array:
			return u.Len() > 1 && plainValueType(u.Elem())
		case *types.Struct:
			if u.NumFields() < 2 {
				return false
			}
			for i := 0; i < u.NumFields(); i++ {
				if !plainValueType(u.Field(i).Type()) {
					return false
				}
			}
			return true
		}
		return false
	}
	for _, f := range p.files {
		f := f
		ast.Inspect(f, func(n ast.Node) bool {
			be, ok := n.(*ast.BinaryExpr)
			if !ok || (be.Op != token.EQL && be.Op != token.NEQ) {
				return true
			}
			fd := p.enclosingFunc(be)
			if fd == nil {
				return true
			}
			tx, okx := p.info.Types[be.X]
			ty, oky := p.info.Types[be.Y]
			if !okx || !oky || tx.Value != nil || ty.Value != nil || !types.Identical(tx.Type, ty.Type) || !cmpType(tx.Type) {
				return true
			}
			fn := fd.Name.Name
			if fd.Recv != nil && len(fd.Recv.List) > 0 {
				fn = strings.TrimPrefix(p.text(fd.Recv.List[0].Type), "*") + "." + fn
			}
			var site uint32
			for cur := ast.Node(be); cur != nil; cur = p.parent[cur] {
				if id, ok := blockID[cur]; ok {
					site = id
					break
				}
			}
			idtxt := newSite(be, "ext")
			delete(blockID, be)
			var xsite uint32
			fmt.Sscanf(idtxt, "%d", &xsite)
			for _, o := range []ast.Expr{be.X, be.Y} {
				p.insert(o.Pos(), "vxtrace.Q("+idtxt+", (")
				p.insert(o.End(), "))")
			}
			usedX[f] = true
			exts = append(exts, extCall{site, p.rep.Package + ":" + fn, "runtime.memequal [" + be.Op.String() + " on " + types.TypeString(tx.Type, func(pk *types.Package) string { return pk.Name() }) + "]", p.loc(be), strings.Join(strings.Fields(p.text(be)), " "), xsite})
			return true
		})
	}
	// addresses handed back by assembly: a call of a function of this package that has no Go body and returns a pointer,
	// unsafe.Pointer, uintptr or slice is wrapped in vxtrace.PA - the location Go code then accesses through the result
	// is an index event
	asmFuncs := map[types.Object]bool{}
	for _, f := range p.files {
		for _, d := range f.Decls {
			if fd, ok := d.(*ast.FuncDecl); ok && fd.Body == nil && fd.Recv == nil {
				if obj := p.info.Defs[fd.Name]; obj != nil {
					asmFuncs[obj] = true
				}
			}
		}
	}
	for _, f := range p.files {
		f := f
		ast.Inspect(f, func(n ast.Node) bool {
			call, ok := n.(*ast.CallExpr)
			if !ok {
				return true
			}
			id, ok := call.Fun.(*ast.Ident)
			if !ok || !asmFuncs[p.info.Uses[id]] || p.enclosingFunc(call) == nil {
				return true
			}
			tv, ok := p.info.Types[call]
			if !ok {
				return true
			}
			isAddr := false
			switch u := tv.Type.Underlying().(type) {
			case *types.Pointer, *types.Slice:
				isAddr = true
			case *types.Basic:
				isAddr = u.Kind() == types.UnsafePointer || u.Kind() == types.Uintptr
			}
			if !isAddr {
				return true
			}
			if _, isStmt := p.parent[call].(*ast.ExprStmt); isStmt {
				return true
			}
			p.insert(call.Pos(), "vxtrace.PA("+newSite(call, "asmaddr")+", ")
			p.insert(call.End(), ")")
			usedX[f] = true
			return true
		})
	}
	for f := range usedX {
		already := false
		for _, ins := range p.edits[f].ins {
			if strings.Contains(ins.text, "import vxtrace") {
				already = true
			}
		}
		if !already {
			p.insert(f.Name.End(), "\nimport vxtrace \"verif/trace\"\n")
			p.insert(f.End(), "\nvar _ = vxtrace.B\n")
		}
	}
	if len(p.files) > 0 {
		b, _ := json.Marshal(exts)
		os.WriteFile(filepath.Join(filepath.Dir(p.edits[p.files[0]].path), ".vx_trace_ext.json"), b, 0o644)
	}
	sort.Strings(p.rep.Unsupported)
}

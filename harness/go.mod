module verif

go 1.21

// Package guard places byte slices flush against inaccessible pages, so that a
// read or write one byte outside the slice - by Go code or by assembly - faults.
// With debug.SetPanicOnFault(true) (see vx.TryFault) the fault surfaces as a
// recoverable panic whose value has an Addr() method, which distinguishes it
// from Go bounds checks and explicit panics.
package guard

import (
	"syscall"
	"unsafe"
)

const Page = 4096

// Arena is a run of accessible pages with a PROT_NONE page directly before and after.
type Arena struct {
	all  []byte
	body []byte
}

func New(pages int) *Arena {
	n := (pages + 2) * Page
	m, err := syscall.Mmap(-1, 0, n, syscall.PROT_READ|syscall.PROT_WRITE, syscall.MAP_ANON|syscall.MAP_PRIVATE)
	if err != nil {
		panic("guard: mmap: " + err.Error())
	}
	if err := syscall.Mprotect(m[:Page], syscall.PROT_NONE); err != nil {
		panic("guard: mprotect: " + err.Error())
	}
	if err := syscall.Mprotect(m[n-Page:], syscall.PROT_NONE); err != nil {
		panic("guard: mprotect: " + err.Error())
	}
	return &Arena{all: m, body: m[Page : n-Page]}
}

func (a *Arena) Free() { syscall.Munmap(a.all) }

// Tail returns n bytes ending exactly at the trailing guard page (cap == n), filled from src.
func (a *Arena) Tail(src []byte) []byte {
	n := len(src)
	if n > len(a.body) {
		panic("guard: too large")
	}
	s := a.body[len(a.body)-n : len(a.body) : len(a.body)]
	copy(s, src)
	return s
}

// Head returns n bytes starting exactly after the leading guard page (cap == n), filled from src.
func (a *Arena) Head(src []byte) []byte {
	n := len(src)
	if n > len(a.body) {
		panic("guard: too large")
	}
	s := a.body[0:n:n]
	copy(s, src)
	return s
}

// Fill sets the whole accessible body to b (canary pattern).
func (a *Arena) Fill(b byte) {
	for i := range a.body {
		a.body[i] = b
	}
}

// Body exposes the accessible bytes (to verify canaries).
func (a *Arena) Body() []byte { return a.body }

// Mid returns a slice of n bytes in the middle of the arena with canary space on both sides
// (at least 64 bytes), cap == n.
func (a *Arena) Mid(src []byte) []byte {
	n := len(src)
	off := (len(a.body) - n) / 2
	if off < 64 {
		panic("guard: arena too small for Mid")
	}
	s := a.body[off : off+n : off+n]
	copy(s, src)
	return s
}

// CanaryIntact reports whether every byte of the body outside [lo,hi) (offsets of s) still holds pattern.
func (a *Arena) CanaryIntact(s []byte, pattern byte) bool {
	if len(s) == 0 {
		for _, b := range a.body {
			if b != pattern {
				return false
			}
		}
		return true
	}
	// locate s inside body
	base := uintptrOf(a.body)
	lo := int(uintptrOf(s) - base)
	hi := lo + len(s)
	for i, b := range a.body {
		if (i < lo || i >= hi) && b != pattern {
			return false
		}
	}
	return true
}

// TailGap returns n bytes ending gap bytes before the trailing guard page (cap == n), filled from src: an over-read of
// more than gap bytes faults, a shorter one does not - the placement that tells "never reads past the end" from "reads
// past the end only when that cannot fault".
func (a *Arena) TailGap(src []byte, gap int) []byte {
	n := len(src)
	if n+gap > len(a.body) {
		panic("guard: too large")
	}
	end := len(a.body) - gap
	s := a.body[end-n : end : end]
	copy(s, src)
	return s
}

// At returns n bytes starting at offset off of the accessible body (cap == n), filled from src; with an arena of two or
// more pages, off near Page puts an internal page boundary anywhere inside or next to the buffer.
func (a *Arena) At(src []byte, off int) []byte {
	n := len(src)
	if off < 0 || off+n > len(a.body) {
		panic("guard: out of range")
	}
	s := a.body[off : off+n : off+n]
	copy(s, src)
	return s
}

// RO is a set of byte slices that live in memory the process may read but not write: a library call that stores into
// one of its inputs - even if it restores the bytes before it returns - faults (and, under vx.TryFault, panics with the
// address). Slices are carved out of one arena, a few bytes apart; Seal makes everything placed so far read-only,
// Reset makes the arena writable again and forgets the slices.
type RO struct {
	mem    []byte
	used   int
	sealed bool
}

// NewRO maps an arena of the given number of pages (writable until Seal).
func NewRO(pages int) *RO {
	m, err := syscall.Mmap(-1, 0, pages*Page, syscall.PROT_READ|syscall.PROT_WRITE, syscall.MAP_ANON|syscall.MAP_PRIVATE)
	if err != nil {
		panic("guard: mmap: " + err.Error())
	}
	return &RO{mem: m}
}

// Put copies src into the arena and returns the copy (len == cap == len(src)); nil stays nil. When the arena is full the
// slice is returned as an ordinary heap copy (the call then simply runs without the write protection).
func (r *RO) Put(src []byte) []byte {
	if src == nil {
		return nil
	}
	if r.sealed {
		r.Reset()
	}
	n := len(src)
	if r.used+n+24 > len(r.mem) {
		return append(make([]byte, 0, n), src...)
	}
	s := r.mem[r.used : r.used+n : r.used+n]
	copy(s, src)
	r.used += n + 7 + (8 - (r.used+n+7)%8) // a gap, odd alignment classes avoided
	return s
}

// Seal write-protects the arena.
func (r *RO) Seal() {
	if !r.sealed {
		if err := syscall.Mprotect(r.mem, syscall.PROT_READ); err != nil {
			panic("guard: mprotect: " + err.Error())
		}
		r.sealed = true
	}
}

// Reset makes the arena writable again and empties it.
func (r *RO) Reset() {
	if r.sealed {
		if err := syscall.Mprotect(r.mem, syscall.PROT_READ|syscall.PROT_WRITE); err != nil {
			panic("guard: mprotect: " + err.Error())
		}
		r.sealed = false
	}
	r.used = 0
}

// Owns reports whether addr lies inside the arena.
func (r *RO) Owns(addr uintptr) bool {
	if len(r.mem) == 0 {
		return false
	}
	base := uintptr(unsafe.Pointer(&r.mem[0]))
	return addr >= base && addr < base+uintptr(len(r.mem))
}

// Split is a run of writable pages followed by one read-only page (and then an inaccessible one): Place returns a slice
// whose first rw bytes end exactly at the boundary and whose last ro bytes lie in the read-only page. A destination
// whose spare capacity beyond the result is that read-only part may be appended to in place, but a library that stores
// anything behind its result - even bytes it puts back afterwards - faults.
type Split struct {
	mem     []byte
	rwPages int
}

func NewSplit(rwPages int) *Split {
	n := (rwPages + 2) * Page
	m, err := syscall.Mmap(-1, 0, n, syscall.PROT_READ|syscall.PROT_WRITE, syscall.MAP_ANON|syscall.MAP_PRIVATE)
	if err != nil {
		panic("guard: mmap: " + err.Error())
	}
	if err := syscall.Mprotect(m[n-Page:], syscall.PROT_NONE); err != nil {
		panic("guard: mprotect: " + err.Error())
	}
	return &Split{mem: m, rwPages: rwPages}
}

// Place fills the read-only page with fill, protects it, and returns the slice described above (len = rw+ro).
func (s *Split) Place(rw, ro int, fill byte) []byte {
	b := s.rwPages * Page
	if rw > b || ro > Page {
		panic("guard: too large")
	}
	roPage := s.mem[b : b+Page]
	if err := syscall.Mprotect(roPage, syscall.PROT_READ|syscall.PROT_WRITE); err != nil {
		panic("guard: mprotect: " + err.Error())
	}
	for i := range roPage {
		roPage[i] = fill
	}
	if err := syscall.Mprotect(roPage, syscall.PROT_READ); err != nil {
		panic("guard: mprotect: " + err.Error())
	}
	return s.mem[b-rw : b+ro : b+ro]
}

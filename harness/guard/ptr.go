package guard

import "unsafe"

func uintptrOf(b []byte) uintptr {
	if cap(b) == 0 {
		return 0
	}
	return uintptr(unsafe.Pointer(unsafe.SliceData(b)))
}

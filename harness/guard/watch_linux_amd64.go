//go:build linux && amd64

package guard

import (
	"syscall"
	"unsafe"
)

// Hardware data watchpoints (perf_event_open, PERF_TYPE_BREAKPOINT): count every read or write of n bytes at addr by
// the calling OS thread (lock it with runtime.LockOSThread), in user mode. They see what no fence can: an access to
// memory that is mapped - the bytes right behind or in front of an argument in the middle of a page.

type perfEventAttr struct {
	Type, Size       uint32
	Config           uint64
	Sample           uint64
	SampleType       uint64
	ReadFormat       uint64
	Bits             uint64
	Wakeup           uint32
	BpType           uint32
	BpAddr           uint64
	BpLen            uint64
	BranchSampleType uint64
	SampleRegsUser   uint64
	SampleStackUser  uint32
	ClockID          int32
	SampleRegsIntr   uint64
	AuxWatermark     uint32
	SampleMaxStack   uint16
	_                uint16
}

// Watch opens a counting read/write watchpoint; n must be 1, 2, 4 or 8 and addr aligned to n.
func Watch(addr uintptr, n int) (int, error) {
	attr := perfEventAttr{Type: 5, BpType: 3, BpAddr: uint64(addr), BpLen: uint64(n)}
	attr.Size = uint32(unsafe.Sizeof(attr))
	attr.Bits = 1<<5 | 1<<6 // exclude_kernel, exclude_hv
	fd, _, e := syscall.RawSyscall6(syscall.SYS_PERF_EVENT_OPEN, uintptr(unsafe.Pointer(&attr)), 0, ^uintptr(0), ^uintptr(0), 0, 0)
	if e != 0 {
		return -1, e
	}
	return int(fd), nil
}

// Hits reads the counter.
func Hits(fd int) (uint64, error) {
	var c uint64
	n, _, e := syscall.RawSyscall(syscall.SYS_READ, uintptr(fd), uintptr(unsafe.Pointer(&c)), 8)
	if e != 0 || n != 8 {
		return 0, e
	}
	return c, nil
}

// Unwatch closes the watchpoint.
func Unwatch(fd int) { syscall.Close(fd) }

package refs

import (
	"math/big"
	"testing"

	"verif/refs/sm2ref"
)

func BenchmarkRefMul(b *testing.B) {
	k := new(big.Int).Sub(sm2ref.N, big.NewInt(12345))
	for i := 0; i < b.N; i++ {
		sm2ref.BaseMul(k)
	}
}

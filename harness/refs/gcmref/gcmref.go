// Package gcmref is a plain transcription of NIST SP 800-38D (GCM) for an
// arbitrary 128-bit block cipher: bit-serial GF(2^128) multiplication
// (algorithm 1), GHASH (algorithm 2), GCTR with inc32 (algorithm 3), GCM-AE
// and GCM-AD (algorithms 4 and 5) for any non-empty nonce and tag length.
// It additionally offers field inversion so that a nonce can be *solved* for a
// wanted pre-counter block J0.
package gcmref

import (
	"crypto/subtle"
	"encoding/binary"
)

// Block is one 128-bit string, bit 0 = most significant bit of byte 0 (the
// standard's bit numbering).
type Block [16]byte

type Cipher interface {
	EncryptBlock(dst, src []byte)
}

func xor(a, b Block) Block {
	var o Block
	for i := range o {
		o[i] = a[i] ^ b[i]
	}
	return o
}

// Mul is algorithm 1: Z = X . Y in GF(2^128), R = 11100001 || 0^120.
func Mul(x, y Block) Block {
	var z Block
	v := y
	for i := 0; i < 128; i++ {
		if x[i/8]>>(7-uint(i%8))&1 == 1 {
			z = xor(z, v)
		}
		lsb := v[15] & 1
		// v >>= 1 (towards higher bit indices)
		for k := 15; k > 0; k-- {
			v[k] = v[k]>>1 | v[k-1]<<7
		}
		v[0] >>= 1
		if lsb == 1 {
			v[0] ^= 0xe1
		}
	}
	return z
}

// One is the multiplicative identity (bit 0 set).
var One = Block{0x80}

// Inv returns x^-1 = x^(2^128-2).
func Inv(x Block) Block {
	// square-and-multiply over the exponent 2^128-2 = 0b111...110
	r := One
	for i := 0; i < 128; i++ {
		r = Mul(r, r)
		if i != 127 {
			r = Mul(r, x)
		}
	}
	return r
}

// GHash is algorithm 2 over a byte string whose length is a multiple of 16.
func GHash(h Block, x []byte) Block {
	if len(x)%16 != 0 {
		panic("gcmref: GHASH input not block aligned")
	}
	var y Block
	for i := 0; i < len(x); i += 16 {
		var b Block
		copy(b[:], x[i:i+16])
		y = Mul(xor(y, b), h)
	}
	return y
}

func pad16(b []byte) []byte {
	out := append([]byte{}, b...)
	for len(out)%16 != 0 {
		out = append(out, 0)
	}
	return out
}

// J0 computes the pre-counter block (step 2 of algorithm 4).
func J0(h Block, nonce []byte) Block {
	var j Block
	if len(nonce) == 12 {
		copy(j[:], nonce)
		j[15] = 1
		return j
	}
	x := pad16(nonce)
	var l [16]byte
	binary.BigEndian.PutUint64(l[8:], uint64(len(nonce))*8)
	x = append(x, l[:]...)
	return GHash(h, x)
}

func inc32(b Block) Block {
	c := binary.BigEndian.Uint32(b[12:])
	c++
	binary.BigEndian.PutUint32(b[12:], c)
	return b
}

// GCTR is algorithm 3.
func GCTR(c Cipher, icb Block, x []byte) []byte {
	out := make([]byte, len(x))
	cb := icb
	for i := 0; i < len(x); i += 16 {
		var ks [16]byte
		c.EncryptBlock(ks[:], cb[:])
		for k := i; k < i+16 && k < len(x); k++ {
			out[k] = x[k] ^ ks[k-i]
		}
		cb = inc32(cb)
	}
	return out
}

// H returns the hash subkey CIPH_K(0^128).
func H(c Cipher) Block {
	var z, h Block
	c.EncryptBlock(h[:], z[:])
	return h
}

func tag(c Cipher, h, j0 Block, aad, ct []byte, tagSize int) []byte {
	s := pad16(aad)
	s = append(s, pad16(ct)...)
	var l [16]byte
	binary.BigEndian.PutUint64(l[:8], uint64(len(aad))*8)
	binary.BigEndian.PutUint64(l[8:], uint64(len(ct))*8)
	s = append(s, l[:]...)
	g := GHash(h, s)
	t := GCTR(c, j0, g[:])
	return t[:tagSize]
}

// Seal is GCM-AE: returns ciphertext || tag.
func Seal(c Cipher, nonce, plaintext, aad []byte, tagSize int) []byte {
	h := H(c)
	j0 := J0(h, nonce)
	ct := GCTR(c, inc32(j0), plaintext)
	return append(ct, tag(c, h, j0, aad, ct, tagSize)...)
}

// Open is GCM-AD: returns (plaintext, true) or (nil, false).
func Open(c Cipher, nonce, ciphertext, aad []byte, tagSize int) ([]byte, bool) {
	if len(ciphertext) < tagSize {
		return nil, false
	}
	h := H(c)
	j0 := J0(h, nonce)
	ct := ciphertext[:len(ciphertext)-tagSize]
	t := ciphertext[len(ciphertext)-tagSize:]
	want := tag(c, h, j0, aad, ct, tagSize)
	if subtle.ConstantTimeCompare(want, t) != 1 {
		return nil, false
	}
	return GCTR(c, inc32(j0), ct), true
}

// SolveNonce returns a nonce of length n >= 16 (n != 12) whose pre-counter
// block is exactly want: J0 = GHASH_H(N || pad || 0^64 || [len]_64). The
// first block of the nonce is solved for, the remaining bytes are taken from
// rest (len(rest) == n-16).
func SolveNonce(h Block, want Block, n int, rest []byte) []byte {
	if n < 16 || len(rest) != n-16 {
		panic("gcmref: SolveNonce needs n >= 16 and len(rest) == n-16")
	}
	// GHASH(N1 || R || L) = N1*H^(m) + GHASH(R || L) where m = number of blocks in total
	tail := pad16(rest)
	var l [16]byte
	binary.BigEndian.PutUint64(l[8:], uint64(n)*8)
	tail = append(tail, l[:]...)
	m := 1 + len(tail)/16
	restHash := GHash(h, tail)
	hm := One
	for i := 0; i < m; i++ {
		hm = Mul(hm, h)
	}
	n1 := Mul(xor(want, restHash), Inv(hm))
	out := append([]byte{}, n1[:]...)
	out = append(out, rest...)
	return out
}

// SealZeroAAD is Seal for additional data consisting of aadLen zero bytes, without materialising them: GHASH over
// all-zero blocks keeps the accumulator at zero (Y_i = (Y_{i-1} xor 0)*H with Y_0 = 0), so only the length block knows
// about the additional data.
func SealZeroAAD(c Cipher, nonce, plaintext []byte, aadLen uint64, tagSize int) []byte {
	h := H(c)
	j0 := J0(h, nonce)
	ct := GCTR(c, inc32(j0), plaintext)
	s := pad16(ct)
	var l [16]byte
	binary.BigEndian.PutUint64(l[:8], aadLen*8)
	binary.BigEndian.PutUint64(l[8:], uint64(len(ct))*8)
	s = append(s, l[:]...)
	g := GHash(h, s)
	t := GCTR(c, j0, g[:])
	return append(ct, t[:tagSize]...)
}

// Pow returns x^e in GF(2^128) (square and multiply).
func Pow(x Block, e uint64) Block {
	r := One
	b := x
	for e > 0 {
		if e&1 == 1 {
			r = Mul(r, b)
		}
		b = Mul(b, b)
		e >>= 1
	}
	return r
}

// SealSparseAAD is Seal for additional data of aadLen >= 16 bytes that consists of the 16 bytes first followed by zero
// bytes, without materialising it: after the first block the accumulator is first*H, and every further (all-zero)
// block multiplies it by H once more, so after all n = ceil(aadLen/16) blocks it is first*H^n. GHASH then continues
// over the ciphertext and the length block from that state: GHASH(A || C || L) = Y_A * H^(m) + GHASH(C || L), where m is
// the number of blocks that follow the additional data.
func SealSparseAAD(c Cipher, nonce, plaintext []byte, first Block, aadLen uint64, tagSize int) []byte {
	if aadLen < 16 {
		panic("gcmref: SealSparseAAD needs at least one full block")
	}
	h := H(c)
	j0 := J0(h, nonce)
	ct := GCTR(c, inc32(j0), plaintext)
	s := pad16(ct)
	var l [16]byte
	binary.BigEndian.PutUint64(l[:8], aadLen*8)
	binary.BigEndian.PutUint64(l[8:], uint64(len(ct))*8)
	s = append(s, l[:]...)
	n := (aadLen + 15) / 16
	ya := Mul(first, Pow(h, n))
	g := xor(Mul(ya, Pow(h, uint64(len(s)/16))), GHash(h, s))
	t := GCTR(c, j0, g[:])
	return append(ct, t[:tagSize]...)
}

// Package refs hosts the self-validation of the reference models against the
// vectors printed in the standards. A failure here means the *harness* is
// broken; checks call SelfCheck first and abort (exit 2) rather than report a
// violation.
package refs

import (
	"bytes"
	"crypto/aes"
	"crypto/cipher"
	"crypto/elliptic"
	"encoding/hex"
	"fmt"
	"math/big"

	"verif/refs/gcmref"
	"verif/refs/sm2ref"
	"verif/refs/sm3ref"
	"verif/refs/sm4ref"
)

func unhex(s string) []byte {
	b, err := hex.DecodeString(s)
	if err != nil {
		panic(err)
	}
	return b
}

type aesBlock struct{ b cipher.Block }

func (a aesBlock) EncryptBlock(dst, src []byte) { a.b.Encrypt(dst, src) }

// SelfCheck validates every reference model. heavy additionally runs the
// 1,000,000-fold SM4 iteration of GB/T 32907 appendix A.2.
func SelfCheck(heavy bool) error {
	// --- SM3: GB/T 32905 appendix A
	if got := sm3ref.Sum([]byte("abc")); hex.EncodeToString(got[:]) != "66c7f0f462eeedd9d1f2d46bdc10e4e24167c4875cf2f7a2297da02b8f4ba8e0" {
		return fmt.Errorf("sm3ref abc: %x", got)
	}
	if got := sm3ref.Sum(bytes.Repeat([]byte("abcd"), 16)); hex.EncodeToString(got[:]) != "debe9ff92275b8a138604889c18e5a4d6fdb70e5387e5765293dcba39c0c5732" {
		return fmt.Errorf("sm3ref abcd*16: %x", got)
	}
	// --- SM4: GB/T 32907 appendix A
	k := unhex("0123456789abcdeffedcba9876543210")
	c := sm4ref.New(k)
	ct := c.Encrypt(k)
	if hex.EncodeToString(ct[:]) != "681edf34d206965e86b3e94f536e4246" {
		return fmt.Errorf("sm4ref sample: %x", ct)
	}
	if pt := c.Decrypt(ct[:]); !bytes.Equal(pt[:], k) {
		return fmt.Errorf("sm4ref decrypt: %x", pt)
	}
	if c.RK[0] != 0xf12186f9 || c.RK[31] != 0x9124a012 {
		return fmt.Errorf("sm4ref round keys: %08x %08x", c.RK[0], c.RK[31])
	}
	if heavy {
		x := append([]byte{}, k...)
		for i := 0; i < 1000000; i++ {
			o := c.Encrypt(x)
			copy(x, o[:])
		}
		if hex.EncodeToString(x) != "595298c7c6fd271f0402f804c33d3f66" {
			return fmt.Errorf("sm4ref 1e6 iterations: %x", x)
		}
	}
	// --- GCM mode logic: compare gcmref over AES with the standard library's AES-GCM
	for _, tc := range []struct{ nonceLen, ptLen, aadLen, tag int }{
		{12, 0, 0, 16}, {12, 16, 0, 16}, {12, 60, 20, 16}, {8, 60, 20, 16}, {60, 60, 20, 16}, {12, 33, 1, 12}, {1, 5, 0, 13}, {16, 64, 16, 14}, {17, 257, 129, 15}, {128, 300, 0, 16},
	} {
		key := bytes.Repeat([]byte{0x42}, 16)
		nonce := make([]byte, tc.nonceLen)
		pt := make([]byte, tc.ptLen)
		aad := make([]byte, tc.aadLen)
		for i := range nonce {
			nonce[i] = byte(i*7 + 1)
		}
		for i := range pt {
			pt[i] = byte(i*13 + 5)
		}
		for i := range aad {
			aad[i] = byte(i*3 + 9)
		}
		blk, _ := aes.NewCipher(key)
		var std cipher.AEAD
		var err error
		if tc.tag != 16 && tc.nonceLen != 12 {
			// the standard library offers either a custom nonce or a custom tag size; validate via truncation of the 16-byte tag
			std, err = cipher.NewGCMWithNonceSize(blk, tc.nonceLen)
			if err != nil {
				return err
			}
			want := std.Seal(nil, nonce, pt, aad)
			want = want[:len(want)-16+tc.tag]
			got := gcmref.Seal(aesBlock{blk}, nonce, pt, aad, tc.tag)
			if !bytes.Equal(got, want) {
				return fmt.Errorf("gcmref vs stdlib AES-GCM (truncated) %+v", tc)
			}
			continue
		} else if tc.tag != 16 {
			std, err = cipher.NewGCMWithTagSize(blk, tc.tag)
		} else {
			std, err = cipher.NewGCMWithNonceSize(blk, tc.nonceLen)
		}
		if err != nil {
			return err
		}
		want := std.Seal(nil, nonce, pt, aad)
		got := gcmref.Seal(aesBlock{blk}, nonce, pt, aad, tc.tag)
		if !bytes.Equal(got, want) {
			return fmt.Errorf("gcmref vs stdlib AES-GCM %+v:\n got %x\nwant %x", tc, got, want)
		}
		back, ok := gcmref.Open(aesBlock{blk}, nonce, got, aad, tc.tag)
		if !ok || !bytes.Equal(back, pt) {
			return fmt.Errorf("gcmref open %+v", tc)
		}
		got[len(got)-1] ^= 1
		if _, ok := gcmref.Open(aesBlock{blk}, nonce, got, aad, tc.tag); ok {
			return fmt.Errorf("gcmref open accepted a forged tag %+v", tc)
		}
	}
	// NIST GCM test case 2 (AES-128, zero key/iv/block)
	{
		blk, _ := aes.NewCipher(make([]byte, 16))
		got := gcmref.Seal(aesBlock{blk}, make([]byte, 12), make([]byte, 16), nil, 16)
		if hex.EncodeToString(got) != "0388dace60b6a392f328c2b971b2fe78ab6e47d42cec13bdf53a67b21257bddf" {
			return fmt.Errorf("gcmref NIST tc2: %x", got)
		}
	}
	// field inverse and nonce solving
	{
		blk, _ := aes.NewCipher(bytes.Repeat([]byte{7}, 16))
		h := gcmref.H(aesBlock{blk})
		if gcmref.Mul(h, gcmref.Inv(h)) != gcmref.One {
			return fmt.Errorf("gcmref Inv")
		}
		var want gcmref.Block
		for i := range want {
			want[i] = byte(0xf0 + i)
		}
		for _, n := range []int{16, 17, 32, 33, 128} {
			rest := make([]byte, n-16)
			for i := range rest {
				rest[i] = byte(i + 3)
			}
			nonce := gcmref.SolveNonce(h, want, n, rest)
			if len(nonce) != n || gcmref.J0(h, nonce) != want {
				return fmt.Errorf("gcmref SolveNonce n=%d", n)
			}
		}
	}
	// --- SM2: GM/T 0003.5 example (recommended curve), stdlib generic curve arithmetic as second opinion
	{
		if !sm2ref.OnCurve(sm2ref.Gx, sm2ref.Gy) {
			return fmt.Errorf("sm2ref: G not on curve")
		}
		if !sm2ref.Mul(sm2ref.N, sm2ref.G()).Inf {
			return fmt.Errorf("sm2ref: [n]G != O")
		}
		d := new(big.Int).SetBytes(unhex("3945208F7B2144B13F36E38AC6D39F95889393692860B51A42FB81EF4DF7C5B8"))
		px, py := sm2ref.Pub(d)
		if hex.EncodeToString(px) != "09f9df311e5421a150dd7d161e4bc5c672179fad1833fc076bb08ff356f35020" ||
			hex.EncodeToString(py) != "ccea490ce26775a52dc6ea718cc1aa600aed05fbf35e084a6632f6072da9ad13" {
			return fmt.Errorf("sm2ref pub: %x %x", px, py)
		}
		za, ok := sm2ref.ZA([]byte("1234567812345678"), px, py)
		if !ok || hex.EncodeToString(za[:]) != "b2e14c5c79c6df5b85f4fe7ed8db7a262b9da7e07ccb0ea9f4747b8ccda8a4f3" {
			return fmt.Errorf("sm2ref ZA: %x", za)
		}
		e := sm2ref.E(za[:], []byte("message digest"))
		if hex.EncodeToString(e[:]) != "f0b43e94ba45accaace692ed534382eb17e6ab5a19ce7b31f4486fdfc0d28640" {
			return fmt.Errorf("sm2ref e: %x", e)
		}
		kk := unhex("59276E27D506861A16680F3AD9C02DCCEF3CC1FA3CDBE4CE6D54B80DEAC1BC21")
		res, err := sm2ref.Sign(bytes.NewReader(kk), d, e[:])
		if err != nil {
			return err
		}
		if hex.EncodeToString(res.R) != "f5a03b0648d2c4630eeac513e1bb81a15944da3827d5b74143ac7eaceee720b3" ||
			hex.EncodeToString(res.S) != "b1b6aa29df212fd8763182bc0d421ca1bb9038fd1f7f42d4840b69c485bbc1aa" {
			return fmt.Errorf("sm2ref sign: %x %x", res.R, res.S)
		}
		if ok, why := sm2ref.Verify(px, py, e[:], res.R, res.S); !ok {
			return fmt.Errorf("sm2ref verify rejects the standard's example: %s", why)
		}
		// fast Jacobian Mul / MulAdd against the definitional affine arithmetic (heavy: run by setup and by sm2 checks' first shard)
		if !heavy {
			return nil
		}
		two := sm2ref.Add(sm2ref.G(), sm2ref.G())
		pts := []sm2ref.Point{sm2ref.G(), sm2ref.Neg(sm2ref.G()), two, sm2ref.MulAffine(d, sm2ref.G())}
		nm1 := new(big.Int).Sub(sm2ref.N, big.NewInt(1))
		scal := []*big.Int{big.NewInt(0), big.NewInt(1), big.NewInt(2), big.NewInt(3), big.NewInt(15), big.NewInt(16), nm1, sm2ref.N,
			new(big.Int).Add(sm2ref.N, big.NewInt(1)), new(big.Int).Sub(new(big.Int).Lsh(big.NewInt(1), 256), big.NewInt(1)), d,
			new(big.Int).Rsh(sm2ref.N, 1), new(big.Int).Add(new(big.Int).Rsh(sm2ref.N, 1), big.NewInt(1))}
		for _, q := range pts {
			for _, k := range scal {
				if !sm2ref.Mul(k, q).Equal(sm2ref.MulAffine(k, q)) {
					return fmt.Errorf("sm2ref.Mul != MulAffine at k=%x", k)
				}
			}
			for _, a := range scal[:8] {
				for _, b := range scal[5:] {
					want := sm2ref.Add(sm2ref.MulAffine(a, sm2ref.G()), sm2ref.MulAffine(b, q))
					if !sm2ref.MulAdd(a, b, q).Equal(want) {
						return fmt.Errorf("sm2ref.MulAdd != affine at a=%x b=%x", a, b)
					}
				}
			}
		}
		cp := &elliptic.CurveParams{P: sm2ref.P, N: sm2ref.N, B: sm2ref.B, Gx: sm2ref.Gx, Gy: sm2ref.Gy, BitSize: 256, Name: "sm2ref-check"}
		for _, ks := range []string{"01", "02", "03", "ff", "3945208F7B2144B13F36E38AC6D39F95889393692860B51A42FB81EF4DF7C5B8", "FFFFFFFEFFFFFFFFFFFFFFFFFFFFFFFF7203DF6B21C6052B53BBF40939D54122"} {
			kb := unhex(ks)
			x, y := cp.ScalarBaseMult(kb)
			p := sm2ref.BaseMul(new(big.Int).SetBytes(kb))
			if p.Inf || p.X.Cmp(x) != 0 || p.Y.Cmp(y) != 0 {
				return fmt.Errorf("sm2ref vs elliptic.CurveParams at k=%s", ks)
			}
		}
	}
	return nil
}

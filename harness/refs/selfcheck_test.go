package refs

import "testing"

func TestSelfCheck(t *testing.T) {
	if err := SelfCheck(true); err != nil {
		t.Fatal(err)
	}
}

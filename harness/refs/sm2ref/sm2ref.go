// Package sm2ref is a textbook model of the SM2 curve and of the GM/T
// 0003.2-2012 signature scheme: affine short-Weierstrass arithmetic in
// math/big (explicit case split for infinity, doubling and inverse points),
// sign / verify / ZA exactly as sections 6 and 7 of the standard describe them.
// Nothing is imported from the implementation under test; the curve parameters
// are typed from GM/T 0003.5-2012.
package sm2ref

import (
	"errors"
	"io"
	"math/big"

	"verif/refs/sm3ref"
)

func hx(s string) *big.Int {
	v, ok := new(big.Int).SetString(s, 16)
	if !ok {
		panic("bad hex")
	}
	return v
}

var (
	P  = hx("FFFFFFFEFFFFFFFFFFFFFFFFFFFFFFFFFFFFFFFF00000000FFFFFFFFFFFFFFFF")
	A  = hx("FFFFFFFEFFFFFFFFFFFFFFFFFFFFFFFFFFFFFFFF00000000FFFFFFFFFFFFFFFC")
	B  = hx("28E9FA9E9D9F5E344D5A9E4BCF6509A7F39789F515AB8F92DDBCBD414D940E93")
	N  = hx("FFFFFFFEFFFFFFFFFFFFFFFFFFFFFFFF7203DF6B21C6052B53BBF40939D54123")
	Gx = hx("32C4AE2C1F1981195F9904466A39C9948FE30BBFF2660BE1715A4589334C74C7")
	Gy = hx("BC3736A2F4F6779C59BDCEE36B692153D0A9877CC62A474002DF32E52139F0A0")
)

// Point is an affine point or the point at infinity.
type Point struct {
	X, Y *big.Int
	Inf  bool
}

func Infinity() Point { return Point{Inf: true} }
func G() Point        { return Point{X: new(big.Int).Set(Gx), Y: new(big.Int).Set(Gy)} }

func mod(x *big.Int) *big.Int { return x.Mod(x, P) }

// OnCurve reports y^2 = x^3 + ax + b (mod p) for canonical coordinates.
func OnCurve(x, y *big.Int) bool {
	if x.Sign() < 0 || y.Sign() < 0 || x.Cmp(P) >= 0 || y.Cmp(P) >= 0 {
		return false
	}
	l := new(big.Int).Mul(y, y)
	mod(l)
	r := new(big.Int).Mul(x, x)
	r.Mul(r, x)
	r.Add(r, new(big.Int).Mul(A, x))
	r.Add(r, B)
	mod(r)
	return l.Cmp(r) == 0
}

func (p Point) Equal(q Point) bool {
	if p.Inf || q.Inf {
		return p.Inf == q.Inf
	}
	return p.X.Cmp(q.X) == 0 && p.Y.Cmp(q.Y) == 0
}

func Neg(p Point) Point {
	if p.Inf {
		return p
	}
	y := new(big.Int).Neg(p.Y)
	mod(y)
	return Point{X: new(big.Int).Set(p.X), Y: y}
}

// Add is the affine group law with all special cases spelled out.
func Add(p, q Point) Point {
	if p.Inf {
		return q
	}
	if q.Inf {
		return p
	}
	var lam *big.Int
	if p.X.Cmp(q.X) == 0 {
		s := new(big.Int).Add(p.Y, q.Y)
		mod(s)
		if s.Sign() == 0 {
			return Infinity() // q = -p (includes 2-torsion, which does not exist on this curve)
		}
		// doubling: lambda = (3x^2 + a) / 2y
		num := new(big.Int).Mul(p.X, p.X)
		num.Mul(num, big.NewInt(3))
		num.Add(num, A)
		den := new(big.Int).Lsh(p.Y, 1)
		den.ModInverse(mod(den), P)
		lam = mod(num.Mul(num, den))
	} else {
		num := new(big.Int).Sub(q.Y, p.Y)
		den := new(big.Int).Sub(q.X, p.X)
		mod(den)
		den.ModInverse(den, P)
		lam = mod(num.Mul(num, den))
	}
	x3 := new(big.Int).Mul(lam, lam)
	x3.Sub(x3, p.X)
	x3.Sub(x3, q.X)
	mod(x3)
	y3 := new(big.Int).Sub(p.X, x3)
	y3.Mul(y3, lam)
	y3.Sub(y3, p.Y)
	mod(y3)
	return Point{X: x3, Y: y3}
}

// MulAffine returns [k]p for any non-negative integer k by affine
// double-and-add (not reduced mod n on purpose: the group law makes
// [k]p = [k mod n]p, and the reference does not assume it). It is the
// definitional baseline that the faster Mul is validated against.
func MulAffine(k *big.Int, p Point) Point {
	if k.Sign() < 0 {
		panic("sm2ref.Mul: negative scalar")
	}
	r := Infinity()
	for i := k.BitLen() - 1; i >= 0; i-- {
		r = Add(r, r)
		if k.Bit(i) == 1 {
			r = Add(r, p)
		}
	}
	return r
}

// jac is a Jacobian point (x = X/Z^2, y = Y/Z^3); Z = 0 is infinity.
type jac struct{ X, Y, Z *big.Int }

func jacInf() jac { return jac{big.NewInt(1), big.NewInt(1), new(big.Int)} }

func mm(a, b *big.Int) *big.Int { return mod(new(big.Int).Mul(a, b)) }

func (p jac) double() jac {
	if p.Z.Sign() == 0 || p.Y.Sign() == 0 {
		return jacInf()
	}
	y2 := mm(p.Y, p.Y)
	s := mm(p.X, y2)
	s.Lsh(s, 2)
	mod(s)
	z2 := mm(p.Z, p.Z)
	m := mm(p.X, p.X)
	m.Mul(m, big.NewInt(3))
	m.Add(m, mm(A, mm(z2, z2)))
	mod(m)
	x3 := mm(m, m)
	x3.Sub(x3, new(big.Int).Lsh(s, 1))
	mod(x3)
	y3 := new(big.Int).Sub(s, x3)
	y3 = mm(m, mod(y3))
	y4 := mm(y2, y2)
	y4.Lsh(y4, 3)
	y3.Sub(y3, y4)
	mod(y3)
	z3 := mm(p.Y, p.Z)
	z3.Lsh(z3, 1)
	mod(z3)
	return jac{x3, y3, z3}
}

// addAffine adds the affine point q (not infinity) to p.
func (p jac) addAffine(q Point) jac {
	if p.Z.Sign() == 0 {
		return jac{new(big.Int).Set(q.X), new(big.Int).Set(q.Y), big.NewInt(1)}
	}
	z2 := mm(p.Z, p.Z)
	u2 := mm(q.X, z2)
	s2 := mm(q.Y, mm(z2, p.Z))
	h := mod(new(big.Int).Sub(u2, p.X))
	r := mod(new(big.Int).Sub(s2, p.Y))
	if h.Sign() == 0 {
		if r.Sign() == 0 {
			return p.double()
		}
		return jacInf()
	}
	h2 := mm(h, h)
	h3 := mm(h2, h)
	xh2 := mm(p.X, h2)
	x3 := mm(r, r)
	x3.Sub(x3, h3)
	x3.Sub(x3, new(big.Int).Lsh(xh2, 1))
	mod(x3)
	y3 := mod(new(big.Int).Sub(xh2, x3))
	y3 = mm(r, y3)
	y3.Sub(y3, mm(p.Y, h3))
	mod(y3)
	return jac{x3, y3, mm(p.Z, h)}
}

func (p jac) affine() Point {
	if p.Z.Sign() == 0 {
		return Infinity()
	}
	zi := new(big.Int).ModInverse(p.Z, P)
	zi2 := mm(zi, zi)
	return Point{X: mm(p.X, zi2), Y: mm(p.Y, mm(zi2, zi))}
}

// Mul returns [k]p for any non-negative k: Jacobian double-and-add with
// explicit handling of infinity, doubling and inverse points. Validated
// against MulAffine by refs.SelfCheck.
func Mul(k *big.Int, p Point) Point {
	if k.Sign() < 0 {
		panic("sm2ref.Mul: negative scalar")
	}
	if p.Inf {
		return p
	}
	r := jacInf()
	for i := k.BitLen() - 1; i >= 0; i-- {
		r = r.double()
		if k.Bit(i) == 1 {
			r = r.addAffine(p)
		}
	}
	return r.affine()
}

// MulAdd returns [a]G + [b]q (Shamir's trick).
func MulAdd(a, b *big.Int, q Point) Point {
	if q.Inf {
		return Mul(a, G())
	}
	g := G()
	gq := Add(g, q)
	r := jacInf()
	n := a.BitLen()
	if b.BitLen() > n {
		n = b.BitLen()
	}
	for i := n - 1; i >= 0; i-- {
		r = r.double()
		switch {
		case a.Bit(i) == 1 && b.Bit(i) == 1:
			if !gq.Inf {
				r = r.addAffine(gq)
			}
		case a.Bit(i) == 1:
			r = r.addAffine(g)
		case b.Bit(i) == 1:
			r = r.addAffine(q)
		}
	}
	return r.affine()
}

// BaseMul returns [k]G.
func BaseMul(k *big.Int) Point { return Mul(k, G()) }

// Bytes32 left-pads v to 32 bytes.
func Bytes32(v *big.Int) []byte {
	out := make([]byte, 32)
	v.FillBytes(out)
	return out
}

var one = big.NewInt(1)

// ValidKey reports 1 <= d <= n-2.
func ValidKey(d *big.Int) bool {
	return d.Sign() > 0 && d.Cmp(new(big.Int).Sub(N, big.NewInt(2))) <= 0
}

type SignResult struct {
	R, S     []byte
	K        *big.Int
	Rejected []string // reason per rejected candidate
	Consumed int
}

// Sign is GM/T 0003.2 section 6.1 with the digest e given: draw 32-byte
// candidates from rand; a candidate is skipped exactly when k is outside
// [1,n-1], r = 0, r+k = n or s = 0.
func Sign(rand io.Reader, d *big.Int, e []byte) (*SignResult, error) {
	if !ValidKey(d) {
		return nil, errors.New("sm2ref: private key not in [1,n-2]")
	}
	res := &SignResult{}
	eInt := new(big.Int).SetBytes(e)
	for {
		var kb [32]byte
		n, err := io.ReadFull(rand, kb[:])
		res.Consumed += n
		if err != nil {
			return nil, err
		}
		k := new(big.Int).SetBytes(kb[:])
		if k.Sign() == 0 || k.Cmp(N) >= 0 {
			res.Rejected = append(res.Rejected, "k-range")
			continue
		}
		kg := BaseMul(k)
		r := new(big.Int).Add(eInt, kg.X)
		r.Mod(r, N)
		if r.Sign() == 0 {
			res.Rejected = append(res.Rejected, "r=0")
			continue
		}
		if new(big.Int).Add(r, k).Cmp(N) == 0 {
			res.Rejected = append(res.Rejected, "r+k=n")
			continue
		}
		// s = (1+d)^-1 (k - r d) mod n
		d1 := new(big.Int).Add(d, one)
		d1.ModInverse(d1, N)
		s := new(big.Int).Mul(r, d)
		s.Sub(k, s)
		s.Mul(s, d1)
		s.Mod(s, N)
		if s.Sign() == 0 {
			res.Rejected = append(res.Rejected, "s=0")
			continue
		}
		res.R, res.S, res.K = Bytes32(r), Bytes32(s), k
		return res, nil
	}
}

// Verify is GM/T 0003.2 section 7.1 on raw byte strings; reason names the
// first failing condition.
func Verify(px, py, e, r, s []byte) (ok bool, reason string) {
	if len(px) != 32 || len(py) != 32 || len(e) != 32 || len(r) != 32 || len(s) != 32 {
		return false, "length"
	}
	ri, si := new(big.Int).SetBytes(r), new(big.Int).SetBytes(s)
	if ri.Sign() == 0 || ri.Cmp(N) >= 0 {
		return false, "r-range"
	}
	if si.Sign() == 0 || si.Cmp(N) >= 0 {
		return false, "s-range"
	}
	t := new(big.Int).Add(ri, si)
	t.Mod(t, N)
	if t.Sign() == 0 {
		return false, "t=0"
	}
	x, y := new(big.Int).SetBytes(px), new(big.Int).SetBytes(py)
	if x.Cmp(P) >= 0 || y.Cmp(P) >= 0 {
		return false, "key-noncanonical"
	}
	if !OnCurve(x, y) {
		return false, "key-offcurve"
	}
	pt := MulAdd(si, t, Point{X: x, Y: y})
	if pt.Inf {
		return false, "infinity"
	}
	R := new(big.Int).Add(new(big.Int).SetBytes(e), pt.X)
	R.Mod(R, N)
	if R.Cmp(ri) != 0 {
		return false, "equation"
	}
	return true, ""
}

// ZA = SM3(ENTL || id || a || b || Gx || Gy || xA || yA); ok is false when
// the id is too long for the 16-bit ENTL field (8192 bytes or more).
func ZA(id, px, py []byte) (za [32]byte, ok bool) {
	if len(id) >= 8192 {
		return za, false
	}
	entl := len(id) * 8
	m := []byte{byte(entl >> 8), byte(entl)}
	m = append(m, id...)
	m = append(m, Bytes32(A)...)
	m = append(m, Bytes32(B)...)
	m = append(m, Bytes32(Gx)...)
	m = append(m, Bytes32(Gy)...)
	m = append(m, px...)
	m = append(m, py...)
	return sm3ref.Sum(m), true
}

// E = SM3(ZA || M).
func E(za, msg []byte) [32]byte {
	m := append(append([]byte{}, za...), msg...)
	return sm3ref.Sum(m)
}

// Pub returns the 32-byte affine coordinates of [d]G.
func Pub(d *big.Int) (x, y []byte) {
	p := BaseMul(d)
	if p.Inf {
		panic("sm2ref.Pub: d = 0 mod n")
	}
	return Bytes32(p.X), Bytes32(p.Y)
}

// SmallXPoints returns the first n curve points whose x coordinate is a small integer (x = 0, 1, 2, ...): y is the
// square root of x^3+ax+b computed as rhs^((p+1)/4) (p = 3 mod 4). Such points have x < 2^256-p, so x+p still fits
// in 32 bytes: they are the witnesses for non-canonical coordinate encodings.
func SmallXPoints(n int) []Point {
	var out []Point
	exp := new(big.Int).Add(P, big.NewInt(1))
	exp.Rsh(exp, 2)
	for x := int64(0); len(out) < n && x < 10000; x++ {
		X := big.NewInt(x)
		rhs := new(big.Int).Mul(X, X)
		rhs.Mul(rhs, X)
		rhs.Add(rhs, new(big.Int).Mul(A, X))
		rhs.Add(rhs, B)
		rhs.Mod(rhs, P)
		y := new(big.Int).Exp(rhs, exp, P)
		if new(big.Int).Exp(y, big.NewInt(2), P).Cmp(rhs) == 0 && OnCurve(X, y) {
			out = append(out, Point{X: X, Y: y})
		}
	}
	return out
}

// NearCurvePoints returns off-curve pairs (x, y) for the on-curve point q whose y^2 differs from x^3+ax+b only in a
// structured set of bits of the value *or of its Montgomery representation* (value * 2^256 mod p): single bits, the high
// or low half of each 64-bit limb, a single limb. A curve check that compares truncated or folded limbs accepts some of
// them; a correct check rejects all. Patterns whose target is not a quadratic residue are skipped.
func NearCurvePoints(q Point) (xs, ys []*big.Int, names []string) {
	rhs := new(big.Int).Mul(q.Y, q.Y)
	rhs.Mod(rhs, P)
	R := new(big.Int).Lsh(big.NewInt(1), 256)
	Rinv := new(big.Int).ModInverse(R, P)
	exp := new(big.Int).Add(P, big.NewInt(1))
	exp.Rsh(exp, 2)
	var masks []*big.Int
	var mnames []string
	for i := 0; i < 256; i += 3 {
		masks = append(masks, new(big.Int).Lsh(big.NewInt(1), uint(i)))
		mnames = append(mnames, "bit"+itoa(i))
	}
	for limb := 0; limb < 4; limb++ {
		hi := new(big.Int).Lsh(new(big.Int).SetUint64(0xffffffff00000000), uint(64*limb))
		lo := new(big.Int).Lsh(new(big.Int).SetUint64(0x00000000ffffffff), uint(64*limb))
		one := new(big.Int).Lsh(new(big.Int).SetUint64(0x0000000100000000), uint(64*limb))
		top := new(big.Int).Lsh(new(big.Int).SetUint64(0x8000000000000000), uint(64*limb))
		masks = append(masks, hi, lo, one, top)
		mnames = append(mnames, "limb"+itoa(limb)+"hi", "limb"+itoa(limb)+"lo", "limb"+itoa(limb)+"bit32", "limb"+itoa(limb)+"bit63")
	}
	allhi := new(big.Int)
	for limb := 0; limb < 4; limb++ {
		allhi.Or(allhi, new(big.Int).Lsh(new(big.Int).SetUint64(0xabcdef1200000000), uint(64*limb)))
	}
	masks = append(masks, allhi)
	mnames = append(mnames, "allhi")
	for mi, m := range masks {
		for _, mont := range []bool{false, true} {
			t := new(big.Int).Set(rhs)
			if mont {
				t.Mul(t, R).Mod(t, P)
			}
			t.Xor(t, m)
			if t.Cmp(P) >= 0 {
				continue
			}
			if mont {
				t.Mul(t, Rinv).Mod(t, P)
			}
			y := new(big.Int).Exp(t, exp, P)
			if new(big.Int).Exp(y, big.NewInt(2), P).Cmp(t) != 0 || OnCurve(q.X, y) {
				continue
			}
			xs = append(xs, new(big.Int).Set(q.X))
			ys = append(ys, y)
			n := mnames[mi]
			if mont {
				n += ":mont"
			}
			names = append(names, n)
		}
	}
	return
}

func itoa(i int) string { return big.NewInt(int64(i)).String() }

// SpecialXPoints returns curve points whose affine x is special for the verification equation r = (e + x1) mod n:
// x in {0, 1, 2, ...} (first few that are on the curve), x = n + j (x1 mod n wraps to a small value) and x = p - j.
func SpecialXPoints() (pts []Point, names []string) {
	exp := new(big.Int).Add(P, big.NewInt(1))
	exp.Rsh(exp, 2)
	try := func(X *big.Int, name string) bool {
		if X.Sign() < 0 || X.Cmp(P) >= 0 {
			return false
		}
		rhs := new(big.Int).Mul(X, X)
		rhs.Mul(rhs, X)
		rhs.Add(rhs, new(big.Int).Mul(A, X))
		rhs.Add(rhs, B)
		rhs.Mod(rhs, P)
		y := new(big.Int).Exp(rhs, exp, P)
		if new(big.Int).Exp(y, big.NewInt(2), P).Cmp(rhs) != 0 || !OnCurve(X, y) {
			return false
		}
		pts = append(pts, Point{X: new(big.Int).Set(X), Y: y}, Point{X: new(big.Int).Set(X), Y: new(big.Int).Sub(P, y)})
		names = append(names, name+":+y", name+":-y")
		return true
	}
	for _, base := range []struct {
		v    *big.Int
		name string
		dir  int64
	}{{big.NewInt(0), "x=0+", 1}, {N, "x=n+", 1}, {new(big.Int).Sub(N, big.NewInt(1)), "x=n-1-", -1}, {new(big.Int).Sub(P, big.NewInt(1)), "x=p-1-", -1}, {new(big.Int).Lsh(big.NewInt(1), 255), "x=2^255+", 1}} {
		found := 0
		for j := int64(0); j < 200 && found < 2; j++ {
			X := new(big.Int).Add(base.v, big.NewInt(j*base.dir))
			if try(X, base.name+itoa(int(j))) {
				found++
			}
		}
	}
	return
}

// WordBoundaryXPoints returns curve points (both signs of y) whose affine x lies right at the places where a word-wise
// range check or conversion changes behaviour: p - 2^(64i) +- j and 2^(64i) +- j for i = 0..3 (the two nearest x on
// either side that are on the curve), and x whose low 32 / 64 bits are all ones. All are canonical (x < p).
func WordBoundaryXPoints() (pts []Point, names []string) {
	exp := new(big.Int).Add(P, big.NewInt(1))
	exp.Rsh(exp, 2)
	try := func(X *big.Int, name string) bool {
		if X.Sign() < 0 || X.Cmp(P) >= 0 {
			return false
		}
		rhs := new(big.Int).Mul(X, X)
		rhs.Mul(rhs, X)
		rhs.Add(rhs, new(big.Int).Mul(A, X))
		rhs.Add(rhs, B)
		rhs.Mod(rhs, P)
		y := new(big.Int).Exp(rhs, exp, P)
		if new(big.Int).Exp(y, big.NewInt(2), P).Cmp(rhs) != 0 || !OnCurve(X, y) {
			return false
		}
		pts = append(pts, Point{X: new(big.Int).Set(X), Y: y}, Point{X: new(big.Int).Set(X), Y: new(big.Int).Sub(P, y)})
		names = append(names, name+":+y", name+":-y")
		return true
	}
	near := func(base *big.Int, name string, step *big.Int) {
		for _, dir := range []int64{1, -1} {
			found := 0
			for j := int64(0); j < 400 && found < 2; j++ {
				if j == 0 && dir == -1 {
					continue
				}
				X := new(big.Int).Add(base, new(big.Int).Mul(step, big.NewInt(j*dir)))
				if try(X, name+map[int64]string{1: "+", -1: "-"}[dir]+itoa(int(j))) {
					found++
				}
			}
		}
	}
	one := big.NewInt(1)
	for i := uint(0); i < 4; i++ {
		w := new(big.Int).Lsh(one, 64*i)
		near(new(big.Int).Sub(P, w), "x=p-2^"+itoa(int(64*i)), one)
		if i > 0 {
			near(w, "x=2^"+itoa(int(64*i)), one)
		}
	}
	// low 32 / 64 bits all ones: step by 2^32 resp. 2^64 from a fixed middle value
	mid, _ := new(big.Int).SetString("6b17d1f2e12c4247f8bce6e563a440f277037d812deb33a0f4a13945d898c296", 16)
	for _, bitsN := range []uint{32, 64} {
		m := new(big.Int).Lsh(one, bitsN)
		base := new(big.Int).Or(mid, new(big.Int).Sub(m, one))
		near(base, "x-low"+itoa(int(bitsN))+"-ones", m)
	}
	return
}

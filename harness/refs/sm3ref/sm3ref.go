// Package sm3ref is a deliberately plain transcription of GB/T 32905-2016
// (SM3). It hashes a complete byte string in one go: pad, split into blocks,
// expand each block to W[0..67] and W'[0..63], run 64 rounds. No buffering,
// no streaming state, nothing shared with the implementation under test.
package sm3ref

import "encoding/binary"

var iv = [8]uint32{0x7380166f, 0x4914b2b9, 0x172442d7, 0xda8a0600, 0xa96f30bc, 0x163138aa, 0xe38dee4d, 0xb0fb0e4e}

func rotl(x uint32, n uint) uint32 { n %= 32; return x<<n | x>>(32-n) }

func tj(j int) uint32 {
	if j <= 15 {
		return 0x79cc4519
	}
	return 0x7a879d8a
}
func ff(j int, x, y, z uint32) uint32 {
	if j <= 15 {
		return x ^ y ^ z
	}
	return (x & y) | (x & z) | (y & z)
}
func gg(j int, x, y, z uint32) uint32 {
	if j <= 15 {
		return x ^ y ^ z
	}
	return (x & y) | (^x & z)
}
func p0(x uint32) uint32 { return x ^ rotl(x, 9) ^ rotl(x, 17) }
func p1(x uint32) uint32 { return x ^ rotl(x, 15) ^ rotl(x, 23) }

// Pad returns m || 1 || 0^k || len64 with k minimal such that the total is a
// multiple of 512 bits (GB/T 32905 section 5.2).
func Pad(m []byte) []byte {
	l := uint64(len(m)) * 8
	out := append([]byte{}, m...)
	out = append(out, 0x80)
	for len(out)%64 != 56 {
		out = append(out, 0)
	}
	var lb [8]byte
	binary.BigEndian.PutUint64(lb[:], l)
	return append(out, lb[:]...)
}

// CF is the compression function on one 64-byte block.
func CF(v [8]uint32, b []byte) [8]uint32 {
	var w [68]uint32
	var w1 [64]uint32
	for i := 0; i < 16; i++ {
		w[i] = binary.BigEndian.Uint32(b[4*i:])
	}
	for j := 16; j <= 67; j++ {
		w[j] = p1(w[j-16]^w[j-9]^rotl(w[j-3], 15)) ^ rotl(w[j-13], 7) ^ w[j-6]
	}
	for j := 0; j <= 63; j++ {
		w1[j] = w[j] ^ w[j+4]
	}
	a, bb, c, d, e, f, g, h := v[0], v[1], v[2], v[3], v[4], v[5], v[6], v[7]
	for j := 0; j <= 63; j++ {
		ss1 := rotl(rotl(a, 12)+e+rotl(tj(j), uint(j%32)), 7)
		ss2 := ss1 ^ rotl(a, 12)
		tt1 := ff(j, a, bb, c) + d + ss2 + w1[j]
		tt2 := gg(j, e, f, g) + h + ss1 + w[j]
		d = c
		c = rotl(bb, 9)
		bb = a
		a = tt1
		h = g
		g = rotl(f, 19)
		f = e
		e = p0(tt2)
	}
	return [8]uint32{v[0] ^ a, v[1] ^ bb, v[2] ^ c, v[3] ^ d, v[4] ^ e, v[5] ^ f, v[6] ^ g, v[7] ^ h}
}

// Sum returns the SM3 digest of m.
func Sum(m []byte) [32]byte {
	p := Pad(m)
	v := iv
	for i := 0; i < len(p); i += 64 {
		v = CF(v, p[i:i+64])
	}
	var out [32]byte
	for i := 0; i < 8; i++ {
		binary.BigEndian.PutUint32(out[4*i:], v[i])
	}
	return out
}

// T returns the round constant T_j <<< (j mod 32), the quantity a precomputed table must hold.
func T(j int) uint32 { return rotl(tj(j), uint(j%32)) }

// Stream is the incremental form of Sum for messages too long to hold twice in memory: Write absorbs bytes, Sum pads
// a copy of the state (GB/T 32905 section 5.2, 64-bit bit length) and leaves the stream unchanged.
type Stream struct {
	v   [8]uint32
	n   uint64 // bytes absorbed
	buf []byte // < 64 pending bytes
}

func NewStream() *Stream { return &Stream{v: iv} }

func (s *Stream) Write(p []byte) {
	s.n += uint64(len(p))
	if len(s.buf) > 0 {
		k := 64 - len(s.buf)
		if k > len(p) {
			k = len(p)
		}
		s.buf = append(s.buf, p[:k]...)
		p = p[k:]
		if len(s.buf) == 64 {
			s.v = CF(s.v, s.buf)
			s.buf = s.buf[:0]
		}
	}
	for len(p) >= 64 {
		s.v = CF(s.v, p[:64])
		p = p[64:]
	}
	s.buf = append(s.buf, p...)
}

func (s *Stream) Sum() [32]byte {
	tail := append([]byte{}, s.buf...)
	tail = append(tail, 0x80)
	for len(tail)%64 != 56 {
		tail = append(tail, 0)
	}
	var lb [8]byte
	binary.BigEndian.PutUint64(lb[:], s.n*8)
	tail = append(tail, lb[:]...)
	v := s.v
	for i := 0; i < len(tail); i += 64 {
		v = CF(v, tail[i:i+64])
	}
	var out [32]byte
	for i := 0; i < 8; i++ {
		binary.BigEndian.PutUint32(out[4*i:], v[i])
	}
	return out
}

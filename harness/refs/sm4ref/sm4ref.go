// Package sm4ref is a plain transcription of GB/T 32907-2016 (SM4): the S-box
// is computed algebraically, S(x) = A*(A*x + c)^-1 + c over
// GF(2^8)/(x^8+x^7+x^6+x^5+x^4+x^2+1) with A the circulant matrix whose row i is
// rotl(0xA7, i) and c = 0xD3; the round function uses explicit rotations; no
// lookup tables are shared with (or copied from) the implementation under test.
package sm4ref

import "encoding/binary"

const poly = 0x1F5

func gmul(a, b int) int {
	r := 0
	for b != 0 {
		if b&1 != 0 {
			r ^= a
		}
		a <<= 1
		if a&0x100 != 0 {
			a ^= poly
		}
		b >>= 1
	}
	return r
}

func ginv(a int) int {
	if a == 0 {
		return 0
	}
	// a^254
	r := 1
	for i := 0; i < 254; i++ {
		r = gmul(r, a)
	}
	return r
}

func rotl8(x byte, k uint) byte { k %= 8; return x<<k | x>>(8-k) }

func parity(x byte) byte {
	x ^= x >> 4
	x ^= x >> 2
	x ^= x >> 1
	return x & 1
}

func affine(x byte) byte {
	var y byte
	for i := uint(0); i < 8; i++ {
		y |= parity(rotl8(0xA7, i)&x) << i
	}
	return y ^ 0xD3
}

var sbox [256]byte

func init() {
	for x := 0; x < 256; x++ {
		sbox[x] = affine(byte(ginv(int(affine(byte(x))))))
	}
}

// Sbox returns the algebraic S-box value.
func Sbox(x byte) byte { return sbox[x] }

func rotl(x uint32, n uint) uint32 { return x<<n | x>>(32-n) }

func tau(a uint32) uint32 {
	return uint32(sbox[a>>24])<<24 | uint32(sbox[a>>16&0xff])<<16 | uint32(sbox[a>>8&0xff])<<8 | uint32(sbox[a&0xff])
}

// L is the linear transform of the round function.
func L(b uint32) uint32 { return b ^ rotl(b, 2) ^ rotl(b, 10) ^ rotl(b, 18) ^ rotl(b, 24) }

// LPrime is the linear transform of the key schedule.
func LPrime(b uint32) uint32 { return b ^ rotl(b, 13) ^ rotl(b, 23) }

var FK = [4]uint32{0xa3b1bac6, 0x56aa3350, 0x677d9197, 0xb27022dc}

// CK returns the i-th key-schedule constant: bytes (4i+j)*7 mod 256.
func CK(i int) uint32 {
	var v uint32
	for j := 0; j < 4; j++ {
		v = v<<8 | uint32((4*i+j)*7%256)
	}
	return v
}

// Expand returns the 32 round keys.
func Expand(key []byte) [32]uint32 {
	var k [36]uint32
	for i := 0; i < 4; i++ {
		k[i] = binary.BigEndian.Uint32(key[4*i:]) ^ FK[i]
	}
	var rk [32]uint32
	for i := 0; i < 32; i++ {
		k[i+4] = k[i] ^ LPrime(tau(k[i+1]^k[i+2]^k[i+3]^CK(i)))
		rk[i] = k[i+4]
	}
	return rk
}

func crypt(rk [32]uint32, in []byte, dec bool) [16]byte {
	var x [36]uint32
	for i := 0; i < 4; i++ {
		x[i] = binary.BigEndian.Uint32(in[4*i:])
	}
	for i := 0; i < 32; i++ {
		k := rk[i]
		if dec {
			k = rk[31-i]
		}
		x[i+4] = x[i] ^ L(tau(x[i+1]^x[i+2]^x[i+3]^k))
	}
	var out [16]byte
	for i := 0; i < 4; i++ {
		binary.BigEndian.PutUint32(out[4*i:], x[35-i])
	}
	return out
}

// Cipher is an expanded key.
type Cipher struct{ RK [32]uint32 }

func New(key []byte) *Cipher {
	if len(key) != 16 {
		panic("sm4ref: key must be 16 bytes")
	}
	return &Cipher{RK: Expand(key)}
}
func (c *Cipher) Encrypt(in []byte) [16]byte { return crypt(c.RK, in, false) }
func (c *Cipher) Decrypt(in []byte) [16]byte { return crypt(c.RK, in, true) }

// BlockFunc adapts Encrypt to the gcmref block interface.
func (c *Cipher) EncryptBlock(dst, src []byte) {
	o := crypt(c.RK, src, false)
	copy(dst, o[:])
}

// SolveKey returns a 16-byte key whose round keys rk[i], rk[i+1], .. take the given values (1 to 4 consecutive words;
// i+len(vals) <= 32): the key schedule K[j+4] = K[j] ^ T'(K[j+1]^K[j+2]^K[j+3]^CK[j]) is a bijection on the sliding
// window of four words, so a window is chosen freely (the unspecified words come from fill) and the recurrence is run
// backwards to K[0..3] = MK ^ FK.
func SolveKey(i int, vals []uint32, fill [4]uint32) []byte {
	if len(vals) < 1 || len(vals) > 4 || i < 0 || i+len(vals) > 32 {
		panic("sm4ref: SolveKey arguments")
	}
	// window K[w..w+3] with w = i+len(vals)-4+4-... : take the window that ends at rk[i+len(vals)-1] = K[i+len(vals)+3]
	end := i + len(vals) + 3 // index into K of the last specified word
	var K [36]uint32
	w := end - 3 // window start (>= 1 because i >= 0 and len(vals) >= 1 give end >= 4)
	for j := 0; j < 4; j++ {
		K[w+j] = fill[j]
	}
	for j, v := range vals {
		K[i+4+j] = v
	}
	for j := w - 1; j >= 0; j-- {
		K[j] = K[j+4] ^ LPrime(tau(K[j+1]^K[j+2]^K[j+3]^CK(j)))
	}
	key := make([]byte, 16)
	for j := 0; j < 4; j++ {
		binary.BigEndian.PutUint32(key[4*j:], K[j]^FK[j])
	}
	rk := Expand(key)
	for j, v := range vals {
		if rk[i+j] != v {
			panic("sm4ref: SolveKey failed")
		}
	}
	return key
}

// SpecialScheduleKeys returns keys *solved* so that chosen round keys are 0 or 0xffffffff: every single position (all 32
// in the thorough set, both values), and the windows rk[0..3], rk[28..31], rk[1..2], rk[14..17] all zero / all ones.
// Code that treats a round-key word as a flag, sentinel or loop bound behaves differently exactly on such keys.
func SpecialScheduleKeys(thorough bool) (keys [][]byte, names []string) {
	fill := [4]uint32{0x9e3779b9, 0x7f4a7c15, 0xf39cc060, 0x5cedc834}
	for i := 0; i < 32; i++ {
		keys = append(keys, SolveKey(i, []uint32{0}, fill))
		names = append(names, "rk"+itoa(i)+"=0")
		if thorough || i == 0 || i == 31 {
			keys = append(keys, SolveKey(i, []uint32{0xffffffff}, fill))
			names = append(names, "rk"+itoa(i)+"=ff")
		}
	}
	for _, w := range []struct{ i, n int }{{0, 4}, {28, 4}, {1, 2}, {14, 4}} {
		for _, v := range []uint32{0, 0xffffffff} {
			vals := make([]uint32, w.n)
			for j := range vals {
				vals[j] = v
			}
			keys = append(keys, SolveKey(w.i, vals, fill))
			n := "0"
			if v != 0 {
				n = "ff"
			}
			names = append(names, "rk"+itoa(w.i)+".."+itoa(w.i+w.n-1)+"="+n)
		}
	}
	return
}

func itoa(i int) string {
	if i == 0 {
		return "0"
	}
	s := ""
	for ; i > 0; i /= 10 {
		s = string(rune('0'+i%10)) + s
	}
	return s
}

package sched

import (
	"fmt"
	"regexp"
	"sort"
	"strings"
	"sync"
)

// Op is one library call of a harness thread; Run returns a canonical rendering of everything the call returned.
type Op struct {
	Name string
	Run  func() string
}

// Scenario builds a fresh, deterministic instance: the operations of each thread. It registers the buffers and
// objects the threads share on e (nil when the instance is built for a solo or free-running run).
type Scenario struct {
	Name  string
	Build func(e *Exec) [][]Op
}

type Finding struct {
	Key      string
	What     string
	Schedule []int
}

type Report struct {
	Scenario string
	Stats    *Stats
	Findings []Finding
	Replayed int
	Threads  int
	Ops      int
}

// Solo computes what every op returns when it is the only call made on a fresh instance.
func (s *Scenario) Solo() [][]string {
	Baseline()
	shape := s.Build(nil)
	out := make([][]string, len(shape))
	for i := range shape {
		out[i] = make([]string, len(shape[i]))
		for j := range shape[i] {
			RestoreGlobals()
			inst := s.Build(nil)
			out[i][j] = safeRun(inst[i][j])
		}
	}
	return out
}

func safeRun(op Op) (res string) {
	defer func() {
		if r := recover(); r != nil {
			res = fmt.Sprintf("PANIC: %v", r)
		}
	}()
	return op.Run()
}

// Explore runs the scenario under the controlled scheduler for all schedules with at most bound preemptions.
func (s *Scenario) Explore(bound, maxSchedules int) *Report {
	Baseline()
	solo := s.Solo()
	rep := &Report{Scenario: s.Name, Threads: len(solo)}
	for _, t := range solo {
		rep.Ops += len(t)
	}
	found := map[string]bool{}
	var results [][]string
	setup := func(e *Exec) []func() {
		inst := s.Build(e)
		results = make([][]string, len(inst))
		fns := make([]func(), len(inst))
		for i := range inst {
			i := i
			results[i] = make([]string, len(inst[i]))
			fns[i] = func() {
				for j, op := range inst[i] {
					Point(fmt.Sprintf("T%d:%s", i, op.Name))
					results[i][j] = safeRun(op)
				}
			}
		}
		return fns
	}
	add := func(e *Exec, key, what string) {
		if found[key] {
			return
		}
		found[key] = true
		rep.Findings = append(rep.Findings, Finding{Key: key, What: what, Schedule: e.Choices()})
	}
	check := func(e *Exec) string {
		var flags []string
		for i := range solo {
			for j := range solo[i] {
				if results[i][j] != solo[i][j] {
					add(e, "result-differs", fmt.Sprintf("thread %d op %d returned %.200s under this schedule but %.200s when run alone", i, j, results[i][j], solo[i][j]))
					flags = append(flags, "result")
				}
			}
		}
		for _, r := range e.Races {
			obj := r.Obj
			if k := strings.Index(obj, "@"); k >= 0 {
				obj = obj[:k]
			}
			if e.AtomicGlobals[obj] {
				// the variable contains words the program uses as synchronisation objects (claim flags of a ring of slots,
				// counters): the monitor sees a package-level variable as ONE object, and taking the address of a slot before
				// claiming it counts as a read of all of it. At that granularity a claim protocol cannot be judged; the
				// word-granular race detector pass and the result oracles cover it
				continue
			}
			add(e, "race:"+obj, "data race (happens-before monitor): "+r.String())
			flags = append(flags, "race")
		}
		for _, w := range e.ROChanged() {
			name := w
			if k := strings.Index(name, " "); k >= 0 {
				name = name[:k]
			}
			add(e, "shared-input-written:"+name, "a buffer or object that the threads share read-only was modified: "+w)
			flags = append(flags, "rowrite")
		}
		for _, g := range e.GlobalsChanged {
			modelled := e.AtomicGlobals[g]
			for _, a := range e.objs[g] {
				if a.write {
					modelled = true
				}
			}
			if !modelled {
				add(e, "global-written:"+g, "package-level variable "+g+" changed during the calls without any access the model can order (unsynchronised write to package-level state)")
				flags = append(flags, "global")
			}
		}
		if p := e.Panics(); len(p) > 0 {
			add(e, "panic", strings.Join(p, "; "))
		}
		if e.Deadlock {
			add(e, "deadlock", "no thread enabled although some have not finished")
		}
		sort.Strings(flags)
		var b strings.Builder
		for i := range results {
			fmt.Fprintf(&b, "%v|", results[i])
		}
		return fmt.Sprintf("%x/%v", fnvs(b.String()), flags)
	}
	rep.Stats = Explore(bound, maxSchedules, setup, check)
	// determinism: the default schedule and every violating schedule are replayed twice and must repeat themselves
	replay := [][]int{nil}
	for _, f := range rep.Findings {
		replay = append(replay, f.Schedule)
	}
	for _, sch := range replay {
		var obs [2]string
		for k := 0; k < 2; k++ {
			e := Replay(sch, setup)
			if e.Diverged != "" {
				panic("sched: divergence while replaying a recorded schedule: " + e.Diverged)
			}
			var b strings.Builder
			for _, p := range e.Points {
				fmt.Fprintf(&b, "%v%d%s;", p.Enabled, p.Chosen, p.Loc)
			}
			fmt.Fprintf(&b, "%v", results)
			obs[k] = canonAddrs(b.String())
		}
		if obs[0] != obs[1] {
			d := 0
			for d < len(obs[0]) && d < len(obs[1]) && obs[0][d] == obs[1][d] {
				d++
			}
			lo, hi0, hi1 := d-200, d+200, d+200
			if lo < 0 {
				lo = 0
			}
			if hi0 > len(obs[0]) {
				hi0 = len(obs[0])
			}
			if hi1 > len(obs[1]) {
				hi1 = len(obs[1])
			}
			panic("sched: the same schedule produced different observations (uncontrolled nondeterminism in scenario " + s.Name + "): first difference at " + fmt.Sprint(d) + ": ..." + obs[0][lo:hi0] + "... versus ..." + obs[1][lo:hi1] + "...")
		}
		rep.Replayed++
	}
	return rep
}

func fnvs(s string) uint64 {
	var h uint64 = 14695981039346656037
	for i := 0; i < len(s); i++ {
		h ^= uint64(s[i])
		h *= 1099511628211
	}
	return h
}

// FreeRun executes the scenario with real goroutines (no scheduler) iters times; used under `go test -race`.
// It returns result mismatches against the solo results.
func (s *Scenario) FreeRun(iters int) []string {
	solo := s.Solo()
	var bad []string
	var mu sync.Mutex
	for it := 0; it < iters; it++ {
		inst := s.Build(nil)
		var wg sync.WaitGroup
		for i := range inst {
			i := i
			wg.Add(1)
			go func() {
				defer wg.Done()
				for j, op := range inst[i] {
					if r := safeRun(op); r != solo[i][j] {
						mu.Lock()
						if len(bad) < 5 {
							bad = append(bad, fmt.Sprintf("iteration %d thread %d op %d: %.120s vs solo %.120s", it, i, j, r, solo[i][j]))
						}
						mu.Unlock()
					}
				}
			}()
		}
		wg.Wait()
	}
	return bad
}

var addrRe = regexp.MustCompile(`0x[0-9a-f]{6,}`)

// canonAddrs renames heap addresses in an observation string by order of first appearance: an object reached through
// a pointer-typed package variable is re-allocated whenever the variable is restored to its baseline, and its address
// is not an observation.
func canonAddrs(s string) string {
	names := map[string]string{}
	return addrRe.ReplaceAllStringFunc(s, func(a string) string {
		n, ok := names[a]
		if !ok {
			n = fmt.Sprintf("@%d", len(names))
			names[a] = n
		}
		return n
	})
}

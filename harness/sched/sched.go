// Package sched is a cooperative controlled scheduler with a stateless,
// preemption-bounded depth-first explorer, a vector-clock happens-before race
// monitor and a write-footprint monitor for memory regions shared between
// harness threads.
//
// Harness threads are goroutines, but only one of them runs at any time: a
// thread runs until it reaches a scheduling point (an instrumented access to
// mutable shared state, a call of an assembly routine, a shimmed
// synchronisation operation, the start of one of its operations), where it
// hands control back to the explorer, which picks the thread to run next.
// Every execution is therefore a function of the sequence of choices, which the
// explorer enumerates exhaustively up to a bound on the number of preemptions.
package sched

import (
	"fmt"
	"hash/fnv"
	"reflect"
	"sort"
	"strings"
	"time"
	"unsafe"
)

// ---------------------------------------------------------------- threads

type thread struct {
	id      int
	resume  chan struct{}
	fn      func()
	done    bool
	waiting func() bool // non-nil: blocked until it returns true
	vc      []int
	panicV  interface{}
}

type event struct {
	t    *thread
	done bool
}

// Point records one scheduling decision.
type PointRec struct {
	Enabled        []int  // thread ids in canonical order (running thread first when still enabled)
	Chosen         int    // index into Enabled
	Loc            string // where the *chosen* thread was parked
	RunningEnabled bool
}

type access struct {
	tid   int
	write bool
	vc    []int
	loc   string
}

type Race struct {
	Obj            string
	A, B           string // locations
	TA, TB         int
	WriteA, WriteB bool
}

func (r Race) String() string {
	k := func(w bool) string {
		if w {
			return "write"
		}
		return "read"
	}
	return fmt.Sprintf("%s: %s by thread %d at %s / %s by thread %d at %s, unordered", r.Obj, k(r.WriteA), r.TA, r.A, k(r.WriteB), r.TB, r.B)
}

type region struct {
	name string
	ptr  unsafe.Pointer
	n    int
	hash uint64
	ro   bool // declared read-only by the scenario: any change is a violation even without a race
	obj  bool // the memory of a library object (a Block, an AEAD) shared by the threads - see ShareMem
}

// Exec is the state of one execution.
type Exec struct {
	threads        []*thread
	cur            *thread
	yield          chan event
	Points         []PointRec
	parked         map[int]string // where each thread is parked
	prefix         []int
	objs           map[string][]access
	Races          []Race
	raceKey        map[string]bool
	regions        []*region
	RegionWrites   map[string][]string // region -> "thread@loc" list
	Diverged       string
	Deadlock       bool
	steps          int
	globals        []Global
	GlobalsChanged []string
	AtomicGlobals  map[string]bool // package-level variables that an atomic operation wrote during this execution
	gHash          []uint64
	mHash          []uint64
	locs           map[int]string
}

var active *Exec

// Active reports whether an execution is running under the scheduler.
func Active() bool { return active != nil }

// ---------------------------------------------------------------- API for instrumented code

// Point is a bare scheduling point.
func Point(loc string) {
	e := active
	if e == nil || e.cur == nil {
		return
	}
	e.park(loc)
}

// Acc logs an access to a mutable shared object and is a scheduling point *before* the access.
func Acc(obj string, write bool, loc string) {
	e := active
	if e == nil || e.cur == nil {
		return
	}
	e.park(loc)
	e.log(obj, write, loc)
}

// AccPtr is Acc for a field of an object identified by its address.
func AccPtr(obj string, p unsafe.Pointer, write bool, loc string) {
	if active == nil || active.cur == nil {
		return
	}
	Acc(fmt.Sprintf("%s@%x", obj, uintptr(p)), write, loc)
}

// AsmEnter is called before an assembly routine: scheduling point; pointer arguments that fall into a shared
// region are logged as reads. AsmExit afterwards attributes any changed region to the calling thread as a write.
// SetFinalizer replaces runtime.SetFinalizer in instrumented code: finalizers would run on the runtime's own goroutine,
// outside the controlled scheduler.
func SetFinalizer(obj interface{}, finalizer interface{}) {}

func AsmEnter(name string, loc string, ptrs ...unsafe.Pointer) {
	e := active
	if e == nil || e.cur == nil {
		return
	}
	e.park(loc)
	e.scanRegions(loc) // writes done by Go code since the last point
	for _, p := range ptrs {
		if p == nil {
			continue
		}
		for _, r := range e.regions {
			if uintptr(p) >= uintptr(r.ptr) && uintptr(p) < uintptr(r.ptr)+uintptr(r.n) {
				e.log("region:"+r.name, false, loc+" ("+name+")")
			}
		}
	}
}

// AtomicWrote is called by the atomic shim right after an operation that may have written (Store, Add, Swap,
// CompareAndSwap) the word at p. If that word lies inside a registered package-level variable (a counter, a claim flag
// in a ring of slots), the variable's change is the effect of a synchronisation operation: its watched value is brought
// up to date without a write event (the operation's ordering is modelled by the shim: release + acquire on the
// address), and the variable counts as modelled when the execution ends. A plain store to the same variable is still
// noticed by the value watch at the next point.
func AtomicWrote(p unsafe.Pointer) {
	e := active
	if e == nil {
		return
	}
	a := uintptr(p)
	for i, g := range e.globals {
		if g.Sync || !g.V.CanAddr() {
			continue
		}
		base := g.V.UnsafeAddr()
		if a >= base && a < base+g.V.Type().Size() {
			if e.AtomicGlobals == nil {
				e.AtomicGlobals = map[string]bool{}
			}
			e.AtomicGlobals[g.Name] = true
			if g.Mutable && i < len(e.mHash) {
				e.mHash[i] = DeepHash(g.V)
			}
			return
		}
	}
}

// PreAsm wraps the last argument of an assembly call whose argument list runs Go code: changes that code made are
// absorbed as Go-level changes before the routine starts.
func PreAsm[T any](v T) T {
	if e := active; e != nil && e.cur != nil {
		e.scanRegions("argument evaluation")
	}
	return v
}

func AsmExit(name string, loc string) {
	e := active
	if e == nil || e.cur == nil {
		return
	}
	e.scanRegionsAt(loc+" ("+name+")", true)
}

// ---------------------------------------------------------------- regions and globals

// Global describes one package-level variable of an instrumented package.
type Global struct {
	Name    string
	V       reflect.Value // addressable value
	Mutable bool          // not statically frozen: its value is watched at every scheduling point
	Sync    bool          // a synchronisation object (sync.Once, Mutex, Pool, atomics): not data - never hashed or watched, but reset together with the data it guards
}

var registered []Global

// RegisterGlobals is called from generated code in each instrumented package.
func RegisterGlobals(gs []Global) { registered = append(registered, gs...) }

var (
	baseline []uint64
	clones   []reflect.Value
)

// Baseline records the value (hash and deep clone) of every registered package-level variable; call it before the
// first library call of the process. Package-level state persists from one execution to the next, so every execution
// (and every solo run) first restores any variable that differs from the baseline: executions are then functions of
// the schedule alone.
func Baseline() {
	if baseline != nil {
		return
	}
	baseline = []uint64{}
	for _, g := range registered {
		if g.Sync {
			baseline = append(baseline, 0)
		} else {
			baseline = append(baseline, DeepHash(g.V))
		}
		c := reflect.New(g.V.Type()).Elem()
		deepCopyInto(c, g.V)
		clones = append(clones, c)
	}
}

// RestoreGlobals puts every registered package-level variable that differs from the baseline back to a fresh deep copy
// of its baseline value. It returns the names of the variables it had to restore.
func RestoreGlobals() []string {
	var out []string
	for i, g := range registered {
		if i >= len(baseline) {
			break
		}
		if g.Sync {
			continue
		}
		if DeepHash(g.V) != baseline[i] {
			deepCopyInto(g.V, clones[i])
			out = append(out, g.Name)
		}
	}
	// synchronisation objects go back to their baseline state whenever any data was restored (a sync.Once that has fired
	// guards data that has just been reset), and also when nothing was: they carry no observable value of their own
	for i, g := range registered {
		if g.Sync && i < len(clones) {
			deepCopyInto(g.V, clones[i])
		}
	}
	return out
}

// settable returns a settable handle on v even when v was reached through an unexported struct field.
func settable(v reflect.Value) reflect.Value {
	if v.CanSet() || !v.CanAddr() {
		return v
	}
	return reflect.NewAt(v.Type(), unsafe.Pointer(v.UnsafeAddr())).Elem()
}

func readable(v reflect.Value) reflect.Value {
	if v.CanInterface() || !v.CanAddr() {
		return v
	}
	return reflect.NewAt(v.Type(), unsafe.Pointer(v.UnsafeAddr())).Elem()
}

// deepCopyInto makes dst an independent deep copy of src (same type). Pointers, slices and maps are re-allocated;
// a pointer met a second time (shared or cyclic structure: a doubly linked list) maps to the copy made the first time.
func deepCopyInto(dst, src reflect.Value) { deepCopyMemo(dst, src, map[unsafe.Pointer]reflect.Value{}) }

func deepCopyMemo(dst, src reflect.Value, memo map[unsafe.Pointer]reflect.Value) {
	dst = settable(dst)
	src = readable(src)
	switch src.Kind() {
	case reflect.Ptr:
		if src.IsNil() {
			dst.Set(reflect.Zero(src.Type()))
			return
		}
		if c, ok := memo[src.UnsafePointer()]; ok && c.Type() == src.Type() {
			dst.Set(c)
			return
		}
		n := reflect.New(src.Type().Elem())
		memo[src.UnsafePointer()] = n
		deepCopyMemo(n.Elem(), src.Elem(), memo)
		dst.Set(n)
	case reflect.Slice:
		if src.IsNil() {
			dst.Set(reflect.Zero(src.Type()))
			return
		}
		n := reflect.MakeSlice(src.Type(), src.Len(), src.Len())
		for i := 0; i < src.Len(); i++ {
			deepCopyMemo(n.Index(i), src.Index(i), memo)
		}
		dst.Set(n)
	case reflect.Array:
		for i := 0; i < src.Len(); i++ {
			deepCopyMemo(dst.Index(i), src.Index(i), memo)
		}
	case reflect.Struct:
		for i := 0; i < src.NumField(); i++ {
			deepCopyMemo(dst.Field(i), src.Field(i), memo)
		}
	case reflect.Map:
		if src.IsNil() {
			dst.Set(reflect.Zero(src.Type()))
			return
		}
		n := reflect.MakeMapWithSize(src.Type(), src.Len())
		it := src.MapRange()
		for it.Next() {
			v := reflect.New(src.Type().Elem()).Elem()
			deepCopyMemo(v, it.Value(), memo)
			n.SetMapIndex(it.Key(), v)
		}
		dst.Set(n)
	default: // scalars, strings, interfaces, funcs, channels: shallow
		dst.Set(src)
	}
}

// Globals lists the registered package-level variables.
func Globals() []Global { return registered }

func hashBytes(p unsafe.Pointer, n int) uint64 {
	h := fnv.New64a()
	if n > 0 {
		h.Write(unsafe.Slice((*byte)(p), n))
	}
	return h.Sum64()
}

// DeepHash hashes the value reachable from v (following pointers, slices, maps with sorted keys).
func DeepHash(v reflect.Value) uint64 {
	h := fnv.New64a()
	seen := map[uintptr]bool{}
	var walk func(v reflect.Value, depth int)
	w64 := func(x uint64) {
		var b [8]byte
		for i := 0; i < 8; i++ {
			b[i] = byte(x >> (8 * uint(i)))
		}
		h.Write(b[:])
	}
	walk = func(v reflect.Value, depth int) {
		if depth > 12 {
			return
		}
		if pp := v.Type().PkgPath(); pp == "sync" || pp == "sync/atomic" || strings.HasPrefix(pp, "verif/shim/") {
			return // synchronisation objects embedded in data are not data
		}
		switch v.Kind() {
		case reflect.Bool:
			if v.Bool() {
				w64(1)
			} else {
				w64(0)
			}
		case reflect.Int, reflect.Int8, reflect.Int16, reflect.Int32, reflect.Int64:
			w64(uint64(v.Int()))
		case reflect.Uint, reflect.Uint8, reflect.Uint16, reflect.Uint32, reflect.Uint64, reflect.Uintptr:
			w64(v.Uint())
		case reflect.Float32, reflect.Float64:
			w64(uint64(v.Float()))
		case reflect.String:
			h.Write([]byte(v.String()))
		case reflect.Array:
			for i := 0; i < v.Len(); i++ {
				walk(v.Index(i), depth+1)
			}
		case reflect.Slice:
			w64(uint64(v.Len()))
			if v.Len() > 0 {
				p := v.Pointer()
				if seen[p] && v.Type().Elem().Kind() != reflect.Uint8 {
					return
				}
				seen[p] = true
			}
			for i := 0; i < v.Len(); i++ {
				walk(v.Index(i), depth+1)
			}
		case reflect.Ptr:
			if v.IsNil() {
				w64(0)
				return
			}
			if seen[v.Pointer()] {
				return
			}
			seen[v.Pointer()] = true
			walk(v.Elem(), depth+1)
		case reflect.Struct:
			for i := 0; i < v.NumField(); i++ {
				walk(v.Field(i), depth+1)
			}
		case reflect.Map:
			w64(uint64(v.Len()))
			keys := v.MapKeys()
			ks := make([]string, len(keys))
			for i, k := range keys {
				ks[i] = fmt.Sprint(k)
			}
			sort.Strings(ks)
			for _, k := range ks {
				h.Write([]byte(k))
			}
		case reflect.Interface:
			if !v.IsNil() {
				walk(v.Elem(), depth+1)
			}
		case reflect.Func, reflect.Chan, reflect.UnsafePointer:
			// identity only
			if !v.IsNil() {
				w64(1)
			}
		}
	}
	walk(v, 0)
	return h.Sum64()
}

// Share registers a byte region shared between threads. readOnly regions must be bit-identical at the end.
func (e *Exec) Share(name string, b []byte, readOnly bool) {
	if len(b) == 0 {
		return
	}
	r := &region{name: name, ptr: unsafe.Pointer(&b[0]), n: len(b), ro: readOnly}
	r.hash = hashBytes(r.ptr, r.n)
	e.regions = append(e.regions, r)
}

// ShareMem registers raw memory (e.g. a cipher object) as a read-only shared region.
// An object may legitimately change while it is shared: state derived on first use under a sync.Once, a pointer
// published atomically, the synchronisation objects embedded in it. Go-level writes to its fields are reported
// precisely (with their happens-before clocks) by the field hooks of the instrumenter; the byte scan of the region is
// kept for what the hooks cannot see - stores made by an assembly routine - and therefore only attributes changes that
// appear between the entry and the exit of an assembly call. Such a store is judged by the happens-before monitor
// against the other accesses to the object (a store under a held lock that every reader synchronises with is fine).
func (e *Exec) ShareMem(name string, p unsafe.Pointer, n int) {
	r := &region{name: name, ptr: p, n: n, obj: true}
	r.hash = hashBytes(p, n)
	e.regions = append(e.regions, r)
}

func (e *Exec) scanRegions(loc string) { e.scanRegionsAt(loc, false) }

func (e *Exec) scanRegionsAt(loc string, asmExit bool) {
	for i, g := range e.globals {
		if !g.Mutable || g.Sync {
			continue
		}
		if h := DeepHash(g.V); h != e.mHash[i] {
			e.mHash[i] = h
			e.log(g.Name, true, loc+" (value changed)")
		}
	}
	for _, r := range e.regions {
		h := hashBytes(r.ptr, r.n)
		if h != r.hash {
			r.hash = h
			if r.obj && !asmExit {
				continue // a Go-level change of a library object: the field hooks report it
			}
			e.log("region:"+r.name, true, loc)
			if e.RegionWrites == nil {
				e.RegionWrites = map[string][]string{}
			}
			tid := -1
			if e.cur != nil {
				tid = e.cur.id
			}
			e.RegionWrites[r.name] = append(e.RegionWrites[r.name], fmt.Sprintf("thread %d at %s", tid, loc))
		}
	}
}

// ---------------------------------------------------------------- race monitor

func leq(a, b []int) bool {
	for i := range a {
		if a[i] > b[i] {
			return false
		}
	}
	return true
}

func (e *Exec) log(obj string, write bool, loc string) {
	t := e.cur
	if t == nil {
		return
	}
	t.vc[t.id]++
	cur := access{tid: t.id, write: write, vc: append([]int{}, t.vc...), loc: loc}
	for _, a := range e.objs[obj] {
		if a.tid == t.id || (!a.write && !write) {
			continue
		}
		if !leq(a.vc, cur.vc) {
			k := obj + "|" + a.loc + "|" + loc
			if !e.raceKey[k] {
				e.raceKey[k] = true
				e.Races = append(e.Races, Race{Obj: obj, A: a.loc, B: loc, TA: a.tid, TB: t.id, WriteA: a.write, WriteB: write})
			}
		}
	}
	// keep the last access per (thread, kind) - enough to find one witness per racing pair
	lst := e.objs[obj]
	for i := range lst {
		if lst[i].tid == t.id && lst[i].write == write {
			lst[i] = cur
			return
		}
	}
	e.objs[obj] = append(lst, cur)
}

// Sync edges used by the shim: release copies the thread's clock into the object, acquire joins it.
type SyncObj struct{ vc []int }

func (e *Exec) release(s *SyncObj) {
	t := e.cur
	if t == nil {
		return
	}
	t.vc[t.id]++
	if s.vc == nil {
		s.vc = make([]int, len(t.vc))
	}
	for i := range t.vc {
		if t.vc[i] > s.vc[i] {
			s.vc[i] = t.vc[i]
		}
	}
}
func (e *Exec) acquire(s *SyncObj) {
	t := e.cur
	if t == nil || s.vc == nil {
		return
	}
	for i := range s.vc {
		if i < len(t.vc) && s.vc[i] > t.vc[i] {
			t.vc[i] = s.vc[i]
		}
	}
}

// Release/Acquire are exported for the sync shim.
func Release(s *SyncObj) {
	if active != nil {
		// value changes made so far belong before the release: attribute them now, with the pre-release clock
		if active.cur != nil {
			active.scanRegions("before release")
		}
		active.release(s)
	}
}
func Acquire(s *SyncObj) {
	if active != nil {
		active.acquire(s)
	}
}

// Block parks the current thread until cond() holds (re-evaluated by the scheduler); it is a scheduling point.
func Block(loc string, cond func() bool) {
	e := active
	if e == nil || e.cur == nil {
		if !cond() {
			panic("sched.Block outside an execution would block forever at " + loc)
		}
		return
	}
	t := e.cur
	t.waiting = cond
	e.park(loc)
	t.waiting = nil
}

// ---------------------------------------------------------------- execution

func (e *Exec) park(loc string) {
	t := e.cur
	e.scanRegions(loc) // writes by Go code of this thread since the last point
	e.parked[t.id] = loc
	e.yield <- event{t: t}
	<-t.resume
}

func (e *Exec) enabled(last *thread) []int {
	var out []int
	ok := func(t *thread) bool { return !t.done && (t.waiting == nil || t.waiting()) }
	if last != nil && ok(last) {
		out = append(out, last.id)
	}
	for _, t := range e.threads {
		if t != last && ok(t) {
			out = append(out, t.id)
		}
	}
	return out
}

const maxSteps = 200000

// run executes the threads under the choice prefix; beyond the prefix choice 0 is taken.
func runExec(prefix []int, setup func(e *Exec) []func(), globals []Global) *Exec {
	e := &Exec{yield: make(chan event), parked: map[int]string{}, prefix: prefix, objs: map[string][]access{}, raceKey: map[string]bool{}, globals: globals}
	fns := setup(e)
	for i, f := range fns {
		t := &thread{id: i, resume: make(chan struct{}), fn: f, vc: make([]int, len(fns))}
		e.threads = append(e.threads, t)
	}
	RestoreGlobals()
	for _, g := range globals {
		var h uint64
		if !g.Sync {
			h = DeepHash(g.V)
		}
		e.gHash = append(e.gHash, h)
		e.mHash = append(e.mHash, h)
	}
	active = e
	defer func() { active = nil }()
	for _, t := range e.threads {
		t := t
		go func() {
			<-t.resume
			defer func() {
				if r := recover(); r != nil {
					t.panicV = r
				}
				t.done = true
				e.yield <- event{t: t, done: true}
			}()
			t.fn()
		}()
		e.parked[t.id] = "start"
	}
	var last *thread
	for {
		en := e.enabled(last)
		if len(en) == 0 {
			for _, t := range e.threads {
				if !t.done {
					e.Deadlock = true
				}
			}
			break
		}
		choice := 0
		i := len(e.Points)
		if i < len(prefix) {
			choice = prefix[i]
			if choice >= len(en) {
				e.Diverged = fmt.Sprintf("replay divergence at point %d: choice %d but only %d threads enabled", i, choice, len(en))
				break
			}
		}
		t := e.threads[en[choice]]
		e.Points = append(e.Points, PointRec{Enabled: en, Chosen: choice, Loc: e.parked[t.id], RunningEnabled: last != nil && len(en) > 0 && en[0] == last.id})
		e.cur = t
		t.resume <- struct{}{}
		ev := <-e.yield
		e.cur = ev.t
		if ev.done {
			e.scanRegions(fmt.Sprintf("end of thread %d", ev.t.id))
		}
		e.cur = nil
		last = ev.t
		e.steps++
		if e.steps > maxSteps {
			e.Diverged = "step horizon exceeded (livelock?)"
			break
		}
	}
	if e.Deadlock || e.Diverged != "" {
		// release parked goroutines so they do not leak: they will observe active == nil and run free
		active = nil
		for _, t := range e.threads {
			if !t.done {
				go func(t *thread) {
					defer func() { recover() }()
					for {
						select {
						case t.resume <- struct{}{}:
						case <-e.yield:
						}
						if t.done {
							return
						}
					}
				}(t)
			}
		}
	}
	for i, g := range globals {
		if g.Sync {
			continue
		}
		h := DeepHash(g.V)
		if h != e.gHash[i] || (baseline != nil && i < len(baseline) && h != baseline[i]) {
			e.GlobalsChanged = append(e.GlobalsChanged, g.Name)
		}
	}
	return e
}

// Panics returns the panic values of threads that panicked.
func (e *Exec) Panics() []string {
	var out []string
	for _, t := range e.threads {
		if t.panicV != nil {
			out = append(out, fmt.Sprintf("thread %d: %v", t.id, t.panicV))
		}
	}
	return out
}

// ROChanged lists read-only regions whose content differs from the start of the execution.
func (e *Exec) ROChanged() []string {
	var out []string
	for name, w := range e.RegionWrites {
		for _, r := range e.regions {
			if r.name == name && r.ro {
				out = append(out, name+" written by "+strings.Join(w, "; "))
			}
		}
	}
	sort.Strings(out)
	return out
}

func (e *Exec) preemptionsBefore(i int) int {
	n := 0
	for k := 0; k < i; k++ {
		p := e.Points[k]
		if p.RunningEnabled && p.Chosen != 0 {
			n++
		}
	}
	return n
}

// Choices returns the choice sequence of the execution.
func (e *Exec) Choices() []int {
	out := make([]int, len(e.Points))
	for i, p := range e.Points {
		out[i] = p.Chosen
	}
	return out
}

// ---------------------------------------------------------------- explorer

type Stats struct {
	Schedules int
	Points    int
	MaxPoints int
	BoundDone int
	Truncated bool
	Outcomes  map[string]int
}

// Explore enumerates all executions with at most bound preemptions (iteratively 0..bound) and calls check on each.
// setup must build a fresh, deterministic instance every time. check returns a canonical outcome string.
// Deadline, when set, truncates explorations (Stats.Truncated) instead of letting them run on; it is a budget, never an oracle.
var Deadline time.Time

func Explore(bound int, maxSchedules int, setup func(e *Exec) []func(), check func(e *Exec) string) *Stats {
	st := &Stats{Outcomes: map[string]int{}, BoundDone: -1}
	globals := Globals()
	seenSched := map[string]bool{}
	for b := 0; b <= bound; b++ {
		var rec func(prefix []int) bool
		rec = func(prefix []int) bool {
			x := runExec(prefix, setup, globals)
			key := fmt.Sprint(x.Choices())
			fresh := !seenSched[key]
			if fresh {
				seenSched[key] = true
				st.Schedules++
				st.Points += len(x.Points)
				if len(x.Points) > st.MaxPoints {
					st.MaxPoints = len(x.Points)
				}
				st.Outcomes[check(x)]++
			}
			if x.Diverged != "" {
				panic("sched: " + x.Diverged)
			}
			if (maxSchedules > 0 && st.Schedules >= maxSchedules) || (!Deadline.IsZero() && time.Now().After(Deadline)) {
				st.Truncated = true
				return false
			}
			for i := len(prefix); i < len(x.Points); i++ {
				p := x.Points[i]
				for alt := 1; alt < len(p.Enabled); alt++ {
					cost := x.preemptionsBefore(i)
					if p.RunningEnabled {
						cost++
					}
					if cost > b {
						continue
					}
					np := append(append([]int{}, x.Choices()[:i]...), alt)
					if !rec(np) {
						return false
					}
				}
			}
			return true
		}
		if !rec(nil) {
			return st
		}
		st.BoundDone = b
	}
	return st
}

// Replay runs one recorded schedule.
func Replay(choices []int, setup func(e *Exec) []func()) *Exec {
	return runExec(choices, setup, Globals())
}

// Package atomic is the shim counterpart of sync/atomic: every operation is a scheduling point and a
// release+acquire synchronisation on the address; the real atomics do the work.
package atomic

import (
	"fmt"
	ratomic "sync/atomic"
	"unsafe"

	"verif/sched"
)

var objs = map[unsafe.Pointer]*sched.SyncObj{}

// done runs after an atomic operation that may have written: the change of a package-level variable that contains the
// target word is the effect of a synchronisation operation, not a data write (see sched.AtomicWrote).
func done(p unsafe.Pointer) {
	if sched.Active() {
		sched.AtomicWrote(p)
	}
}

func sync(p unsafe.Pointer, name string) {
	if !sched.Active() {
		return
	}
	sched.Point(fmt.Sprintf("atomic.%s %p", name, p))
	so := objs[p]
	if so == nil {
		so = &sched.SyncObj{}
		objs[p] = so
	}
	sched.Acquire(so)
	sched.Release(so)
}

func LoadInt32(a *int32) int32    { sync(unsafe.Pointer(a), "Load"); return ratomic.LoadInt32(a) }
func LoadInt64(a *int64) int64    { sync(unsafe.Pointer(a), "Load"); return ratomic.LoadInt64(a) }
func LoadUint32(a *uint32) uint32 { sync(unsafe.Pointer(a), "Load"); return ratomic.LoadUint32(a) }
func LoadUint64(a *uint64) uint64 { sync(unsafe.Pointer(a), "Load"); return ratomic.LoadUint64(a) }
func LoadPointer(a *unsafe.Pointer) unsafe.Pointer {
	sync(unsafe.Pointer(a), "Load")
	return ratomic.LoadPointer(a)
}
func StoreInt32(a *int32, v int32) {
	sync(unsafe.Pointer(a), "Store")
	ratomic.StoreInt32(a, v)
	done(unsafe.Pointer(a))
}
func StoreInt64(a *int64, v int64) {
	sync(unsafe.Pointer(a), "Store")
	ratomic.StoreInt64(a, v)
	done(unsafe.Pointer(a))
}
func StoreUint32(a *uint32, v uint32) {
	sync(unsafe.Pointer(a), "Store")
	ratomic.StoreUint32(a, v)
	done(unsafe.Pointer(a))
}
func StoreUint64(a *uint64, v uint64) {
	sync(unsafe.Pointer(a), "Store")
	ratomic.StoreUint64(a, v)
	done(unsafe.Pointer(a))
}
func StorePointer(a *unsafe.Pointer, v unsafe.Pointer) {
	sync(unsafe.Pointer(a), "Store")
	ratomic.StorePointer(a, v)
	done(unsafe.Pointer(a))
}
func AddInt32(a *int32, d int32) int32 {
	sync(unsafe.Pointer(a), "Add")
	r := ratomic.AddInt32(a, d)
	done(unsafe.Pointer(a))
	return r
}
func AddInt64(a *int64, d int64) int64 {
	sync(unsafe.Pointer(a), "Add")
	r := ratomic.AddInt64(a, d)
	done(unsafe.Pointer(a))
	return r
}
func AddUint32(a *uint32, d uint32) uint32 {
	sync(unsafe.Pointer(a), "Add")
	r := ratomic.AddUint32(a, d)
	done(unsafe.Pointer(a))
	return r
}
func AddUint64(a *uint64, d uint64) uint64 {
	sync(unsafe.Pointer(a), "Add")
	r := ratomic.AddUint64(a, d)
	done(unsafe.Pointer(a))
	return r
}
func CompareAndSwapInt32(a *int32, o, n int32) bool {
	sync(unsafe.Pointer(a), "CAS")
	r := ratomic.CompareAndSwapInt32(a, o, n)
	done(unsafe.Pointer(a))
	return r
}
func CompareAndSwapInt64(a *int64, o, n int64) bool {
	sync(unsafe.Pointer(a), "CAS")
	r := ratomic.CompareAndSwapInt64(a, o, n)
	done(unsafe.Pointer(a))
	return r
}
func CompareAndSwapUint32(a *uint32, o, n uint32) bool {
	sync(unsafe.Pointer(a), "CAS")
	r := ratomic.CompareAndSwapUint32(a, o, n)
	done(unsafe.Pointer(a))
	return r
}
func CompareAndSwapUint64(a *uint64, o, n uint64) bool {
	sync(unsafe.Pointer(a), "CAS")
	r := ratomic.CompareAndSwapUint64(a, o, n)
	done(unsafe.Pointer(a))
	return r
}
func CompareAndSwapPointer(a *unsafe.Pointer, o, n unsafe.Pointer) bool {
	sync(unsafe.Pointer(a), "CAS")
	r := ratomic.CompareAndSwapPointer(a, o, n)
	done(unsafe.Pointer(a))
	return r
}
func SwapInt32(a *int32, n int32) int32 {
	sync(unsafe.Pointer(a), "Swap")
	r := ratomic.SwapInt32(a, n)
	done(unsafe.Pointer(a))
	return r
}
func SwapInt64(a *int64, n int64) int64 {
	sync(unsafe.Pointer(a), "Swap")
	r := ratomic.SwapInt64(a, n)
	done(unsafe.Pointer(a))
	return r
}

type Bool struct{ v ratomic.Bool }

func (b *Bool) Load() bool   { sync(unsafe.Pointer(b), "Load"); return b.v.Load() }
func (b *Bool) Store(x bool) { sync(unsafe.Pointer(b), "Store"); b.v.Store(x); done(unsafe.Pointer(b)) }
func (b *Bool) CompareAndSwap(o, n bool) bool {
	sync(unsafe.Pointer(b), "CAS")
	r := b.v.CompareAndSwap(o, n)
	done(unsafe.Pointer(b))
	return r
}

type Int32 struct{ v ratomic.Int32 }

func (b *Int32) Load() int32 { sync(unsafe.Pointer(b), "Load"); return b.v.Load() }
func (b *Int32) Store(x int32) {
	sync(unsafe.Pointer(b), "Store")
	b.v.Store(x)
	done(unsafe.Pointer(b))
}
func (b *Int32) Add(x int32) int32 {
	sync(unsafe.Pointer(b), "Add")
	r := b.v.Add(x)
	done(unsafe.Pointer(b))
	return r
}
func (b *Int32) CompareAndSwap(o, n int32) bool {
	sync(unsafe.Pointer(b), "CAS")
	r := b.v.CompareAndSwap(o, n)
	done(unsafe.Pointer(b))
	return r
}

type Int64 struct{ v ratomic.Int64 }

func (b *Int64) Load() int64 { sync(unsafe.Pointer(b), "Load"); return b.v.Load() }
func (b *Int64) Store(x int64) {
	sync(unsafe.Pointer(b), "Store")
	b.v.Store(x)
	done(unsafe.Pointer(b))
}
func (b *Int64) Add(x int64) int64 {
	sync(unsafe.Pointer(b), "Add")
	r := b.v.Add(x)
	done(unsafe.Pointer(b))
	return r
}

type Uint32 struct{ v ratomic.Uint32 }

func (b *Uint32) Load() uint32 { sync(unsafe.Pointer(b), "Load"); return b.v.Load() }
func (b *Uint32) Store(x uint32) {
	sync(unsafe.Pointer(b), "Store")
	b.v.Store(x)
	done(unsafe.Pointer(b))
}
func (b *Uint32) Add(x uint32) uint32 {
	sync(unsafe.Pointer(b), "Add")
	r := b.v.Add(x)
	done(unsafe.Pointer(b))
	return r
}
func (b *Uint32) CompareAndSwap(o, n uint32) bool {
	sync(unsafe.Pointer(b), "CAS")
	r := b.v.CompareAndSwap(o, n)
	done(unsafe.Pointer(b))
	return r
}

type Uint64 struct{ v ratomic.Uint64 }

func (b *Uint64) Load() uint64 { sync(unsafe.Pointer(b), "Load"); return b.v.Load() }
func (b *Uint64) Store(x uint64) {
	sync(unsafe.Pointer(b), "Store")
	b.v.Store(x)
	done(unsafe.Pointer(b))
}
func (b *Uint64) Add(x uint64) uint64 {
	sync(unsafe.Pointer(b), "Add")
	r := b.v.Add(x)
	done(unsafe.Pointer(b))
	return r
}

type Value struct{ v ratomic.Value }

func (b *Value) Load() any   { sync(unsafe.Pointer(b), "Load"); return b.v.Load() }
func (b *Value) Store(x any) { sync(unsafe.Pointer(b), "Store"); b.v.Store(x); done(unsafe.Pointer(b)) }

type Pointer[T any] struct{ v ratomic.Pointer[T] }

func (b *Pointer[T]) Load() *T { sync(unsafe.Pointer(b), "Load"); return b.v.Load() }
func (b *Pointer[T]) Store(x *T) {
	sync(unsafe.Pointer(b), "Store")
	b.v.Store(x)
	done(unsafe.Pointer(b))
}
func (b *Pointer[T]) CompareAndSwap(o, n *T) bool {
	sync(unsafe.Pointer(b), "CAS")
	r := b.v.CompareAndSwap(o, n)
	done(unsafe.Pointer(b))
	return r
}

// Package sync is a drop-in shim for the parts of the standard sync package, used by the C17 instrumenter: under the
// controlled scheduler every operation is a scheduling point with the proper happens-before edges (so code that adds
// *correct* synchronisation is modelled, not flagged); outside an execution (free-running -race pass, init time) the
// real primitives are used.
package sync

import (
	"fmt"
	rsync "sync"

	"verif/sched"
)

type Locker = rsync.Locker

type Mutex struct {
	real   rsync.Mutex
	locked bool
	so     sched.SyncObj
}

func (m *Mutex) Lock() {
	if !sched.Active() {
		m.real.Lock()
		return
	}
	sched.Block(fmt.Sprintf("Mutex.Lock %p", m), func() bool { return !m.locked })
	m.locked = true
	sched.Acquire(&m.so)
}

func (m *Mutex) TryLock() bool {
	if !sched.Active() {
		return m.real.TryLock()
	}
	sched.Point(fmt.Sprintf("Mutex.TryLock %p", m))
	if m.locked {
		return false
	}
	m.locked = true
	sched.Acquire(&m.so)
	return true
}

func (m *Mutex) Unlock() {
	if !sched.Active() {
		m.real.Unlock()
		return
	}
	if !m.locked {
		panic("sync: unlock of unlocked mutex")
	}
	sched.Release(&m.so)
	m.locked = false
	sched.Point(fmt.Sprintf("Mutex.Unlock %p", m))
}

type RWMutex struct {
	real    rsync.RWMutex
	writer  bool
	readers int
	so      sched.SyncObj
}

func (m *RWMutex) Lock() {
	if !sched.Active() {
		m.real.Lock()
		return
	}
	sched.Block(fmt.Sprintf("RWMutex.Lock %p", m), func() bool { return !m.writer && m.readers == 0 })
	m.writer = true
	sched.Acquire(&m.so)
}
func (m *RWMutex) Unlock() {
	if !sched.Active() {
		m.real.Unlock()
		return
	}
	sched.Release(&m.so)
	m.writer = false
	sched.Point(fmt.Sprintf("RWMutex.Unlock %p", m))
}
func (m *RWMutex) RLock() {
	if !sched.Active() {
		m.real.RLock()
		return
	}
	sched.Block(fmt.Sprintf("RWMutex.RLock %p", m), func() bool { return !m.writer })
	m.readers++
	sched.Acquire(&m.so)
}
func (m *RWMutex) RUnlock() {
	if !sched.Active() {
		m.real.RUnlock()
		return
	}
	sched.Release(&m.so)
	m.readers--
	sched.Point(fmt.Sprintf("RWMutex.RUnlock %p", m))
}
func (m *RWMutex) RLocker() Locker { return (*rlocker)(m) }

type rlocker RWMutex

func (r *rlocker) Lock()   { (*RWMutex)(r).RLock() }
func (r *rlocker) Unlock() { (*RWMutex)(r).RUnlock() }

type Once struct {
	real rsync.Once
	m    Mutex
	done bool
}

func (o *Once) Do(f func()) {
	if !sched.Active() {
		o.real.Do(func() { f(); o.done = true })
		return
	}
	o.m.Lock()
	defer o.m.Unlock()
	if !o.done {
		defer func() { o.done = true }()
		f()
	}
}

type WaitGroup struct {
	real rsync.WaitGroup
	n    int
	so   sched.SyncObj
}

func (w *WaitGroup) Add(d int) {
	if !sched.Active() {
		w.real.Add(d)
		return
	}
	sched.Release(&w.so)
	w.n += d
	sched.Point("WaitGroup.Add")
}
func (w *WaitGroup) Done() { w.Add(-1) }
func (w *WaitGroup) Wait() {
	if !sched.Active() {
		w.real.Wait()
		return
	}
	sched.Block("WaitGroup.Wait", func() bool { return w.n <= 0 })
	sched.Acquire(&w.so)
}

// Pool never retains anything under the scheduler (the real Pool may drop items at any time, so this is one of its
// legal behaviours); outside it is the real pool.
type Pool struct {
	real rsync.Pool
	init rsync.Once
	New  func() any
}

func (p *Pool) Get() any {
	if !sched.Active() {
		p.init.Do(func() { p.real.New = p.New })
		return p.real.Get()
	}
	if p.New != nil {
		return p.New()
	}
	return nil
}
func (p *Pool) Put(x any) {
	if !sched.Active() {
		p.real.Put(x)
	}
}

type Map = rsync.Map
type Cond = rsync.Cond

func NewCond(l Locker) *Cond { return rsync.NewCond(l) }

func OnceFunc(f func()) func() {
	var o Once
	return func() { o.Do(f) }
}

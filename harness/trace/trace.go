// Package trace is the run-time side of the C08 monitor: instrumented code reports every basic-block entry, every
// evaluated short-circuit operand and the value of every non-constant index or slice bound. Events are folded into a
// running hash; per-site counters allow a divergence to be located.
package trace

import (
	"fmt"
	"math/big"
	"reflect"
	"strings"
)

type integer interface {
	~int | ~int8 | ~int16 | ~int32 | ~int64 | ~uint | ~uint8 | ~uint16 | ~uint32 | ~uint64 | ~uintptr
}

var (
	on     bool
	h      uint64
	events uint64
	sites  map[uint32]uint64 // site -> hash of (count, index values) for diffing
	funcs  map[uint32]struct{}
	detail bool
	seqOn  bool
	seq    []uint64
)

// StartSeq begins a recording that keeps the full event sequence (site ids and index values), used to locate the first
// point at which two traces diverge.
func StartSeq() {
	Start(false)
	seqOn = true
	seq = seq[:0]
}

// StopSeq ends a sequence recording.
func StopSeq() []uint64 {
	on, seqOn = false, false
	return append([]uint64{}, seq...)
}

const prime = 1099511628211

func mix(x uint64) {
	h ^= x
	h *= prime
	events++
	if seqOn && len(seq) < 4000000 {
		seq = append(seq, x)
	}
}

// Start begins a recording. With detail, per-site summaries are kept so that two recordings can be diffed.
func Start(withDetail bool) {
	ext = nil
	on = true
	h = 14695981039346656037
	events = 0
	detail = withDetail
	sites = map[uint32]uint64{}
	funcs = map[uint32]struct{}{}
}

type Result struct {
	Hash   uint64
	Events uint64
	Sites  map[uint32]uint64
	Ext    map[uint32][][]string // external call site -> per execution: canonical values of the value-bearing operands
}

func Stop() Result {
	on = false
	return Result{Hash: h, Events: events, Sites: sites, Ext: ext}
}

var ext map[uint32][][]string

// X: a call that leaves the module is about to be made at this site; ops are its value-bearing operands (receiver
// and arguments of type *big.Int, []byte, integers). They are recorded in canonical form - the magnitude as hex without
// leading zeros, "-" in front of negative numbers - and are NOT part of the trace hash: the monitor decides afterwards
// whether every operand is a public value. "?" marks an operand the instrumenter could not evaluate without side effects.
func X(id uint32, ops ...interface{}) {
	if !on || !detail {
		return
	}
	if ext == nil {
		ext = map[uint32][][]string{}
	}
	if len(ext[id]) >= 64 {
		return
	}
	vals := make([]string, 0, len(ops))
	for _, o := range ops {
		vals = append(vals, Canon(o))
	}
	ext[id] = append(ext[id], vals)
}

// Q records one operand of a comparison the compiler turns into a memory comparison (== / != on arrays, strings and
// multi-field structs: runtime.memequal or an element-by-element chain, both of which stop at the first difference)
// and returns it unchanged. The instrumenter wraps both operands in place, so they are evaluated exactly once and in
// order. Like X, the values are not part of the trace hash: the monitor decides whether they are public.
func Q[T any](id uint32, v T) T {
	if on && detail {
		if ext == nil {
			ext = map[uint32][][]string{}
		}
		if len(ext[id]) < 64 {
			var c string
			switch x := any(v).(type) {
			case string:
				c = fmt.Sprintf("%x", x)
			default:
				c = strings.NewReplacer(" ", "", "[", "", "]", "", "{", "", "}", "").Replace(fmt.Sprintf("%02x", x))
			}
			ext[id] = append(ext[id], []string{"cmp:" + c})
		}
	}
	return v
}

// PA: an address (pointer, unsafe.Pointer or uintptr) handed back by an assembly routine is about to be used by Go code.
// Which location is accessed through it is an index event like any other: the address itself goes into the trace hash.
// (Long-lived tables keep their addresses for the life of the process, so equal secrets give equal events; an address
// that differs from call to call for the same secret shows up as an unstable trace, which is reported as such.)
func PA[T any](id uint32, v T) T {
	if on {
		var a uint64
		rv := reflect.ValueOf(v)
		switch rv.Kind() {
		case reflect.Ptr, reflect.UnsafePointer, reflect.Slice:
			a = uint64(rv.Pointer())
		case reflect.Uintptr:
			a = rv.Uint()
		}
		mix(uint64(id) | 2<<40)
		mix(a)
		if detail {
			sites[id] = sites[id]*prime + a + 1
		}
	}
	return v
}

// Canon is the canonical form used by X.
func Canon(o interface{}) string {
	trim := func(b []byte) string {
		i := 0
		for i < len(b) && b[i] == 0 {
			i++
		}
		const hexd = "0123456789abcdef"
		out := make([]byte, 0, 2*(len(b)-i))
		for _, c := range b[i:] {
			out = append(out, hexd[c>>4], hexd[c&15])
		}
		return string(out)
	}
	switch v := o.(type) {
	case nil:
		return ""
	case *big.Int:
		if v == nil {
			return ""
		}
		if v.Sign() < 0 {
			return "-" + trim(v.Bytes())
		}
		return trim(v.Bytes())
	case []byte:
		return trim(v)
	case string:
		return v
	case int:
		return Canon(big.NewInt(int64(v)))
	case int64:
		return Canon(big.NewInt(v))
	case uint64:
		return Canon(new(big.Int).SetUint64(v))
	case uint:
		return Canon(new(big.Int).SetUint64(uint64(v)))
	case uint32:
		return Canon(big.NewInt(int64(v)))
	case int32:
		return Canon(big.NewInt(int64(v)))
	case byte:
		return Canon(big.NewInt(int64(v)))
	}
	return "?"
}

// B: entry of a basic block (function body, branch arm, loop body, case clause).
func B(id uint32) {
	if !on {
		return
	}
	mix(uint64(id))
	if detail {
		sites[id] = sites[id]*prime + 1
	}
}

// S: the right operand of && / || is about to be evaluated.
func S(id uint32) bool {
	if on {
		mix(uint64(id) | 1<<40)
		if detail {
			sites[id] = sites[id]*prime + 1
		}
	}
	return true
}

// I: a non-constant index or slice bound; the value is part of the trace (memory addressing).
func I[T integer](id uint32, v T) T {
	if on {
		mix(uint64(id) | 2<<40)
		mix(uint64(v))
		if detail {
			sites[id] = (sites[id]*prime + uint64(v) + 7) * prime
		}
	}
	return v
}

// Package trace is the run-time side of the C08 monitor: instrumented code reports every basic-block entry, every
// evaluated short-circuit operand and the value of every non-constant index or slice bound. Events are folded into a
// running hash; per-site counters allow a divergence to be located.
package trace

import "math/big"

type integer interface {
	~int | ~int8 | ~int16 | ~int32 | ~int64 | ~uint | ~uint8 | ~uint16 | ~uint32 | ~uint64 | ~uintptr
}

var (
	on     bool
	h      uint64
	events uint64
	sites  map[uint32]uint64 // site -> hash of (count, index values) for diffing
	funcs  map[uint32]struct{}
	detail bool
	seqOn  bool
	seq    []uint64
)

// StartSeq begins a recording that keeps the full event sequence (site ids and index values), used to locate the first
// point at which two traces diverge.
func StartSeq() {
	Start(false)
	seqOn = true
	seq = seq[:0]
}

// StopSeq ends a sequence recording.
func StopSeq() []uint64 {
	on, seqOn = false, false
	return append([]uint64{}, seq...)
}

const prime = 1099511628211

func mix(x uint64) {
	h ^= x
	h *= prime
	events++
	if seqOn && len(seq) < 4000000 {
		seq = append(seq, x)
	}
}

// Start begins a recording. With detail, per-site summaries are kept so that two recordings can be diffed.
func Start(withDetail bool) {
	ext = nil
	on = true
	h = 14695981039346656037
	events = 0
	detail = withDetail
	sites = map[uint32]uint64{}
	funcs = map[uint32]struct{}{}
}

type Result struct {
	Hash   uint64
	Events uint64
	Sites  map[uint32]uint64
	Ext    map[uint32][][]string // external call site -> per execution: canonical values of the value-bearing operands
}

func Stop() Result {
	on = false
	return Result{Hash: h, Events: events, Sites: sites, Ext: ext}
}

var ext map[uint32][][]string

// X: a call that leaves the module is about to be made at this site; ops are its value-bearing operands (receiver
// and arguments of type *big.Int, []byte, integers). They are recorded in canonical form - the magnitude as hex without
// leading zeros, "-" in front of negative numbers - and are NOT part of the trace hash: the monitor decides afterwards
// whether every operand is a public value. "?" marks an operand the instrumenter could not evaluate without side effects.
func X(id uint32, ops ...interface{}) {
	if !on || !detail {
		return
	}
	if ext == nil {
		ext = map[uint32][][]string{}
	}
	if len(ext[id]) >= 64 {
		return
	}
	vals := make([]string, 0, len(ops))
	for _, o := range ops {
		vals = append(vals, Canon(o))
	}
	ext[id] = append(ext[id], vals)
}

// Canon is the canonical form used by X.
func Canon(o interface{}) string {
	trim := func(b []byte) string {
		i := 0
		for i < len(b) && b[i] == 0 {
			i++
		}
		const hexd = "0123456789abcdef"
		out := make([]byte, 0, 2*(len(b)-i))
		for _, c := range b[i:] {
			out = append(out, hexd[c>>4], hexd[c&15])
		}
		return string(out)
	}
	switch v := o.(type) {
	case nil:
		return ""
	case *big.Int:
		if v == nil {
			return ""
		}
		if v.Sign() < 0 {
			return "-" + trim(v.Bytes())
		}
		return trim(v.Bytes())
	case []byte:
		return trim(v)
	case string:
		return v
	case int:
		return Canon(big.NewInt(int64(v)))
	case int64:
		return Canon(big.NewInt(v))
	case uint64:
		return Canon(new(big.Int).SetUint64(v))
	case uint:
		return Canon(new(big.Int).SetUint64(uint64(v)))
	case uint32:
		return Canon(big.NewInt(int64(v)))
	case int32:
		return Canon(big.NewInt(int64(v)))
	case byte:
		return Canon(big.NewInt(int64(v)))
	}
	return "?"
}

// B: entry of a basic block (function body, branch arm, loop body, case clause).
func B(id uint32) {
	if !on {
		return
	}
	mix(uint64(id))
	if detail {
		sites[id] = sites[id]*prime + 1
	}
}

// S: the right operand of && / || is about to be evaluated.
func S(id uint32) bool {
	if on {
		mix(uint64(id) | 1<<40)
		if detail {
			sites[id] = sites[id]*prime + 1
		}
	}
	return true
}

// I: a non-constant index or slice bound; the value is part of the trace (memory addressing).
func I[T integer](id uint32, v T) T {
	if on {
		mix(uint64(id) | 2<<40)
		mix(uint64(v))
		if detail {
			sites[id] = (sites[id]*prime + uint64(v) + 7) * prime
		}
	}
	return v
}

package vx

import (
	"bufio"
	"bytes"
	"fmt"
	"os"
	"os/exec"
	"strconv"
	"strings"
	"sync"
	"sync/atomic"
)

// Cold start support: an entry point is exercised as the very FIRST use of the library in a fresh process (alone, or
// by several goroutines released together), because lazily built state - tables derived on first use, sync.Once
// guards, double-checked locking - behaves differently exactly once per process, and every warm harness runs past that
// moment before it looks.

type ColdEntry struct {
	Name string
	Fn   func() string // performs the library call(s) and renders the observable result
}

// ColdChild runs the entry named by VX_COLD_CHILD (if any) and reports true: the caller must return at once, without
// touching the library or the result file. Results go to stdout, one line per goroutine.
func ColdChild(entries []ColdEntry) bool {
	name := os.Getenv("VX_COLD_CHILD")
	if name == "" {
		return false
	}
	conc, _ := strconv.Atoi(os.Getenv("VX_COLD_CONC"))
	if conc < 1 {
		conc = 1
	}
	for _, e := range entries {
		if e.Name != name {
			continue
		}
		res := make([]string, conc)
		var wg sync.WaitGroup
		var arrived int32
		for i := 0; i < conc; i++ {
			i := i
			wg.Add(1)
			go func() {
				defer wg.Done()
				// spin barrier: all goroutines leave within nanoseconds of each other (the windows of interest are
				// about a microsecond wide); falls through after a while if there are fewer processors than goroutines
				atomic.AddInt32(&arrived, 1)
				for spins := 0; atomic.LoadInt32(&arrived) < int32(conc) && spins < 50000000; spins++ {
				}
				func() {
					defer func() {
						if p := recover(); p != nil {
							res[i] = fmt.Sprintf("PANIC: %v", p)
						}
					}()
					res[i] = e.Fn()
				}()
			}()
		}
		wg.Wait()
		w := bufio.NewWriter(os.Stdout)
		for i, r := range res {
			fmt.Fprintf(w, "VXCOLD\t%d\t%s\n", i, strings.ReplaceAll(r, "\n", " "))
		}
		w.Flush()
		return true
	}
	fmt.Println("VXCOLD\t0\tUNKNOWN ENTRY " + name)
	return true
}

// ColdRun executes one entry in a fresh copy of this test binary and returns what every goroutine observed.
func ColdRun(testName, entry string, conc int, extraEnv ...string) (results []string, race string, failure string) {
	cmd := exec.Command(os.Args[0], "-test.run", "^"+testName+"$", "-test.count=1")
	env := []string{}
	for _, kv := range os.Environ() {
		if strings.HasPrefix(kv, "VX_OUT=") || strings.HasPrefix(kv, "VX_REPLAY=") || strings.HasPrefix(kv, "VX_COLD_") || strings.HasPrefix(kv, "GOMAXPROCS=") {
			continue
		}
		env = append(env, kv)
	}
	env = append(env, "VX_COLD_CHILD="+entry, "VX_COLD_CONC="+strconv.Itoa(conc))
	if conc > 1 {
		env = append(env, "GOMAXPROCS="+strconv.Itoa(conc)) // the shard workers themselves run with GOMAXPROCS=1
	}
	env = append(env, extraEnv...)
	cmd.Env = env
	var out bytes.Buffer
	cmd.Stdout = &out
	cmd.Stderr = &out
	err := cmd.Run()
	for _, l := range strings.Split(out.String(), "\n") {
		if strings.HasPrefix(l, "VXCOLD\t") {
			f := strings.SplitN(l, "\t", 3)
			if len(f) == 3 {
				results = append(results, f[2])
			}
		}
	}
	if i := strings.Index(out.String(), "WARNING: DATA RACE"); i >= 0 {
		race = out.String()[i:]
		if len(race) > 900 {
			race = race[:900]
		}
	}
	if len(results) == 0 {
		tail := out.String()
		if len(tail) > 600 {
			tail = tail[len(tail)-600:]
		}
		return nil, race, fmt.Sprintf("child produced no result (%v): %s", err, tail)
	}
	return results, race, ""
}

// ColdCheck runs every entry cold - alone and, when conc > 1, also with conc goroutines released together, each
// `procs` times in fresh processes - and reports every observation that differs from the expected rendering.
func ColdCheck(r *R, testName string, entries []ColdEntry, want map[string]string, conc, procs int) {
	type cs struct {
		Entry string
		Conc  int
	}
	n := 0
	for _, e := range entries {
		for _, c := range []int{1, conc} {
			if c < 1 || (c == 1 && conc > 1 && os.Getenv("VX_COLD_ONLY_CONC") != "") {
				continue
			}
			reps := 1
			if c > 1 {
				reps = procs
			}
			for rep := 0; rep < reps; rep++ {
				n++
				if !MineIdx(n) {
					continue
				}
				r.Eval(1)
				res, race, fail := ColdRun(testName, e.Name, c)
				mode := "alone"
				if c > 1 {
					mode = "concurrent"
				}
				if fail != "" {
					r.Violation("cold:"+mode+":crash:"+e.Name, fmt.Sprintf("%s as the first use of the library in a fresh process (%s, %d goroutines) crashed the process: %s", e.Name, mode, c, fail), cs{e.Name, c})
					continue
				}
				if race != "" {
					r.Violation("cold:"+mode+":race-detector:"+e.Name, fmt.Sprintf("%s as the first use of the library in a fresh process (%d goroutines): %s", e.Name, c, race), cs{e.Name, c})
				}
				for _, got := range res {
					if got != want[e.Name] {
						r.Violation("cold:"+mode+":wrong:"+e.Name, fmt.Sprintf("%s as the first use of the library in a fresh process (%s, %d goroutines) gave %.200s, expected %.200s", e.Name, mode, c, got, want[e.Name]), cs{e.Name, c})
						break
					}
				}
				r.Shape(fmt.Sprintf("cold:%s:%s:%d", e.Name, mode, rep))
				if rep == 0 {
					r.Sample(cs{e.Name, c})
				}
			}
			if c == conc {
				break
			}
		}
	}
}

// Package vx is the shared bookkeeping layer of the bounded-exhaustive
// exploration harness: tier/seed/shard selection, deterministic filler bytes,
// counters, distinct-shape sets, samples, violations and the JSON result file
// that the orchestrator (/verif/run) aggregates into /verif/evidence/<id>.json.
package vx

import (
	"crypto/sha256"
	"encoding/binary"
	"encoding/hex"
	"encoding/json"
	"fmt"
	"hash/fnv"
	"os"
	"runtime/debug"
	"sort"
	"strconv"
	"strings"
	"sync"
	"time"
)

// Violation is one failing case. Key is the stable class identifier matched
// against known_findings.json; Case is whatever the driver needs to replay it.
type Violation struct {
	Key   string      `json:"key"`
	What  string      `json:"what"`
	Case  interface{} `json:"case"`
	Count int         `json:"count"`
}

type Result struct {
	Property     string                 `json:"property"`
	Part         string                 `json:"part"`
	Tier         string                 `json:"tier"`
	Seed         int64                  `json:"seed"`
	Shard        string                 `json:"shard"`
	Evaluations  int64                  `json:"evaluations"`
	Distinct     int64                  `json:"distinct_nontrivial"`
	States       int64                  `json:"states"`
	Transitions  int64                  `json:"transitions"`
	Validated    int64                  `json:"traces_validated_against_impl"`
	Samples      []interface{}          `json:"samples"`
	Violations   []*Violation           `json:"violations"`
	NViolations  int64                  `json:"n_violations"`
	Exhaustive   bool                   `json:"exhaustive"`
	NotExhReason []string               `json:"not_exhaustive_reason,omitempty"`
	Extra        map[string]interface{} `json:"extra"`
	Rule         string                 `json:"rule"`
	WallS        float64                `json:"wall_s"`
	Completed    bool                   `json:"completed"`
	ShapeDigest  []string               `json:"-"`
}

type R struct {
	mu      sync.Mutex
	res     Result
	shapes  map[uint64]struct{}
	vio     map[string]*Violation
	start   time.Time
	nsample int64
	out     string
	dl      time.Time
}

func Tier() string {
	t := os.Getenv("VX_TIER")
	if t == "" {
		t = "quick"
	}
	return t
}
func Thorough() bool { return Tier() == "thorough" }

func Seed() int64 {
	s, _ := strconv.ParseInt(os.Getenv("VX_SEED"), 10, 64)
	return s
}

// Shard returns (index, count) of this worker.
func Shard() (int, int) {
	s := os.Getenv("VX_SHARD")
	if s == "" {
		return 0, 1
	}
	p := strings.Split(s, "/")
	i, _ := strconv.Atoi(p[0])
	n, _ := strconv.Atoi(p[1])
	if n <= 0 {
		return 0, 1
	}
	return i, n
}

// Mine reports whether the case identified by key belongs to this shard.
// Shards partition the shape space, so per-shard distinct counts add up.
func Mine(key string) bool {
	i, n := Shard()
	if n == 1 {
		return true
	}
	h := fnv.New64a()
	h.Write([]byte(key))
	return int(h.Sum64()%uint64(n)) == i
}

// MineIdx shards on an integer index.
func MineIdx(k int) bool {
	i, n := Shard()
	return n == 1 || k%n == i
}

// Fill returns n deterministic filler bytes for (seed, tag). The seed never
// selects which shapes are visited, only the don't-care bytes.
func Fill(tag string, n int) []byte {
	out := make([]byte, 0, n+32)
	var ctr uint64
	for len(out) < n {
		h := sha256.New()
		var b [16]byte
		binary.BigEndian.PutUint64(b[:8], uint64(Seed()))
		binary.BigEndian.PutUint64(b[8:], ctr)
		h.Write(b[:])
		h.Write([]byte(tag))
		out = h.Sum(out)
		ctr++
	}
	return out[:n]
}

func Hex(b []byte) string { return hex.EncodeToString(b) }
func UnHex(s string) []byte {
	b, err := hex.DecodeString(s)
	if err != nil {
		panic("vx.UnHex: " + err.Error())
	}
	return b
}

// Replay returns the case JSON to replay (set by ./run <id> --replay f).
func Replay(part string) (json.RawMessage, bool) {
	f := os.Getenv("VX_REPLAY")
	if f == "" {
		return nil, false
	}
	raw, err := os.ReadFile(f)
	if err != nil {
		panic(err)
	}
	var rf struct {
		Part string          `json:"part"`
		Case json.RawMessage `json:"case"`
	}
	if err := json.Unmarshal(raw, &rf); err != nil {
		panic(err)
	}
	if rf.Part != part {
		return nil, false
	}
	return rf.Case, true
}

// Replaying reports whether this process is a replay run (for any part).
func Replaying() bool { return os.Getenv("VX_REPLAY") != "" }

func Begin(property, part, rule string) *R {
	r := &R{shapes: map[uint64]struct{}{}, vio: map[string]*Violation{}, start: time.Now()}
	i, n := Shard()
	r.res = Result{Property: property, Part: part, Tier: Tier(), Seed: Seed(), Shard: fmt.Sprintf("%d/%d", i, n),
		Exhaustive: true, Extra: map[string]interface{}{}, Rule: rule}
	r.out = os.Getenv("VX_OUT")
	if os.Getenv("VX_W32") != "" {
		// a part registered for the 32-bit word size must really be such a binary
		if strconv.IntSize != 32 {
			panic("vx: part registered for a 32-bit target runs in a binary with " + strconv.Itoa(strconv.IntSize) + "-bit int")
		}
		r.res.Extra["word_size"] = "int, uint and big.Word have 32 bits (GOARCH=386 binary run natively)"
	}
	if d := os.Getenv("VX_DEADLINE_S"); d != "" {
		s, _ := strconv.ParseFloat(d, 64)
		if s > 0 {
			r.dl = r.start.Add(time.Duration(s * float64(time.Second)))
		}
	}
	return r
}

// Expired reports whether the internal deadline has passed; the caller stops
// enumerating, and the run ends with exit 0 and exhaustive:false.
func (r *R) Expired() bool {
	if r.dl.IsZero() || time.Now().Before(r.dl) {
		return false
	}
	r.NotExhaustive("internal deadline reached")
	return true
}

func (r *R) Eval(n int) {
	r.mu.Lock()
	r.res.Evaluations += int64(n)
	r.mu.Unlock()
}

// Shape records a distinct non-trivial shape key.
func (r *R) Shape(key string) {
	h := fnv.New64a()
	h.Write([]byte(key))
	r.mu.Lock()
	r.shapes[h.Sum64()] = struct{}{}
	r.mu.Unlock()
}

func (r *R) States(n int)      { r.mu.Lock(); r.res.States += int64(n); r.mu.Unlock() }
func (r *R) Transitions(n int) { r.mu.Lock(); r.res.Transitions += int64(n); r.mu.Unlock() }
func (r *R) Validated(n int)   { r.mu.Lock(); r.res.Validated += int64(n); r.mu.Unlock() }

// Sample keeps the 1st, 2nd, 4th, 8th ... offered case plus the last one, so
// that the evidence shows first/middle/last cases of the enumeration order.
func (r *R) Sample(x interface{}) {
	r.mu.Lock()
	defer r.mu.Unlock()
	r.nsample++
	n := r.nsample
	if n&(n-1) == 0 && len(r.res.Samples) < 24 {
		r.res.Samples = append(r.res.Samples, x)
	}
}

func (r *R) Violation(key, what string, c interface{}) {
	r.mu.Lock()
	defer r.mu.Unlock()
	r.res.NViolations++
	if v, ok := r.vio[key]; ok {
		v.Count++
		return
	}
	if len(r.vio) >= 200 {
		return
	}
	r.vio[key] = &Violation{Key: key, What: what, Case: c, Count: 1}
}

func (r *R) NViolations() int64 { r.mu.Lock(); defer r.mu.Unlock(); return r.res.NViolations }

func (r *R) Set(k string, v interface{}) { r.mu.Lock(); r.res.Extra[k] = v; r.mu.Unlock() }
func (r *R) Add(k string, n int64) {
	r.mu.Lock()
	old, _ := r.res.Extra[k].(int64)
	r.res.Extra[k] = old + n
	r.mu.Unlock()
}

func (r *R) NotExhaustive(reason string) {
	r.mu.Lock()
	r.res.Exhaustive = false
	for _, s := range r.res.NotExhReason {
		if s == reason {
			r.mu.Unlock()
			return
		}
	}
	r.res.NotExhReason = append(r.res.NotExhReason, reason)
	r.mu.Unlock()
}

func (r *R) End() {
	r.mu.Lock()
	defer r.mu.Unlock()
	r.res.Distinct = int64(len(r.shapes))
	keys := make([]string, 0, len(r.vio))
	for k := range r.vio {
		keys = append(keys, k)
	}
	sort.Strings(keys)
	for _, k := range keys {
		r.res.Violations = append(r.res.Violations, r.vio[k])
	}
	r.res.WallS = time.Since(r.start).Seconds()
	r.res.Completed = true
	b, err := json.Marshal(&r.res)
	if err != nil {
		panic(err)
	}
	if r.out == "" {
		os.Stdout.Write(b)
		os.Stdout.Write([]byte("\n"))
		return
	}
	if err := os.WriteFile(r.out, b, 0o644); err != nil {
		panic(err)
	}
}

// Try runs f and converts a panic into a description. kind is "" when f
// returned normally, "fault" for a memory fault (runtime.Error with Addr),
// "runtime" for other runtime errors (index out of range, nil deref), and
// "panic" for explicit panics.
func Try(f func()) (kind string, msg string) {
	defer func() {
		if e := recover(); e != nil {
			msg = fmt.Sprint(e)
			kind = "panic"
			if _, ok := e.(interface{ Addr() uintptr }); ok {
				kind = "fault"
			} else if re, ok := e.(interface{ RuntimeError() }); ok {
				_ = re
				kind = "runtime"
			}
		}
	}()
	f()
	return "", ""
}

// TryFault is Try with SetPanicOnFault enabled for the calling goroutine.
func TryFault(f func()) (kind string, msg string) {
	old := debug.SetPanicOnFault(true)
	defer debug.SetPanicOnFault(old)
	return Try(f)
}

// TryTimeout is Try on a separate goroutine with a watchdog: a call that has not returned after limit is reported as
// kind "hang" and abandoned (its goroutine keeps running until the process exits). The limit is meant to be four or
// more orders of magnitude above the normal duration of the call - it tells "never returns" from "returns", it is not
// a performance oracle.
func TryTimeout(f func(), limit time.Duration) (kind string, msg string) {
	type res struct{ kind, msg string }
	ch := make(chan res, 1)
	go func() {
		k, m := Try(f)
		ch <- res{k, m}
	}()
	select {
	case r := <-ch:
		return r.kind, r.msg
	case <-time.After(limit):
		return "hang", fmt.Sprintf("the call did not return within %s", limit)
	}
}

//go:build verif

package sm2_test

import (
	"bytes"
	"encoding/json"
	"fmt"
	"math/big"
	"testing"

	"github.com/bilibili/smgo/sm2"
	"verif/refs/sm2ref"
	"verif/vx"
)

type c01case struct {
	Entry string // hashed | za | full
	Shape string
	D     string // private key bytes as handed to the signer (possibly short)
	E     string // digest (hashed)
	K     string // nonce
	ZA    string // za (za entry)
	ID    string // id (full entry)
	Msg   string
	WantR string // intended r,s (when solved) - informational
	WantS string
}

// c01run signs through the entry point and verifies through the matching one.
func c01run(r *vx.R, c c01case) (rr, ss []byte, okShape bool) {
	r.Eval(1)
	d := vx.UnHex(c.D)
	k := vx.UnHex(c.K)
	dv := bi(d)
	px, py := sm2ref.Pub(dv)
	var err error
	var ok bool
	var verr error
	kind, msg := vx.Try(func() {
		switch c.Entry {
		case "hashed":
			rr, ss, err = sm2.SignHashed(stream(k, k), d, vx.UnHex(c.E))
		case "za":
			rr, ss, err = sm2.SignZa(stream(k, k), d, vx.UnHex(c.ZA), vx.UnHex(c.Msg))
		case "full":
			rr, ss, err = sm2.Sign(vx.UnHex(c.ID), px, py, stream(k, k), d, vx.UnHex(c.Msg))
		}
	})
	if kind != "" {
		r.Violation("c01:sign-panic:"+c.Entry, fmt.Sprintf("signing panicked: %s", msg), c)
		return nil, nil, false
	}
	if err != nil {
		r.Violation("c01:sign-error:"+c.Entry, fmt.Sprintf("signing with a valid key failed: %v", err), c)
		return nil, nil, false
	}
	if len(rr) != 32 || len(ss) != 32 {
		r.Violation("c01:sig-length:"+c.Entry, fmt.Sprintf("signature components have %d and %d bytes", len(rr), len(ss)), c)
	}
	keepR, keepS := append([]byte{}, rr...), append([]byte{}, ss...)
	kind, msg = vx.Try(func() {
		switch c.Entry {
		case "hashed":
			ok, verr = sm2.VerifyHashed(px, py, vx.UnHex(c.E), rr, ss)
		case "za":
			ok, verr = sm2.VerifyZa(px, py, vx.UnHex(c.ZA), vx.UnHex(c.Msg), rr, ss)
		case "full":
			ok, verr = sm2.Verify(vx.UnHex(c.ID), px, py, vx.UnHex(c.Msg), rr, ss)
		}
	})
	t := modN(new(big.Int).Add(bi(keepR), bi(keepS)))
	cls := fmt.Sprintf("zr%d:zs%d:zt%d", lzb(keepR), lzb(keepS), lzb(b32(t)))
	if kind != "" {
		r.Violation(fmt.Sprintf("c01:verify-panic:%s:%s", c.Entry, zclass(keepR, keepS, t)), fmt.Sprintf("verification of the library's own signature panicked (%s): %s", cls, msg), c)
		return rr, ss, false
	}
	if !ok || verr != nil {
		r.Violation(fmt.Sprintf("c01:verify-reject:%s:%s", c.Entry, zclass(keepR, keepS, t)), fmt.Sprintf("the library's own signature (%s) was rejected: ok=%v err=%v", cls, ok, verr), c)
		return rr, ss, false
	}
	r.Shape(c.Entry + ":" + cls + ":" + fmt.Sprintf("dlen%d", len(d)))
	return rr, ss, true
}

func zclass(r, s []byte, t *big.Int) string {
	f := func(z int) string {
		if z == 0 {
			return "0"
		}
		return "+"
	}
	return fmt.Sprintf("zr%s-zs%s-zt%s", f(lzb(r)), f(lzb(s)), f(lzb(b32(t))))
}

// solve (k, e) for a wanted (r, s, d): k = s(1+d) + r d, e = r - x([k]G)
func c01solveHashed(rv, sv, d *big.Int) (k, e *big.Int, ok bool) {
	k = modN(new(big.Int).Add(new(big.Int).Mul(sv, new(big.Int).Add(d, bigOne)), new(big.Int).Mul(rv, d)))
	if k.Sign() == 0 || modN(new(big.Int).Add(rv, k)).Sign() == 0 {
		return nil, nil, false
	}
	if rv.Sign() == 0 || sv.Sign() == 0 || modN(new(big.Int).Add(rv, sv)).Sign() == 0 {
		return nil, nil, false
	}
	e = modN(new(big.Int).Sub(rv, sm2ref.BaseMul(k).X))
	return k, e, true
}

func TestVX_C01(t *testing.T) {
	r := vx.Begin("C01", "sign-verify", "signatures with chosen shapes are *solved for*: for wanted (r,s) resp. (r,t) resp. (s,t) with z in Z leading zero bytes each (Z = {0,1,2,3,4,8,16,24,30,31} quick, 0..31 thorough) x fills {minimal, maximal, seeded} and key d from {seeded 32-byte, 1-byte 1/2/255, 31-byte, n-2}: k=s(1+d)+rd, e=r-x([k]G); SignHashed must then produce them and VerifyHashed must accept. SignZa/VerifyZa: e=SM3(za||M) fixed, k chosen, d solved for every z_t and z_s, z_r reached by stepping k. Sign/Verify: d fixed, k stepped until z_r,z_s,z_t in {1 (quick), 2 (thorough)} occurred. Rejected first candidates (k=0, k>=n, r=0, r+k=n), also followed by a candidate whose r has a leading zero byte. Keys d and n-d in alternation; za passed as the head of a record holding the key material. Oracle: verify==(true,nil), no panic, 32-byte r,s. Shape=(entry, z_r, z_s, z_t, key length)")
	defer r.End()
	selfCheck()
	if raw, ok := vx.Replay("sign-verify"); ok {
		var c c01case
		json.Unmarshal(raw, &c)
		if c.Entry == "hashed-stream" {
			kk := vx.UnHex(c.K)
			d := vx.UnHex(c.D)
			px, py := sm2ref.Pub(bi(d))
			rr, ss, err := sm2.SignHashed(stream(kk[:32], kk[32:], b32(big.NewInt(99))), d, vx.UnHex(c.E))
			ok := false
			if err == nil {
				ok, _ = sm2.VerifyHashed(px, py, vx.UnHex(c.E), rr, ss)
			}
			r.Eval(1)
			if err != nil || !ok {
				r.Violation("c01:stream-verify-reject:replay", "replayed stream case still fails", c)
			}
			return
		}
		c01run(r, c)
		return
	}
	Z := []int{0, 1, 2, 3, 4, 8, 16, 24, 30, 31}
	if vx.Thorough() {
		Z = nil
		for z := 0; z < 32; z++ {
			Z = append(Z, z)
		}
	}
	type key struct {
		name string
		d    *big.Int
		enc  func(*big.Int) []byte
	}
	full := func(d *big.Int) []byte { return b32(d) }
	strip := func(d *big.Int) []byte { return d.Bytes() }
	keys := []key{
		{"seeded", modN(bi(vx.Fill("c01d", 32))), full},
		{"one", big.NewInt(1), strip}, {"two", big.NewInt(2), strip}, {"255", big.NewInt(255), strip},
		{"b31", bi(vx.Fill("c01d31", 31)), strip}, {"n-2", new(big.Int).Sub(bigN, big.NewInt(2)), full},
	}
	n := 0
	missed := 0
	// ---------------- digest level: all three pairings of (r, s, t)
	for _, mode := range []string{"rs", "rt", "st"} {
		for _, za := range Z {
			for _, zb := range Z {
				for fill := 0; fill < 3; fill++ {
					n++
					if !vx.MineIdx(n) {
						continue
					}
					if r.Expired() {
						return
					}
					a := shaped(za, fill, mode+"a")
					b := shaped(zb, (fill+za)%3, mode+"b")
					var rv, sv *big.Int
					switch mode {
					case "rs":
						rv, sv = a, b
					case "rt":
						rv, sv = a, modN(new(big.Int).Sub(b, a))
					case "st":
						sv, rv = a, modN(new(big.Int).Sub(b, a))
					}
					kk := keys[(n/3)%len(keys)]
					if fill == 0 {
						kk = keys[0]
					}
					k, e, ok := c01solveHashed(rv, sv, kk.d)
					if !ok {
						missed++
						continue
					}
					c := c01case{Entry: "hashed", Shape: fmt.Sprintf("%s:%d:%d:f%d:%s", mode, za, zb, fill, kk.name), D: vx.Hex(kk.enc(kk.d)), E: vx.Hex(b32(e)), K: vx.Hex(b32(k)),
						WantR: vx.Hex(b32(rv)), WantS: vx.Hex(b32(sv))}
					rr, ss, _ := c01run(r, c)
					if rr != nil && (!bytes.Equal(rr, b32(rv)) || !bytes.Equal(ss, b32(sv))) {
						r.Add("solved_shape_not_produced", 1) // the signer returned something else (C02's business); still verified above
					}
					r.Sample(c)
				}
			}
		}
	}
	// ---------------- digests at and above n (the signer reduces e mod n; the verifier must do the same)
	{
		d := keys[0].d
		for ei, ev := range []*big.Int{bigN, new(big.Int).Add(bigN, bigOne), new(big.Int).Sub(new(big.Int).Lsh(bigOne, 256), bigOne),
			new(big.Int).Lsh(big.NewInt(0xffffffff), 224), new(big.Int).Sub(bigN, bigOne), big.NewInt(0)} {
			for ki := 0; ki < 3; ki++ {
				n++
				if !vx.MineIdx(n) {
					continue
				}
				k := modN(bi(vx.Fill(fmt.Sprintf("c01ek%d", ki), 32)))
				c := c01case{Entry: "hashed", Shape: fmt.Sprintf("bigdigest:%d:%d", ei, ki), D: vx.Hex(b32(d)), E: vx.Hex(b32(ev)), K: vx.Hex(b32(k))}
				c01run(r, c)
				r.Sample(c)
			}
		}
	}
	// ---------------- nonce streams whose first candidate is rejected (k=0, k>=n, and e solved so that r=0 resp. r+k=n for
	// the first candidate): whatever the signer finally returns must verify
	{
		d := keys[0].d
		k1 := modN(bi(vx.Fill("c01rk1", 32)))
		k2 := modN(bi(vx.Fill("c01rk2", 32)))
		x1 := sm2ref.BaseMul(k1).X
		eR0 := modN(new(big.Int).Neg(x1))
		eRK := modN(new(big.Int).Sub(new(big.Int).Sub(bigN, k1), x1))
		eFree := bi(vx.Fill("c01re", 32))
		type rej struct {
			name  string
			first *big.Int
			e     *big.Int
		}
		// the same rejections followed by a candidate whose r has a leading zero byte (k2 searched where e is already
		// taken by the rejection; e solved otherwise): nothing of the rejected candidate may survive into the output
		shortK := func(e *big.Int) *big.Int {
			lim := new(big.Int).Lsh(bigOne, 248)
			for t := int64(3); t < 6000; t++ {
				k := big.NewInt(t)
				rr := modN(new(big.Int).Add(e, sm2ref.BaseMul(k).X))
				if rr.Sign() != 0 && rr.Cmp(lim) < 0 && new(big.Int).Add(rr, k).Cmp(bigN) != 0 {
					return k
				}
			}
			panic("harness: no candidate with a short r found")
		}
		eShort := modN(new(big.Int).Sub(bi(append([]byte{0, 0x91}, vx.Fill("c01zr2", 30)...)), sm2ref.BaseMul(k2).X))
		rejs := []rej{{"K0", big.NewInt(0), eFree}, {"Kn", bigN, eFree}, {"Kmax", new(big.Int).Sub(new(big.Int).Lsh(bigOne, 256), bigOne), eFree},
			{"R0", k1, eR0}, {"RK", k1, eRK}}
		seconds := map[string]*big.Int{}
		for _, rc := range []rej{{"K0+short-r", big.NewInt(0), eShort}, {"Kmax+short-r", new(big.Int).Sub(new(big.Int).Lsh(bigOne, 256), bigOne), eShort},
			{"R0+short-r", k1, eR0}, {"RK+short-r", k1, eRK}} {
			rejs = append(rejs, rc)
			if rc.e == eShort {
				seconds[rc.name] = k2
			} else {
				seconds[rc.name] = shortK(rc.e)
			}
		}
		for _, rc := range rejs {
			k2 := k2
			if s2, ok := seconds[rc.name]; ok {
				k2 = s2
			}
			n++
			if !vx.MineIdx(n) {
				continue
			}
			// the key as 32 bytes, and keys handed over in 31 bytes and in 1 byte (the rejections by r = 0 and r + k = n do not
			// depend on the key): whatever a signer does when it abandons a candidate, the next one is signed with the same key
			short31 := vx.Fill("c01stream-d31", 31)
			short31[0] |= 1
			for ei, dEnc := range [][]byte{b32(d), short31, {0x07}} {
				r.Eval(1)
				px, py := sm2ref.Pub(bi(dEnc))
				cs := c01case{Entry: "hashed-stream", Shape: fmt.Sprintf("reject:%s:keylen%d", rc.name, len(dEnc)), D: vx.Hex(dEnc), E: vx.Hex(b32(rc.e)), K: vx.Hex(b32(rc.first)) + vx.Hex(b32(k2))}
				var rr, ss []byte
				var err error
				var ok bool
				kind, msg := vx.Try(func() {
					rr, ss, err = sm2.SignHashed(stream(b32(rc.first), b32(k2), b32(big.NewInt(99))), dEnc, b32(rc.e))
					if err == nil {
						ok, _ = sm2.VerifyHashed(px, py, b32(rc.e), rr, ss)
					}
				})
				if kind != "" {
					r.Violation("c01:stream-panic:"+rc.name, msg, cs)
				} else if err != nil {
					r.Violation("c01:stream-sign-error:"+rc.name, fmt.Sprintf("signing failed although the stream holds an acceptable nonce after the rejected %s candidate: %v", rc.name, err), cs)
				} else if !ok {
					r.Violation("c01:stream-verify-reject:"+rc.name, fmt.Sprintf("first candidate is a %s case (key handed over in %d bytes); the signature the signer returned (r=%x s=%x) is rejected by the verifier", rc.name, len(dEnc), rr, ss), cs)
				}
				r.Shape(fmt.Sprintf("stream:%s:%d", rc.name, ei))
				r.Sample(cs)
			}
		}
	}
	// ---------------- a nonce whose x1 = x([k]G) lies within 2^224 of the top of the range (a witness found once by a 2^32
	// search; checked against the reference here) with digests around 2n - x1 and the largest digests: only then does
	// e + x1 reach 2n, and r = (e + x1) mod n needs more than one subtraction. The library's own signature must verify.
	{
		n++
		if vx.MineIdx(n) {
			kW := vx.UnHex("243f6a8885a308d313198a2e03707344a4093822299f31d0082ffa9906293036")
			x1 := sm2ref.BaseMul(bi(kW)).X
			twoN := new(big.Int).Lsh(bigN, 1)
			lim := new(big.Int).Lsh(bigOne, 256)
			if new(big.Int).Add(x1, new(big.Int).Sub(lim, bigOne)).Cmp(twoN) < 0 {
				panic("harness: the witness nonce does not have a top-range x1")
			}
			base := new(big.Int).Sub(twoN, x1)
			for ki, kv := range keys {
				if ki >= 3 {
					break
				}
				px, py := sm2ref.Pub(kv.d)
				for off := int64(-2); off <= 2; off++ {
					for _, ev := range []*big.Int{new(big.Int).Add(base, big.NewInt(off)), new(big.Int).Sub(lim, big.NewInt(1+off*off))} {
						if ev.Sign() < 0 || ev.Cmp(lim) >= 0 {
							continue
						}
						r.Eval(1)
						e := b32(ev)
						cs := c01case{Entry: "hashed", Shape: "top-x1:" + kv.name, D: vx.Hex(b32(kv.d)), E: vx.Hex(e), K: vx.Hex(kW)}
						var rr, ss []byte
						var err error
						var ok bool
						var verr error
						kind, msg := vx.Try(func() {
							rr, ss, err = sm2.SignHashed(stream(kW, b32(big.NewInt(0x3333))), b32(kv.d), e)
							if err == nil {
								ok, verr = sm2.VerifyHashed(px, py, e, rr, ss)
							}
						})
						if kind != "" || err != nil {
							r.Violation("c01:top-x1:fail", fmt.Sprintf("%s %v", msg, err), cs)
						} else if !ok {
							r.Violation("c01:top-x1:verify-reject", fmt.Sprintf("nonce with x1 near 2^256 and digest %x (e + x1 >= 2n - 2): the library's own signature (r=%x s=%x) is rejected: %v", e, rr, ss, verr), cs)
						}
						r.Shape(fmt.Sprintf("top-x1:%s:%d:%x", kv.name, off, ev.Bit(255)))
					}
				}
			}
		}
	}
	// ---------------- related keys in alternation (d and n-d: public keys with equal x and opposite y), and za handed over
	// as the head of a record that continues with the key material: every signature verifies under its own key
	{
		n++
		if vx.MineIdx(n) {
			d := keys[0].d
			dn := new(big.Int).Sub(bigN, d)
			e := vx.Fill("c01pair", 32)
			kk := b32(modN(bi(vx.Fill("c01pairk", 32))))
			za := vx.Fill("c01pairza", 32)
			msg := vx.Fill("c01pairmsg", 20)
			for round := 0; round < 3; round++ {
				for _, dv := range []*big.Int{d, dn} {
					if !sm2ref.ValidKey(dv) {
						continue
					}
					r.Eval(2)
					px, py := sm2ref.Pub(dv)
					cs := c01case{Entry: "hashed-stream", Shape: fmt.Sprintf("negated-pair:round%d", round), D: vx.Hex(b32(dv)), E: vx.Hex(e), K: vx.Hex(kk) + vx.Hex(kk)}
					var ok1, ok2 bool
					var err error
					kind, msg2 := vx.Try(func() {
						var rr, ss []byte
						rr, ss, err = sm2.SignHashed(stream(kk, kk), b32(dv), e)
						if err == nil {
							ok1, _ = sm2.VerifyHashed(px, py, e, rr, ss)
						}
						// za || priv and za || pubx || puby as records
						srec := append(append([]byte{}, za...), b32(dv)...)
						vrec := append(append(append([]byte{}, za...), px...), py...)
						r2, s2, e2 := sm2.SignZa(stream(kk, kk), srec[32:], srec[:32], msg)
						if e2 == nil {
							ok2, _ = sm2.VerifyZa(vrec[32:64], vrec[64:], vrec[:32], msg, r2, s2)
						}
					})
					if kind != "" || err != nil {
						r.Violation("c01:pair:fail", fmt.Sprintf("%s %v", msg2, err), cs)
					} else if !ok1 {
						r.Violation("c01:pair:verify-reject:hashed", "the library's own signature is rejected when keys d and n-d are used in alternation", cs)
					} else if !ok2 {
						r.Violation("c01:pair:verify-reject:za-record", "SignZa / VerifyZa with za as the head of a record that continues with the key material: the library's own signature is rejected", cs)
					}
				}
			}
			r.Shape("negated-pairs")
		}
	}
	// ---------------- SignZa / VerifyZa: e fixed by (za, M); k chosen; s or t shaped; d solved
	for mi, ml := range []int{0, 1, 23, 32, 55, 119} {
		za := vx.Fill(fmt.Sprintf("c01za%d", mi), 32)
		msg := vx.Fill(fmt.Sprintf("c01msg%d", mi), ml)
		ev := sm2ref.E(za, msg)
		e := bi(ev[:])
		k := modN(bi(vx.Fill(fmt.Sprintf("c01zk%d", mi), 32)))
		rv := modN(new(big.Int).Add(e, sm2ref.BaseMul(k).X))
		for _, z := range Z {
			for which := 0; which < 2; which++ { // 0: shape s, 1: shape t
				for fill := 0; fill < 3; fill++ {
					n++
					if !vx.MineIdx(n) {
						continue
					}
					v := shaped(z, fill, "za")
					sv := v
					if which == 1 {
						sv = modN(new(big.Int).Sub(v, rv))
					}
					tv := modN(new(big.Int).Add(rv, sv))
					if sv.Sign() == 0 || tv.Sign() == 0 {
						missed++
						continue
					}
					d := modN(new(big.Int).Mul(new(big.Int).Sub(k, sv), invN(tv)))
					if !sm2ref.ValidKey(d) || modN(new(big.Int).Add(rv, k)).Sign() == 0 {
						missed++
						continue
					}
					c := c01case{Entry: "za", Shape: fmt.Sprintf("za:m%d:w%d:z%d:f%d", ml, which, z, fill), D: vx.Hex(b32(d)), K: vx.Hex(b32(k)), ZA: vx.Hex(za), Msg: vx.Hex(msg)}
					c01run(r, c)
					r.Sample(c)
				}
			}
		}
	}
	// ---------------- stepping k: z_r on the za entry; z_r, z_s, z_t on the full entry
	maxZ := 1
	budget := 4000
	if vx.Thorough() {
		maxZ = 2
		budget = 600000
	}
	i0, ns := vx.Shard()
	d := modN(bi(vx.Fill("c01dfull", 32)))
	px, py := sm2ref.Pub(d)
	_ = px
	_ = py
	for _, entry := range []string{"za", "full"} {
		id := []byte("1234567812345678")
		msg := vx.Fill("c01stepmsg", 40)
		za := vx.Fill("c01stepza", 32)
		hit := map[string]bool{}
		need := 0
		for z := 1; z <= maxZ; z++ {
			need += 3
		}
		for step := i0 + 1; step < budget && len(hit) < need; step += ns {
			k := b32(big.NewInt(int64(step)*0x10001 + 12345))
			var rr, ss []byte
			var err error
			if entry == "za" {
				rr, ss, err = sm2.SignZa(stream(k, k), b32(d), za, msg)
			} else {
				rr, ss, err = sm2.Sign(id, px, py, stream(k, k), b32(d), msg)
			}
			if err != nil || len(rr) != 32 || len(ss) != 32 {
				continue
			}
			tv := b32(modN(new(big.Int).Add(bi(rr), bi(ss))))
			for name, v := range map[string][]byte{"r": rr, "s": ss, "t": tv} {
				z := lzb(v)
				if z >= 1 && z <= maxZ && !hit[fmt.Sprintf("%s%d", name, z)] {
					hit[fmt.Sprintf("%s%d", name, z)] = true
					c := c01case{Entry: entry, Shape: fmt.Sprintf("step:%s:z%s=%d", entry, name, z), D: vx.Hex(b32(d)), K: vx.Hex(k), ZA: vx.Hex(za), ID: vx.Hex(id), Msg: vx.Hex(msg)}
					c01run(r, c)
					r.Sample(c)
				}
			}
		}
		r.Set("stepped_shapes_"+entry, fmt.Sprintf("%v", hit))
	}
	r.Add("unsolvable_shapes_skipped", int64(missed))
}

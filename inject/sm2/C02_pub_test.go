//go:build verif

package sm2_test

import (
	"bytes"
	"encoding/json"
	"fmt"
	"math/big"
	"strings"
	"testing"

	"github.com/bilibili/smgo/sm2"
	"verif/refs/sm2ref"
	"verif/vx"
)

// One candidate of a nonce stream.
//
//	OK    acceptable k
//	K0    k = 0             Kn k = n        Kn1 k = n+1      Kmax k = 2^256-1
//	R0    e solved so that r = 0 for this k           (uses the e degree of freedom)
//	RK    e solved so that r + k = n for this k       (uses the e degree of freedom)
//	S0    d solved so that s = 0 for this (k, e)      (uses the d degree of freedom)
type c02case struct {
	Kinds []string // candidate kinds in stream order, last one is OK
	Key   string   // key class or hex
	E     string   // digest class
	// resolved values (hex) - filled by the generator so that replay needs no solving
	D      string
	Digest string
	Stream []string
	// Served: the nonce stream is delivered by a servedReader (answers produced by another goroutine while the caller's
	// stack is moved) and the call is made on a fresh goroutine
	Served bool
	// Pool: the stream is delivered by a poolReader (a type with Len() that reports at most 16 buffered bytes and hands
	// out at most 16 bytes per Read)
	Pool bool
}

func c02solve(kinds []string, keyClass, eClass string) (c c02case, ok bool) {
	c = c02case{Kinds: kinds, Key: keyClass, E: eClass}
	// candidate k values
	ks := make([]*big.Int, len(kinds))
	okVals := []*big.Int{big.NewInt(1), big.NewInt(2), new(big.Int).Sub(bigN, bigOne), modN(bi(vx.Fill("c02k", 32)))}
	for i, kd := range kinds {
		switch kd {
		case "K0":
			ks[i] = big.NewInt(0)
		case "Kn":
			ks[i] = new(big.Int).Set(bigN)
		case "Kn1":
			ks[i] = new(big.Int).Add(bigN, bigOne)
		case "Kmax":
			ks[i] = new(big.Int).Sub(new(big.Int).Lsh(bigOne, 256), bigOne)
		default: // OK, OKZ
			ks[i] = modN(new(big.Int).Add(okVals[(i+len(kinds))%len(okVals)], big.NewInt(int64(7*i))))
			if ks[i].Sign() == 0 {
				ks[i].SetInt64(5)
			}
		}
	}
	// digest
	var e *big.Int
	switch eClass {
	case "0":
		e = big.NewInt(0)
	case "1":
		e = big.NewInt(1)
	case "n-1":
		e = new(big.Int).Sub(bigN, bigOne)
	case "n":
		e = new(big.Int).Set(bigN)
	case "max":
		e = new(big.Int).Sub(new(big.Int).Lsh(bigOne, 256), bigOne)
	default:
		e = bi(vx.Fill("c02e"+eClass, 32))
	}
	for i, kd := range kinds {
		if kd == "R0" || kd == "RK" {
			x := sm2ref.BaseMul(ks[i]).X
			if kd == "R0" {
				e = modN(new(big.Int).Neg(x))
			} else {
				e = modN(new(big.Int).Sub(new(big.Int).Sub(bigN, ks[i]), x))
			}
			if eClass == "max" { // same residue, non-canonical representative where it fits
				if t := new(big.Int).Add(e, bigN); t.BitLen() <= 256 {
					e = t
				}
			}
		}
	}
	// OKZ: the accepted candidate's r gets a leading zero byte. Without an e-solved rejection in the stream the digest
	// is solved for it; otherwise (e is taken) the candidate k itself is searched.
	last := len(kinds) - 1
	if kinds[last] == "OKZ" {
		eTaken := false
		for _, kd := range kinds {
			eTaken = eTaken || kd == "R0" || kd == "RK"
		}
		if !eTaken {
			target := bi(append([]byte{0, 0x80}, vx.Fill("c02zr", 30)...))
			e = modN(new(big.Int).Sub(target, sm2ref.BaseMul(ks[last]).X))
		} else {
			lim := new(big.Int).Lsh(bigOne, 248)
			found := false
			for t := int64(3); t < 6000; t++ {
				k := big.NewInt(t)
				r := modN(new(big.Int).Add(e, sm2ref.BaseMul(k).X))
				if r.Sign() != 0 && r.Cmp(lim) < 0 && new(big.Int).Add(r, k).Cmp(bigN) != 0 {
					ks[last], found = k, true
					break
				}
			}
			if !found {
				return c, false
			}
		}
	}
	// key
	var d *big.Int
	dBytes := []byte(nil)
	if strings.HasPrefix(keyClass, "hex:") {
		dBytes = vx.UnHex(keyClass[4:])
		d = bi(dBytes)
	}
	switch keyClass {
	case "1":
		d = big.NewInt(1)
	case "2":
		d = big.NewInt(2)
	case "n-3":
		d = new(big.Int).Sub(bigN, big.NewInt(3))
	case "n-2":
		d = new(big.Int).Sub(bigN, big.NewInt(2))
	case "short1":
		d = big.NewInt(0x7b)
		dBytes = []byte{0x7b}
	case "short31":
		d = bi(vx.Fill("c02d31", 31))
		dBytes = b32(d)[1:]
	default:
		if d == nil {
			d = modN(bi(vx.Fill("c02d", 32)))
		}
	}
	for i, kd := range kinds {
		if kd == "S0" {
			r := modN(new(big.Int).Add(e, sm2ref.BaseMul(ks[i]).X))
			if r.Sign() == 0 {
				return c, false
			}
			d = modN(new(big.Int).Mul(ks[i], invN(r)))
			dBytes = nil
			if !sm2ref.ValidKey(d) {
				return c, false
			}
		}
	}
	if dBytes == nil {
		dBytes = b32(d)
	}
	c.D = vx.Hex(dBytes)
	c.Digest = vx.Hex(b32(e))
	for _, k := range ks {
		c.Stream = append(c.Stream, vx.Hex(b32(k)))
	}
	return c, true
}

func c02eval(r *vx.R, c c02case) {
	if !c.Served {
		c02evalOne(r, c)
	}
	c.Served = true
	c02evalOne(r, c)
	if !c.Pool {
		c.Served, c.Pool = false, true
		c02evalOne(r, c)
	}
}

func c02evalOne(r *vx.R, c c02case) {
	r.Eval(1)
	d, e := vx.UnHex(c.D), vx.UnHex(c.Digest)
	var cands [][]byte
	for _, s := range c.Stream {
		cands = append(cands, vx.UnHex(s))
	}
	// two spare acceptable candidates behind the scripted ones, so that a wrongly rejected candidate shows up as a different signature, not as EOF
	cands = append(cands, b32(big.NewInt(0x1111)), b32(big.NewInt(0x2222)))
	want, werr := sm2ref.Sign(stream(cands...), bi(d), e)
	rd := stream(cands...)
	var rr, ss []byte
	var err error
	var kind, msg string
	if c.Pool {
		kind, msg = vx.Try(func() { rr, ss, err = sm2.SignHashed(poolReader{rd}, d, e) })
	} else if c.Served {
		onFresh(func() { kind, msg = vx.Try(func() { rr, ss, err = sm2.SignHashed(&servedReader{inner: rd}, d, e) }) })
	} else {
		kind, msg = vx.Try(func() { rr, ss, err = sm2.SignHashed(rd, d, e) })
	}
	if kind != "" {
		r.Violation("sign:panic", fmt.Sprintf("SignHashed panicked (kinds %v): %s", c.Kinds, msg), c)
		return
	}
	if werr != nil {
		panic("harness: reference refused a generated case: " + werr.Error())
	}
	if err != nil {
		r.Violation("sign:error", fmt.Sprintf("SignHashed failed (kinds %v): %v", c.Kinds, err), c)
		return
	}
	// classify: which candidate did the implementation use?
	if !bytes.Equal(rr, want.R) || !bytes.Equal(ss, want.S) {
		used := rd.pos/32 - 1
		wantUsed := want.Consumed/32 - 1
		cls := "value"
		if used != wantUsed && used >= 0 && used < len(c.Kinds) {
			cls = "accepted-" + c.Kinds[used]
		} else if used != wantUsed && wantUsed >= 0 && wantUsed < len(c.Kinds) {
			cls = fmt.Sprintf("skipped-%s", c.Kinds[wantUsed])
		} else if used != wantUsed {
			cls = "other-candidate"
		}
		r.Violation("sign:wrong:"+cls, fmt.Sprintf("SignHashed(kinds %v, key %s, e %s) = (%x,%x) using candidate #%d; GM/T 0003.2 gives (%x,%x) from candidate #%d", c.Kinds, c.Key, c.E, rr, ss, used, want.R, want.S, wantUsed), c)
	} else if rd.pos != want.Consumed {
		r.Violation("sign:consumed", fmt.Sprintf("consumed %d bytes, reference %d", rd.pos, want.Consumed), c)
	}
	if len(rr) != 32 || len(ss) != 32 {
		r.Violation("sign:length", fmt.Sprintf("r,s lengths %d,%d", len(rr), len(ss)), c)
	}
	r.Shape(fmt.Sprintf("%v:%s:%s:served=%v:pool=%v", c.Kinds, c.Key, c.E, c.Served, c.Pool))
}

type c02bad struct {
	Key  string
	Name string
}

func TestVX_C02(t *testing.T) {
	r := vx.Begin("C02", "sign-exact", "SignHashed on deviation-bounded nonce streams: every sequence of <=D (quick 2, thorough 3) rejected candidates from {K0 (k=0), Kn, Kn1, Kmax, R0 (e solved: r=0), RK (e solved: r+k=n), S0 (d solved: s=0)} - at most one e-solved and one d-solved per stream - followed by an acceptable k, x key classes {1,2,n-3,n-2,1-byte,31-byte,seeded} x digest classes {0,1,n-1,n,2^256-1,seeded}; an accepted candidate whose r has a leading zero byte, alone and after each kind of rejection (R0/RK/S0 and pairs); keys of every encoding length 1..31 x {ff.., 01 00.., 00..01, 00 ff.., prefix of n-1, seeded} and 32-byte keys with 1..31 leading zero bytes; one key / digest buffer reloaded with other keys between calls; a witness nonce with x1 within 2^224 of 2^256 with digests around 2n-x1 (e + x1 >= 2n); runs of m identical (and mixed) rejected candidates, m in {3..1000} [thorough: 4096, 65536]; oracle sm2ref.Sign on the same stream (equal r,s byte for byte, equal bytes consumed). Invalid keys {empty, zero in 1/31/32 bytes, n-1, n, n+1, 2^256-1, 33 bytes}: error, nil r,s, nothing drawn. Shape=(stream kinds, key class, digest class)")
	defer r.End()
	selfCheck()
	if raw, ok := vx.Replay("sign-exact"); ok {
		var probe map[string]interface{}
		json.Unmarshal(raw, &probe)
		if _, isBad := probe["Name"]; isBad {
			var c c02bad
			json.Unmarshal(raw, &c)
			c02badKey(r, c)
			return
		}
		var c c02case
		json.Unmarshal(raw, &c)
		c02eval(r, c)
		return
	}
	D := 2
	if vx.Thorough() {
		D = 3
	}
	devs := []string{"K0", "Kn", "Kn1", "Kmax", "R0", "RK", "S0"}
	var streams [][]string
	var rec func(prefix []string, usedE, usedD bool)
	rec = func(prefix []string, usedE, usedD bool) {
		streams = append(streams, append(append([]string{}, prefix...), "OK"))
		if len(prefix) == D {
			return
		}
		for _, dv := range devs {
			ue, ud := usedE, usedD
			if dv == "R0" || dv == "RK" {
				if usedE {
					continue
				}
				ue = true
			}
			if dv == "S0" {
				if usedD {
					continue
				}
				ud = true
			}
			rec(append(append([]string{}, prefix...), dv), ue, ud)
		}
	}
	rec(nil, false, false)
	r.Set("streams", len(streams))
	keys := []string{"1", "2", "n-3", "n-2", "short1", "short31", "seeded"}
	es := []string{"0", "1", "n-1", "n", "max", "seeded"}
	n := 0
	unsolved := 0
	for _, st := range streams {
		for _, k := range keys {
			for _, e := range es {
				n++
				if !vx.MineIdx(n) {
					continue
				}
				hasE, hasD := false, false
				for _, kd := range st {
					hasE = hasE || kd == "R0" || kd == "RK"
					hasD = hasD || kd == "S0"
				}
				if hasE && e != "seeded" && e != "max" {
					continue // e is solved: only the canonical and the +n representative are distinct classes
				}
				if hasD && k != "seeded" {
					continue // d is solved
				}
				c, ok := c02solve(st, k, e)
				if !ok {
					unsolved++
					continue
				}
				c02eval(r, c)
				r.Sample(c)
			}
		}
	}
	r.Add("unsolvable_combinations_skipped", int64(unsolved))
	// (b) accepted candidate whose r has a leading zero byte, alone and after every kind of rejected candidate (a stale
	// byte of a rejected candidate's r or s must not survive into the output)
	for _, st := range [][]string{{"OKZ"}, {"K0", "OKZ"}, {"Kmax", "OKZ"}, {"R0", "OKZ"}, {"RK", "OKZ"}, {"S0", "OKZ"}, {"RK", "S0", "OKZ"}, {"S0", "RK", "OKZ"}, {"R0", "S0", "OKZ"}} {
		n++
		if !vx.MineIdx(n) {
			continue
		}
		c, ok := c02solve(st, "seeded", "seeded")
		if !ok {
			unsolved++
			continue
		}
		c02eval(r, c)
		r.Sample(c)
	}
	// (c) keys in every encoding length 1..31 (the value is what counts) and 32-byte keys with leading zero bytes
	nm1 := b32(new(big.Int).Sub(bigN, bigOne))
	for l := 1; l <= 32; l++ {
		pats := map[string][]byte{}
		if l < 32 {
			pats["ff"] = bytes.Repeat([]byte{0xff}, l)
			pats["01zeros"] = append([]byte{1}, make([]byte, l-1)...)
			pats["zeros01"] = append(make([]byte, l-1), 1)
			pats["nm1prefix"] = append([]byte{}, nm1[:l]...)
			pats["seeded"] = vx.Fill(fmt.Sprintf("c02short%d", l), l)
			if l >= 2 {
				pats["00ff"] = append([]byte{0}, bytes.Repeat([]byte{0xff}, l-1)...)
			}
		} else {
			for _, z := range []int{1, 2, 3, 4, 8, 16, 24, 31} {
				pats[fmt.Sprintf("lead%dzero", z)] = append(make([]byte, z), bytes.Repeat([]byte{0xff}, 32-z)...)
			}
		}
		for _, pn := range sortedNames(pats) {
			for _, st := range [][]string{{"OK"}, {"Kmax", "OK"}} {
				n++
				if !vx.MineIdx(n) {
					continue
				}
				c, ok := c02solve(st, "hex:"+vx.Hex(pats[pn]), "seeded")
				if !ok {
					unsolved++
					continue
				}
				c.Key = fmt.Sprintf("len%d:%s", l, pn)
				c02eval(r, c)
				if l%8 == 1 {
					r.Sample(c)
				}
			}
		}
	}
	// (d) long runs of rejected candidates: the signer keeps drawing however many candidates are refused
	runs := []int{3, 4, 8, 16, 31, 32, 33, 63, 64, 65, 100, 128, 255, 256, 257, 1000}
	if vx.Thorough() {
		runs = append(runs, 4096, 65536)
	}
	for _, m := range runs {
		for _, kd := range []string{"K0", "Kn", "Kmax", "mix"} {
			n++
			if !vx.MineIdx(n) {
				continue
			}
			kinds := make([]string, 0, m+1)
			for i := 0; i < m; i++ {
				k := kd
				if kd == "mix" {
					k = []string{"K0", "Kmax", "Kn1"}[i%3]
				}
				kinds = append(kinds, k)
			}
			c, ok := c02solve(append(kinds, "OK"), "seeded", "seeded")
			if !ok {
				unsolved++
				continue
			}
			c.Kinds = []string{fmt.Sprintf("%s x%d", kd, m), "OK"}
			c02eval(r, c)
		}
	}
	// (g) four million all-zero candidates in a row before the first acceptable one (a signer whose cost per rejected
	// candidate is not constant - a stack frame, a retained buffer - gives up long before)
	if vx.MineIdx(5) {
		r.Eval(1)
		const N = 4000000
		d := modN(bi(vx.Fill("c02longrun-d", 32)))
		e := vx.Fill("c02longrun-e", 32)
		k := b32(modN(bi(vx.Fill("c02longrun-k", 32))))
		want, werr := sm2ref.Sign(stream(k), d, e)
		if werr != nil {
			panic(werr)
		}
		rd := &zeroRunReader{n: N * 32, tail: append(append([]byte{}, k...), b32(big.NewInt(0x5555))...)}
		var rr, ss []byte
		var err error
		cs := c02case{Kinds: []string{fmt.Sprintf("K0 x%d", N), "OK"}, Key: "seeded", E: "seeded", D: vx.Hex(b32(d)), Digest: vx.Hex(e)}
		kind, msg := vx.Try(func() { rr, ss, err = sm2.SignHashed(rd, b32(d), e) })
		if kind != "" || err != nil {
			r.Violation("sign:long-run:fail", fmt.Sprintf("%d rejected candidates then an acceptable one: %s %v", N, msg, err), cs)
		} else if !bytes.Equal(rr, want.R) || !bytes.Equal(ss, want.S) || rd.pos != N*32+32 {
			r.Violation("sign:long-run:wrong", fmt.Sprintf("%d rejected candidates then an acceptable one: wrong signature or %d bytes consumed (want %d)", N, rd.pos, N*32+32), cs)
		}
		r.Shape("long-run:K0")
	}
	// (f) a nonce whose x1 = x([k]G) lies within 2^224 of the top (x1 > 2n - 2^256), found once by a 2^32 search and kept
	// as a witness (checked here against the reference): only for such a nonce can e + x1 reach 2n, so that (e + x1) mod n
	// needs more than one subtraction. Digests around 2n - x1 and the largest digest.
	if vx.MineIdx(2) {
		kW := vx.UnHex("243f6a8885a308d313198a2e03707344a4093822299f31d0082ffa9906293036")
		x1 := sm2ref.BaseMul(bi(kW)).X
		twoN := new(big.Int).Lsh(bigN, 1)
		lim := new(big.Int).Lsh(bigOne, 256)
		if new(big.Int).Add(x1, new(big.Int).Sub(lim, bigOne)).Cmp(twoN) < 0 {
			panic("harness: the witness nonce does not have a top-range x1")
		}
		base := new(big.Int).Sub(twoN, x1)
		dW := modN(bi(vx.Fill("c02witnessd", 32)))
		for off := int64(-2); off <= 2; off++ {
			for _, ev := range []*big.Int{new(big.Int).Add(base, big.NewInt(off)), new(big.Int).Sub(lim, big.NewInt(1+off*off))} {
				if ev.Sign() < 0 || ev.Cmp(lim) >= 0 {
					continue
				}
				r.Eval(1)
				e := b32(ev)
				k2 := b32(big.NewInt(0x3333))
				want, werr := sm2ref.Sign(stream(kW, k2), dW, e)
				rd := stream(kW, k2)
				var rr, ss []byte
				var err error
				kind, msg := vx.Try(func() { rr, ss, err = sm2.SignHashed(rd, b32(dW), e) })
				cs := c02case{Kinds: []string{"top-x1", "OK"}, Key: "seeded", E: fmt.Sprintf("2n-x1%+d", off), D: vx.Hex(b32(dW)), Digest: vx.Hex(e), Stream: []string{vx.Hex(kW), vx.Hex(k2)}}
				if werr != nil {
					panic(werr)
				}
				if kind != "" || err != nil {
					r.Violation("sign:top-x1:fail", fmt.Sprintf("%s %v", msg, err), cs)
				} else if !bytes.Equal(rr, want.R) || !bytes.Equal(ss, want.S) || rd.pos != want.Consumed {
					r.Violation("sign:top-x1:wrong", fmt.Sprintf("nonce with x1 near 2^256 and digest %x: SignHashed returned (%x,%x) after %d bytes, GM/T 0003.2 gives (%x,%x) after %d", e, rr, ss, rd.pos, want.R, want.S, want.Consumed), cs)
				}
				r.Shape(fmt.Sprintf("top-x1:%d:%x", off, ev.Bit(255)))
			}
		}
	}
	// (e) one caller buffer serves several keys / digests in turn (a key slot reloaded between calls): every call signs
	// with what the buffer holds at the time of the call
	if vx.MineIdx(1) {
		privBuf, eBuf := make([]byte, 32), make([]byte, 32)
		ks := b32(modN(bi(vx.Fill("c02reusek", 32))))
		for round := 0; round < 2; round++ {
			for i := 0; i < 4; i++ {
				r.Eval(1)
				d := modN(bi(vx.Fill(fmt.Sprintf("c02reused%d", i), 32)))
				copy(privBuf, b32(d))
				copy(eBuf, vx.Fill(fmt.Sprintf("c02reusee%d", (i+round)%3), 32))
				want, _ := sm2ref.Sign(stream(ks), d, append([]byte{}, eBuf...))
				var rr, ss []byte
				var err error
				kind, msg := vx.Try(func() { rr, ss, err = sm2.SignHashed(stream(ks), privBuf, eBuf) })
				cs := c02case{Kinds: []string{"OK"}, Key: fmt.Sprintf("reloaded-buffer:key%d:round%d", i, round), D: vx.Hex(privBuf), Digest: vx.Hex(eBuf), Stream: []string{vx.Hex(ks)}}
				if kind != "" || err != nil {
					r.Violation("sign:reloaded-buffer:fail", fmt.Sprintf("%s %v", msg, err), cs)
				} else if !bytes.Equal(rr, want.R) || !bytes.Equal(ss, want.S) {
					r.Violation("sign:reloaded-buffer:wrong", fmt.Sprintf("SignHashed with key #%d loaded into the buffer an earlier call used for another key returned (%x,%x), GM/T 0003.2 gives (%x,%x)", i, rr, ss, want.R, want.S), cs)
				}
				r.Shape(fmt.Sprintf("reloaded:%d:%d", i, round))
			}
		}
	}
	// Montgomery-limb-steered triples: the signer subtracts two scalars mod n (s = t - r with t = (k+r)/(1+d), or
	// k - r*d before the division); in the 2^256-Montgomery representation the arithmetic works on, the wrapped 256-bit
	// difference W = a - b (+2^256) is *chosen* limb by limb from {0, 1, 2^64-1, 2^64-n_i, 2^64-n_i-1, seeded} - the places
	// where the carry of the add-back of n changes - b is seeded, a = b + W, and (r, k, e) are solved for a fixed d so
	// that the two operands have exactly these images. Oracle: sm2ref.Sign as everywhere (seeded C02-N: the carry out
	// of limb 2 of the add-back replaced by the borrow bit, wrong only when limb 2 of W is 0 and nothing carries in).
	{
		two256 := new(big.Int).Lsh(bigOne, 256)
		rinv := new(big.Int).ModInverse(two256, bigN)
		mask := new(big.Int).SetUint64(^uint64(0))
		var nl [4]*big.Int
		for i := range nl {
			nl[i] = new(big.Int).And(new(big.Int).Rsh(bigN, uint(64*i)), mask)
		}
		two64 := new(big.Int).Lsh(bigOne, 64)
		limbSet := func(i int) []*big.Int {
			c := new(big.Int).Mod(new(big.Int).Sub(two64, nl[i]), two64)
			return []*big.Int{new(big.Int), big.NewInt(1), new(big.Int).Set(mask), c, new(big.Int).Mod(new(big.Int).Sub(c, bigOne), two64),
				new(big.Int).And(bi(vx.Fill(fmt.Sprintf("c02mont-l%d", i), 8)), mask)}
		}
		dM := bi(vx.UnHex("3945208F7B2144B13F36E38AC6D39F95889393692860B51A42FB81EF4DF7C5B8"))
		dinv := invN(dM)
		cnt := 0
		for ci := 0; ci < 6*6*6*6; ci++ {
			W := new(big.Int)
			for i, q := 0, ci; i < 4; i, q = i+1, q/6 {
				W.Or(W, new(big.Int).Lsh(limbSet(i)[q%6], uint(64*i)))
			}
			for _, neg := range []bool{true, false} {
				// b seeded below 2^200; neg: a = b + W - 2^256 (a < b, the subtraction borrows), else a = b + W
				bM := new(big.Int).Rsh(bi(vx.Fill(fmt.Sprintf("c02mont-b%d", ci%7), 32)), 56)
				aM := new(big.Int).Add(bM, W)
				if neg {
					// a - b wraps to W: b - a = 2^256 - W, so swap roles: the minuend is the smaller one
					aM, bM = bM, new(big.Int).Add(bM, new(big.Int).Sub(two256, W))
				}
				if aM.Cmp(bigN) >= 0 || bM.Cmp(bigN) >= 0 || aM.Sign() == 0 || bM.Sign() == 0 {
					continue
				}
				a, b := modN(new(big.Int).Mul(aM, rinv)), modN(new(big.Int).Mul(bM, rinv))
				for form := 0; form < 2; form++ {
					var rv, kv *big.Int
					if form == 0 {
						// s = t - r: t = a, r = b, k = t(1+d) - r
						rv = b
						kv = modN(new(big.Int).Sub(new(big.Int).Mul(a, new(big.Int).Add(dM, bigOne)), rv))
					} else {
						// s = (k - r d)/(1+d): k = a, r d = b
						kv = a
						rv = modN(new(big.Int).Mul(b, dinv))
					}
					if kv.Sign() == 0 || rv.Sign() == 0 || modN(new(big.Int).Add(rv, kv)).Sign() == 0 {
						continue
					}
					cnt++
					if !vx.MineIdx(cnt) {
						continue
					}
					ev := modN(new(big.Int).Sub(rv, sm2ref.BaseMul(kv).X))
					cs := c02case{Kinds: []string{"OK"}, Key: fmt.Sprintf("mont-steered:form%d:neg=%v", form, neg), E: fmt.Sprintf("W-limbs=%d%d%d%d", ci%6, ci/6%6, ci/36%6, ci/216), D: vx.Hex(b32(dM)), Digest: vx.Hex(b32(ev)), Stream: []string{vx.Hex(b32(kv))}}
					c02evalOne(r, cs)
				}
			}
		}
	}
	// invalid keys
	if vx.MineIdx(0) {
		for _, b := range []c02bad{
			{"", "empty"}, {"00", "zero-1byte"}, {vx.Hex(make([]byte, 31)), "zero-31byte"}, {vx.Hex(make([]byte, 32)), "zero-32byte"},
			{vx.Hex(b32(new(big.Int).Sub(bigN, bigOne))), "n-1"}, {vx.Hex(b32(bigN)), "n"}, {vx.Hex(b32(new(big.Int).Add(bigN, bigOne))), "n+1"},
			{vx.Hex(bytes.Repeat([]byte{0xff}, 32)), "max"}, {vx.Hex(append([]byte{0}, b32(big.NewInt(5))...)), "33byte-small"}, {vx.Hex(make([]byte, 33)), "33byte-zero"},
		} {
			c02badKey(r, b)
		}
	}
}

func c02badKey(r *vx.R, c c02bad) {
	r.Eval(1)
	rd := stream(b32(big.NewInt(0x1234)), b32(big.NewInt(0x5678)))
	var rr, ss []byte
	var err error
	e := vx.Fill("c02bade", 32)
	kind, msg := vx.Try(func() { rr, ss, err = sm2.SignHashed(rd, vx.UnHex(c.Key), e) })
	if kind != "" {
		r.Violation("sign:badkey:panic:"+c.Name, msg, c)
		return
	}
	if err == nil || rr != nil || ss != nil {
		r.Violation("sign:badkey:accepted:"+c.Name, fmt.Sprintf("SignHashed signed with key class %s (outside [1,n-2]): r=%x s=%x err=%v", c.Name, rr, ss, err), c)
	} else if rd.pos != 0 {
		r.Violation("sign:badkey:drew-randomness", "randomness was drawn before the key was refused", c)
	}
	r.Shape("badkey:" + c.Name)
}

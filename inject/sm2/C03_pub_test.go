//go:build verif

package sm2_test

import (
	"bytes"
	"encoding/json"
	"fmt"
	"math/big"
	"testing"

	"github.com/bilibili/smgo/sm2"
	"github.com/bilibili/smgo/sm2/internal"
	"verif/refs/sm2ref"
	"verif/vx"
)

type c03case struct {
	Shape           string
	PX, PY, E, R, S string
}

var c03memo = map[string][2]string{}

func c03ref(px, py, e, rr, ss []byte) (bool, string) {
	k := string(px) + "|" + string(py) + "|" + string(e) + "|" + string(rr) + "|" + string(ss)
	if v, ok := c03memo[k]; ok {
		return v[0] == "1", v[1]
	}
	ok, why := sm2ref.Verify(px, py, e, rr, ss)
	s := "0"
	if ok {
		s = "1"
	}
	c03memo[k] = [2]string{s, why}
	return ok, why
}

func c03eval(r *vx.R, c c03case) {
	r.Eval(1)
	px, py, e, rr, ss := vx.UnHex(c.PX), vx.UnHex(c.PY), vx.UnHex(c.E), vx.UnHex(c.R), vx.UnHex(c.S)
	keep := [][]byte{append([]byte{}, px...), append([]byte{}, py...), append([]byte{}, e...), append([]byte{}, rr...), append([]byte{}, ss...)}
	want, why := c03ref(px, py, e, rr, ss)
	var got bool
	var err error
	kind, msg := vx.Try(func() { got, err = sm2.VerifyHashed(px, py, e, rr, ss) })
	if kind != "" {
		r.Violation("verify:panic:ref-says-"+why, fmt.Sprintf("VerifyHashed panicked (%s): %s", c.Shape, msg), c)
		return
	}
	if got != want {
		if want {
			r.Violation("verify:rejects-valid", fmt.Sprintf("VerifyHashed rejected a signature the standard accepts (%s): err=%v", c.Shape, err), c)
		} else {
			r.Violation("verify:accepts-invalid:"+why, fmt.Sprintf("VerifyHashed accepted (%s) although the standard's procedure rejects at condition '%s'", c.Shape, why), c)
		}
	}
	if got && err != nil {
		r.Violation("verify:true-with-error", "returned true together with an error", c)
	}
	for i, b := range [][]byte{px, py, e, rr, ss} {
		if !bytes.Equal(b, keep[i]) {
			r.Violation("verify:input-modified", fmt.Sprintf("argument %d was modified", i), c)
		}
	}
	cls := why
	if want {
		cls = "accept"
	}
	r.Shape(c.Shape + ":" + cls)
}

func TestVX_C03(t *testing.T) {
	r := vx.Begin("C03", "verify-exact", "VerifyHashed on: valid base signatures (keys {1,2,n-2,seeded} x digests {seeded,0,2^256-1}); every single-bit flip of pubx, puby, e, r, s (5x256 per base); every argument at lengths {0,1,31,33,64}; r or s in {0,n,n+1,2^256-1}; tuples *solved* to satisfy the verification equation while violating one side condition: r+s=n, r>=n (r+n presented), s>=n, [s]G+[t]P = O (D13), off-curve and non-canonical keys, swapped coordinates, negated key; short-t valid signatures (must be accepted). Oracle: sm2ref.Verify, the seven conditions of GM/T 0003.2 section 7.1. Shape=(mutation class, position, first failing condition); result point [s]G+[t]P steered (public key solved) to points with x1 in {0,1,..; n+j; n-1-j; p-1-j; 2^255+j}, +-y, with e and e+n, and with a wrong r; off-curve keys differing from the curve in structured bit sets, with e solved by the implementation's own arithmetic wherever its decoder lets such a key through; 1300 (thorough 5000) distinct public keys in one process followed by a second visit of the first 40 with their own and a neighbour's signature; keys d and n-d in alternation, each with its own and the other's signature")
	defer r.End()
	selfCheck()
	if raw, ok := vx.Replay("verify-exact"); ok {
		var c c03case
		json.Unmarshal(raw, &c)
		c03eval(r, c)
		return
	}
	n := 0
	run := func(shape string, px, py, e, rr, ss []byte) {
		n++
		if !vx.MineIdx(n) {
			return
		}
		if r.Expired() {
			return
		}
		c := c03case{shape, vx.Hex(px), vx.Hex(py), vx.Hex(e), vx.Hex(rr), vx.Hex(ss)}
		c03eval(r, c)
		r.Sample(c)
	}
	type base struct {
		name            string
		d               *big.Int
		px, py, e, r, s []byte
	}
	var bases []base
	keys := map[string]*big.Int{"1": big.NewInt(1), "2": big.NewInt(2), "n-2": new(big.Int).Sub(bigN, big.NewInt(2)), "sa": modN(bi(vx.Fill("c03da", 32)))}
	knames := []string{"sa", "1", "n-2", "2"}
	es := map[string][]byte{"seeded": vx.Fill("c03e", 32), "zero": make([]byte, 32), "max": bytes.Repeat([]byte{0xff}, 32)}
	enames := []string{"seeded", "zero", "max"}
	if vx.Thorough() {
		for i := 0; i < 6; i++ {
			nm := fmt.Sprintf("s%d", i)
			keys[nm] = modN(bi(vx.Fill("c03d"+nm, 32)))
			knames = append(knames, nm)
		}
	}
	for _, kn := range knames {
		for _, en := range enames {
			if !vx.Thorough() && kn != "sa" && en != "seeded" {
				continue
			}
			d := keys[kn]
			px, py := sm2ref.Pub(d)
			k := b32(modN(bi(vx.Fill("c03k"+kn+en, 32))))
			sg, err := sm2ref.Sign(stream(k, b32(big.NewInt(77))), d, es[en])
			if err != nil {
				panic(err)
			}
			bases = append(bases, base{kn + "/" + en, d, px, py, es[en], sg.R, sg.S})
		}
	}
	r.Set("bases", len(bases))
	one := bigOne
	max := new(big.Int).Sub(new(big.Int).Lsh(one, 256), one)
	for bi0, b := range bases {
		run("valid:"+b.name, b.px, b.py, b.e, b.r, b.s)
		args := [][]byte{b.px, b.py, b.e, b.r, b.s}
		anames := []string{"px", "py", "e", "r", "s"}
		// (i) single-bit flips
		for ai := range args {
			for bit := 0; bit < 256; bit++ {
				if !vx.Thorough() && bi0 > 1 && bit%8 != 0 {
					continue
				}
				m := make([][]byte, 5)
				for j := range args {
					m[j] = append([]byte{}, args[j]...)
				}
				m[ai][bit/8] ^= 1 << uint(7-bit%8)
				run(fmt.Sprintf("flip:%s:%d", anames[ai], bit), m[0], m[1], m[2], m[3], m[4])
			}
			// (ii) wrong lengths
			for _, l := range []int{0, 1, 31, 33, 64} {
				m := make([][]byte, 5)
				for j := range args {
					m[j] = append([]byte{}, args[j]...)
				}
				if l <= 32 {
					m[ai] = m[ai][32-l:]
				} else {
					m[ai] = append(make([]byte, l-32), m[ai]...)
				}
				run(fmt.Sprintf("len:%s:%d", anames[ai], l), m[0], m[1], m[2], m[3], m[4])
			}
		}
		// (iii) range violations
		for vn, v := range map[string]*big.Int{"0": big.NewInt(0), "n": bigN, "n+1": new(big.Int).Add(bigN, one), "max": max} {
			run("range:r="+vn, b.px, b.py, b.e, b32(v), b.s)
			run("range:s="+vn, b.px, b.py, b.e, b.r, b32(v))
		}
		// (iv) equation-satisfying, side-condition-violating tuples
		P := sm2ref.Point{X: bi(b.px), Y: bi(b.py)}
		// r >= n: present r+n where it fits (needs r < 2^256 - n): choose e so that r is small
		{
			sv := modN(bi(vx.Fill("c03s1", 32)))
			rsmall := big.NewInt(0x1234567)
			tv := modN(new(big.Int).Add(rsmall, sv))
			pt := sm2ref.MulAdd(sv, tv, P)
			e := modN(new(big.Int).Sub(rsmall, pt.X))
			run("solved:valid-small-r", b.px, b.py, b32(e), b32(rsmall), b32(sv))
			run("solved:r+n", b.px, b.py, b32(e), b32(new(big.Int).Add(rsmall, bigN)), b32(sv))
			// s >= n likewise
			ssmall := big.NewInt(0x7654321)
			rv := modN(bi(vx.Fill("c03r2", 32)))
			tv = modN(new(big.Int).Add(rv, ssmall))
			pt = sm2ref.MulAdd(ssmall, tv, P)
			e = modN(new(big.Int).Sub(rv, pt.X))
			run("solved:valid-small-s", b.px, b.py, b32(e), b32(rv), b32(ssmall))
			run("solved:s+n", b.px, b.py, b32(e), b32(rv), b32(new(big.Int).Add(ssmall, bigN)))
			// e >= n is fine (e is reduced): e+n must still verify
			if t := new(big.Int).Add(e, bigN); t.BitLen() <= 256 {
				run("solved:e+n", b.px, b.py, b32(t), b32(rv), b32(ssmall))
			}
		}
		// r + s = n: t = 0, R = [s]G, r = n - s, e = r - x_R
		{
			sv := modN(bi(vx.Fill("c03s3", 32)))
			rv := new(big.Int).Sub(bigN, sv)
			e := modN(new(big.Int).Sub(rv, sm2ref.BaseMul(sv).X))
			run("solved:r+s=n", b.px, b.py, b32(e), b32(rv), b32(sv))
		}
		// [s]G + [t]P = O: s = -t d, with t = r + s  =>  s(1+d) = -r d; x taken as 0 would give r = e mod n
		{
			rv := modN(bi(vx.Fill("c03r4", 32)))
			sv := modN(new(big.Int).Mul(new(big.Int).Neg(new(big.Int).Mul(rv, b.d)), invN(new(big.Int).Add(b.d, one))))
			if sv.Sign() != 0 && modN(new(big.Int).Add(rv, sv)).Sign() != 0 {
				run("solved:infinity", b.px, b.py, b32(rv), b32(rv), b32(sv))
				if t := new(big.Int).Add(rv, bigN); t.BitLen() <= 256 {
					run("solved:infinity:e+n", b.px, b.py, b32(t), b32(rv), b32(sv))
				}
			}
		}
		// key variants
		negY := b32(new(big.Int).Sub(sm2ref.P, bi(b.py)))
		run("key:negated", b.px, negY, b.e, b.r, b.s)
		run("key:swapped", b.py, b.px, b.e, b.r, b.s)
		run("key:zero", make([]byte, 32), make([]byte, 32), b.e, b.r, b.s)
		run("key:x=p", b32(sm2ref.P), b.py, b.e, b.r, b.s)
		run("key:y=p", b.px, b32(sm2ref.P), b.e, b.r, b.s)
		run("key:y+p-overflow", b.px, bytes.Repeat([]byte{0xff}, 32), b.e, b.r, b.s)
		// off-curve key for which the equation would hold if the curve check were missing: (x, y+1)
		run("key:y+1", b.px, b32(modN(new(big.Int).Add(bi(b.py), one))), b.e, b.r, b.s)
		// keys that miss the curve only in structured bit sets of y^2 (value or Montgomery form)
		if bi0 < 2 {
			xs, ys, names := sm2ref.NearCurvePoints(P)
			for i := range xs {
				run("key:near-curve:"+names[i], b32(xs[i]), b32(ys[i]), b.e, b.r, b.s)
			}
		}
		// signature for a different key / digest
		run("other-digest", b.px, b.py, vx.Fill("c03other", 32), b.r, b.s)
		run("swapped-rs", b.px, b.py, b.e, b.s, b.r)
	}
	// (vi) keys with a tiny x coordinate: the equation is satisfied by construction (s, t chosen, r = t - s, e = r - x_R, no
	// private key needed); the canonical encoding must be accepted, the same point presented as x+p (still 32 bytes) or
	// y+p must be rejected as a non-canonical key
	for pi, P := range sm2ref.SmallXPoints(4) {
		sv := modN(bi(vx.Fill(fmt.Sprintf("c03sx%d", pi), 32)))
		tv := modN(bi(vx.Fill(fmt.Sprintf("c03tx%d", pi), 32)))
		rv := modN(new(big.Int).Sub(tv, sv))
		if rv.Sign() == 0 || sv.Sign() == 0 || tv.Sign() == 0 {
			continue
		}
		R := sm2ref.MulAdd(sv, tv, P)
		if R.Inf {
			continue
		}
		e := modN(new(big.Int).Sub(rv, R.X))
		run(fmt.Sprintf("smallx:%d:canonical", pi), b32(P.X), b32(P.Y), b32(e), b32(rv), b32(sv))
		run(fmt.Sprintf("smallx:%d:x+p", pi), b32(new(big.Int).Add(P.X, sm2ref.P)), b32(P.Y), b32(e), b32(rv), b32(sv))
		if yp := new(big.Int).Add(P.Y, sm2ref.P); yp.BitLen() <= 256 {
			run(fmt.Sprintf("smallx:%d:y+p", pi), b32(P.X), b32(yp), b32(e), b32(rv), b32(sv))
		}
		negY := new(big.Int).Sub(sm2ref.P, P.Y)
		if yp := new(big.Int).Add(negY, sm2ref.P); yp.BitLen() <= 256 {
			run(fmt.Sprintf("smallx:%d:-y+p", pi), b32(P.X), b32(yp), b32(e), b32(rv), b32(sv))
		}
	}
	// (viii) the result point [s]G+[t]P steered to points whose x1 is special (0, 1, .., n+j with x1 mod n small, p-1-j,
	// 2^255+j): r and s are chosen, P = [1/t](R0 - [s]G) needs no private key, e = r - x1. All are valid signatures.
	{
		pts, names := sm2ref.SpecialXPoints()
		for i, R0 := range pts {
			sv := modN(bi(vx.Fill(fmt.Sprintf("c03spS%d", i), 32)))
			rv := modN(bi(vx.Fill(fmt.Sprintf("c03spR%d", i), 32)))
			tv := modN(new(big.Int).Add(rv, sv))
			if rv.Sign() == 0 || sv.Sign() == 0 || tv.Sign() == 0 {
				continue
			}
			// P = [1/t](R0 - [s]G)
			Q := sm2ref.Add(R0, sm2ref.Neg(sm2ref.BaseMul(sv)))
			if Q.Inf {
				continue
			}
			P := sm2ref.Mul(invN(tv), Q)
			if P.Inf || !sm2ref.MulAdd(sv, tv, P).Equal(R0) {
				panic("harness: steering the result point failed")
			}
			e := modN(new(big.Int).Sub(rv, R0.X))
			run("result-point:"+names[i], b32(P.X), b32(P.Y), b32(e), b32(rv), b32(sv))
			if t := new(big.Int).Add(e, bigN); t.BitLen() <= 256 {
				run("result-point:"+names[i]+":e+n", b32(P.X), b32(P.Y), b32(t), b32(rv), b32(sv))
			}
			// the same with a wrong r: must be rejected
			run("result-point:"+names[i]+":r+1", b32(P.X), b32(P.Y), b32(e), b32(modN(new(big.Int).Add(rv, one))), b32(sv))
		}
	}
	// (viii-b) the final reduction R = (e + x1) mod n at every multiple of n the sum can cross: e is *chosen* (not solved)
	// from the boundary digests {0, n-1, n, n+1, 2^256-1, 2^256-2, kn-x1-1, kn-x1 for k = 1, 2} and r = (e + x1) mod n
	// follows; P is solved as above. With x1 >= 2n-2^256+1 (top 31 bits set) and e near 2^256 the sum reaches 2n, which
	// one conditional subtraction does not reduce (seeded C03-M). All are valid signatures.
	{
		pts, names := sm2ref.SpecialXPoints()
		two256 := new(big.Int).Lsh(one, 256)
		for i, R0 := range pts {
			es := []*big.Int{new(big.Int), new(big.Int).Sub(bigN, one), new(big.Int).Set(bigN), new(big.Int).Add(bigN, one),
				new(big.Int).Sub(two256, one), new(big.Int).Sub(two256, big.NewInt(2))}
			for k := int64(1); k <= 2; k++ {
				b := new(big.Int).Sub(new(big.Int).Mul(big.NewInt(k), bigN), R0.X)
				es = append(es, new(big.Int).Sub(b, one), b)
			}
			for ei, e := range es {
				if e.Sign() < 0 || e.BitLen() > 256 {
					continue
				}
				rv := modN(new(big.Int).Add(e, R0.X))
				sv := modN(bi(vx.Fill(fmt.Sprintf("c03sumS%d", i), 32)))
				tv := modN(new(big.Int).Add(rv, sv))
				if rv.Sign() == 0 || sv.Sign() == 0 || tv.Sign() == 0 {
					// r = 0 (e = kn - x1): a side condition the standard rejects; still presented, the oracle decides
					if tv.Sign() == 0 || sv.Sign() == 0 {
						continue
					}
				}
				Q := sm2ref.Add(R0, sm2ref.Neg(sm2ref.BaseMul(sv)))
				if Q.Inf {
					continue
				}
				P := sm2ref.Mul(invN(tv), Q)
				if P.Inf || !sm2ref.MulAdd(sv, tv, P).Equal(R0) {
					panic("harness: steering the result point failed")
				}
				cls := "in-[0,n)"
				if sum := new(big.Int).Add(e, R0.X); sum.Cmp(new(big.Int).Lsh(bigN, 1)) >= 0 {
					cls = "ge-2n"
				} else if sum.Cmp(bigN) >= 0 {
					cls = "in-[n,2n)"
				}
				run(fmt.Sprintf("sum-e+x1:%s:%s:e%d", cls, names[i], ei), b32(P.X), b32(P.Y), b32(e), b32(rv), b32(sv))
			}
		}
	}
	// (ix) off-curve keys that a defective curve check lets through: where the implementation's own decoder accepts a
	// near-curve key, e is solved with the implementation's own arithmetic so that the equation holds; the standard
	// rejects the key whatever the equation says
	{
		b := bases[0]
		for qi, q := range []sm2ref.Point{sm2ref.G(), sm2ref.BaseMul(bi(vx.Fill("c03nearq", 32)))} {
			xs, ys, names := sm2ref.NearCurvePoints(q)
			for i := range xs {
				enc := append(append([]byte{4}, b32(xs[i])...), b32(ys[i])...)
				var x1 *big.Int
				vx.Try(func() {
					pt, err := internal.NewSM2Point().SetBytes(enc)
					if err != nil {
						return
					}
					tv := modN(new(big.Int).Add(bi(b.r), bi(b.s)))
					res, err := internal.ScalarMixedMult_Unsafe(b.s, pt, b32(tv))
					if err != nil || res.IsInfinity() == 1 {
						return
					}
					x1 = res.GetAffineX_Unsafe()
				})
				if x1 == nil {
					n++ // keep the enumeration index independent of the implementation's answer
					if vx.MineIdx(n) {
						r.Add("near_curve_keys_refused_by_decoder", 1)
					}
					continue
				}
				e := modN(new(big.Int).Sub(bi(b.r), x1))
				run(fmt.Sprintf("key:near-curve-solved:%d:%s", qi, names[i]), b32(xs[i]), b32(ys[i]), b32(e), b.r, b.s)
			}
		}
	}
	// (x) volume and related keys: 1300 distinct public keys are verified under (growth of whatever the verifier remembers
	// per key), then the first ones again with valid and invalid signatures; and keys d / n-d (same x, opposite y) in
	// alternation, each with its own and with the other's signature
	if vx.MineIdx(3) {
		kV := modN(bi(vx.Fill("c03volk", 32)))
		x1 := sm2ref.BaseMul(kV).X
		eV := vx.Fill("c03vole", 32)
		rV := modN(new(big.Int).Add(bi(eV), x1))
		sigFor := func(d *big.Int) *big.Int { // s = (k - r d) / (1 + d)
			return modN(new(big.Int).Mul(modN(new(big.Int).Sub(kV, new(big.Int).Mul(rV, d))), invN(modN(new(big.Int).Add(d, one)))))
		}
		type kp struct {
			d      *big.Int
			px, py []byte
			s      []byte
		}
		var kps []kp
		P := sm2ref.Infinity()
		nKeys := 1300
		if vx.Thorough() {
			nKeys = 5000
		}
		for i := 1; i <= nKeys; i++ {
			P = sm2ref.Add(P, sm2ref.G())
			d := big.NewInt(int64(i))
			kps = append(kps, kp{d, b32(P.X), b32(P.Y), b32(sigFor(d))})
		}
		verify := func(k kp, sv []byte, want bool, shape string) {
			r.Eval(1)
			var ok bool
			kind, msg := vx.Try(func() { ok, _ = sm2.VerifyHashed(k.px, k.py, eV, b32(rV), sv) })
			cs := c03case{shape, vx.Hex(k.px), vx.Hex(k.py), vx.Hex(eV), vx.Hex(b32(rV)), vx.Hex(sv)}
			if kind != "" {
				r.Violation("verify:volume:panic", msg, cs)
			} else if ok != want {
				r.Violation(fmt.Sprintf("verify:volume:%s:got=%v", shape, ok), fmt.Sprintf("%s: VerifyHashed returned %v for key [%s]G, the standard says %v", shape, ok, k.d, want), cs)
			}
		}
		if rV.Sign() != 0 {
			for _, k := range kps {
				if modN(new(big.Int).Add(rV, bi(k.s))).Sign() == 0 || bi(k.s).Sign() == 0 {
					continue
				}
				verify(k, k.s, true, "first-pass")
			}
			for i := 0; i < 40; i++ {
				k := kps[i]
				if modN(new(big.Int).Add(rV, bi(k.s))).Sign() == 0 || bi(k.s).Sign() == 0 {
					continue
				}
				verify(k, k.s, true, "revisit-valid")
				verify(k, kps[i+1].s, false, "revisit-other-keys-signature")
			}
			r.Shape("volume")
			// d and n-d
			for _, dv := range []int64{1, 2, 77} {
				d := big.NewInt(dv)
				dn := new(big.Int).Sub(bigN, d)
				if !sm2ref.ValidKey(dn) {
					continue
				}
				pa, pb := sm2ref.BaseMul(d), sm2ref.BaseMul(dn)
				ka := kp{d, b32(pa.X), b32(pa.Y), b32(sigFor(d))}
				kb := kp{dn, b32(pb.X), b32(pb.Y), b32(sigFor(dn))}
				for round := 0; round < 2; round++ {
					verify(ka, ka.s, true, "negated-pair:P-own")
					verify(kb, kb.s, true, "negated-pair:-P-own")
					verify(kb, ka.s, false, "negated-pair:-P-with-P's")
					verify(ka, ka.s, true, "negated-pair:P-own-again")
					verify(ka, kb.s, false, "negated-pair:P-with--P's")
					verify(kb, kb.s, true, "negated-pair:-P-own-again")
				}
			}
			r.Shape("negated-pairs")
		}
	}
	// (vii) the id- and message-level verifiers on arguments of the wrong length: false, never a panic
	if vx.MineIdx(1) {
		b := bases[0]
		id, msg := []byte("1234567812345678"), []byte("message digest")
		za, _ := sm2ref.ZA(id, b.px, b.py)
		for ai, name := range []string{"px", "py", "r", "s"} {
			for _, l := range []int{0, 1, 31, 33, 64} {
				args := [][]byte{b.px, b.py, b.r, b.s}
				m := make([]byte, l)
				copy(m, args[ai])
				args[ai] = m
				r.Eval(2)
				var ok1, ok2 bool
				kind, pm := vx.Try(func() {
					ok1, _ = sm2.Verify(id, args[0], args[1], msg, args[2], args[3])
					ok2, _ = sm2.VerifyZa(args[0], args[1], za[:], msg, args[2], args[3])
				})
				cs := c03case{Shape: fmt.Sprintf("wrapper-len:%s:%d", name, l), PX: vx.Hex(args[0]), PY: vx.Hex(args[1]), R: vx.Hex(args[2]), S: vx.Hex(args[3])}
				if kind != "" {
					r.Violation("verify:wrapper-panic", fmt.Sprintf("Verify/VerifyZa panicked with a %d-byte %s: %s", l, name, pm), cs)
				} else if ok1 || ok2 {
					r.Violation("verify:wrapper-accepts-bad-length", fmt.Sprintf("Verify/VerifyZa accepted a %d-byte %s", l, name), cs)
				}
				r.Shape(cs.Shape)
			}
		}
	}
	// (v) short-t / short-r / short-s valid signatures must be accepted (solved as in C01)
	d := keys["sa"]
	px, py := sm2ref.Pub(d)
	for z := 1; z <= 31; z++ {
		if !vx.Thorough() && z > 4 && z%5 != 0 && z != 31 {
			continue
		}
		for which := 0; which < 3; which++ {
			v := shaped(z, 2, "c03v")
			o := modN(bi(vx.Fill(fmt.Sprintf("c03o%d", z), 32)))
			var rv, sv *big.Int
			switch which {
			case 0:
				rv, sv = v, o
			case 1:
				rv, sv = o, v
			case 2:
				rv, sv = o, modN(new(big.Int).Sub(v, o))
			}
			k, e, ok := c01solveHashed(rv, sv, d)
			if !ok {
				continue
			}
			_ = k
			run(fmt.Sprintf("short:%d:z%d", which, z), px, py, b32(e), b32(rv), b32(sv))
		}
	}
	// ---- several arguments of wrong length at once, the lengths compensating each other (x||y or r||s cut at another
	// place, so that the total is still 64 bytes): rejected by every entry point, the digest-level one and the wrappers
	{
		d := modN(bi(vx.Fill("c03pairlen-d", 32)))
		px, py := sm2ref.Pub(d)
		id, msg := []byte("1234567812345678"), vx.Fill("c03pairlen-msg", 41)
		za, _ := sm2ref.ZA(id, px, py)
		e := sm2ref.E(za[:], msg)
		sg, err := sm2ref.Sign(stream(b32(modN(bi(vx.Fill("c03pairlen-k", 32))))), d, e[:])
		if err != nil {
			panic(err)
		}
		xy := append(append([]byte{}, px...), py...)
		rs := append(append([]byte{}, sg.R...), sg.S...)
		for _, cut := range []int{0, 1, 16, 31, 33, 48, 63, 64} {
			for _, which := range []string{"xy", "rs", "both"} {
				n++
				if !vx.MineIdx(n) {
					continue
				}
				ax, ay, ar, as := px, py, sg.R, sg.S
				if which != "rs" {
					ax, ay = xy[:cut], xy[cut:]
				}
				if which != "xy" {
					ar, as = rs[:cut], rs[cut:]
				}
				cs := c03case{fmt.Sprintf("paired-lengths:%s:%d", which, cut), vx.Hex(ax), vx.Hex(ay), vx.Hex(e[:]), vx.Hex(ar), vx.Hex(as)}
				for _, entry := range []string{"VerifyHashed", "VerifyZa", "Verify"} {
					r.Eval(1)
					var got bool
					kind, pm := vx.Try(func() {
						switch entry {
						case "VerifyHashed":
							got, _ = sm2.VerifyHashed(ax, ay, e[:], ar, as)
						case "VerifyZa":
							got, _ = sm2.VerifyZa(ax, ay, za[:], msg, ar, as)
						case "Verify":
							got, _ = sm2.Verify(id, ax, ay, msg, ar, as)
						}
					})
					if kind != "" {
						r.Violation("verify:panic:paired-lengths:"+entry, pm, cs)
					} else if got {
						r.Violation("verify:accepts-invalid:paired-lengths:"+entry, fmt.Sprintf("%s accepted a signature whose %s was cut at byte %d instead of 32 (argument lengths %d/%d and %d/%d)", entry, which, cut, len(ax), len(ay), len(ar), len(as)), cs)
					}
					r.Shape(fmt.Sprintf("paired-lengths:%s:%d:%s", which, cut, entry))
				}
			}
		}
	}
	// ---- public keys with a small discrete logarithm (P = [d]G for d in {1, 2, 3, n-1, n-2}: [t]P runs through the same
	// multiples as the base-point table) with r in {1, 2, 2^k+1} and s = 2^k, 2^k-1, 2^k+1 at every k: intermediate sums
	// of the double multiplication coincide with the table entry being added, or cancel. e is solved so that the
	// signature is valid; the verifier must accept.
	{
		ds := []*big.Int{big.NewInt(1), big.NewInt(2), big.NewInt(3), new(big.Int).Sub(bigN, big.NewInt(1)), new(big.Int).Sub(bigN, big.NewInt(2))}
		step := 5
		if vx.Thorough() {
			step = 1
		}
		for di, d := range ds {
			px, py := sm2ref.Pub(d)
			P := sm2ref.Point{X: bi(px), Y: bi(py)}
			for k := 0; k < 256; k += step {
				for _, ds2 := range []int64{0, -1, 1} {
					for _, rv := range []*big.Int{big.NewInt(1), big.NewInt(2), new(big.Int).Add(new(big.Int).Lsh(bigOne, uint(k)), bigOne)} {
						sv := modN(new(big.Int).Add(new(big.Int).Lsh(bigOne, uint(k)), big.NewInt(ds2)))
						rr := modN(rv)
						tv := modN(new(big.Int).Add(rr, sv))
						if sv.Sign() == 0 || rr.Sign() == 0 || tv.Sign() == 0 {
							continue
						}
						pt := sm2ref.MulAdd(sv, tv, P)
						if pt.Inf {
							continue
						}
						e := modN(new(big.Int).Sub(rr, pt.X))
						run(fmt.Sprintf("small-dlog-key:d%d:s=2^%d%+d:r%d", di, k, ds2, rv.BitLen()), px, py, b32(e), b32(rr), b32(sv))
					}
				}
			}
		}
	}
}

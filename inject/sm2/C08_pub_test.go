//go:build verif

package sm2_test

import (
	"bytes"
	"encoding/json"
	"fmt"
	"io"
	"math/big"
	"os"
	"path/filepath"
	"sort"
	"strings"
	"testing"

	"github.com/bilibili/smgo/sm2"
	"github.com/bilibili/smgo/sm2/internal"
	"github.com/bilibili/smgo/sm2/internal/fiat"
	"github.com/bilibili/smgo/utils"
	"verif/refs/sm2ref"
	"verif/trace"
	"verif/vx"
)

type c08site struct {
	ID   uint32 `json:"id"`
	Kind string `json:"kind"`
	Loc  string `json:"loc"`
	Func string `json:"func"`
	Text string `json:"text"`
}

type c08extcall struct {
	Site   uint32 `json:"site"`
	Func   string `json:"func"`
	Callee string `json:"callee"`
	Loc    string `json:"loc"`
	Text   string `json:"text"`
	XSite  uint32 `json:"xsite"`
}

type c08case struct {
	Group  string
	Secret string
	Other  string
}

var (
	c08sites = map[uint32]c08site{}
	c08ext   []c08extcall
	// sync and sync/atomic operations do not look at the data they guard: their control flow depends on the state of the
	// runtime (contention, pool occupancy), never on a secret value; what the guarded code does is traced like all code
	c08allowed = []string{"math/bits.", "crypto/subtle.", "errors.New", "fmt.Errorf", "math.Pow", "(encoding/binary.", "io.ReadFull", "(*math/big.Int).Sign", "(*sync.", "sync.", "sync/atomic.", "(io.Reader).Read"}
)

func c08load() bool {
	tree := os.Getenv("VX_TREE")
	if tree == "" {
		return false
	}
	for _, d := range []string{"utils", "sm2/internal/fiat", "sm2/internal", "sm2"} {
		b, err := os.ReadFile(filepath.Join(tree, d, ".vx_trace_sites.json"))
		if err != nil {
			return false
		}
		var ss []c08site
		json.Unmarshal(b, &ss)
		for _, s := range ss {
			c08sites[s.ID] = s
		}
	}
	for _, d := range []string{"utils", "sm2/internal/fiat", "sm2/internal", "sm2"} {
		b, err := os.ReadFile(filepath.Join(tree, d, ".vx_trace_ext.json"))
		if err != nil {
			return false
		}
		var es []c08extcall
		json.Unmarshal(b, &es)
		c08ext = append(c08ext, es...)
	}
	return len(c08sites) > 0
}

// a group: one primitive with fixed public parameters; every secret must give the same trace
type c08group struct {
	name    string
	secrets []string // hex
	run     func(secret []byte)
	pub     func(secret []byte) []*big.Int // public inputs and outputs of this run (values an observer has anyway)
}

func c08record(run func([]byte), secret []byte, detail bool) (trace.Result, string) {
	trace.Start(detail)
	kind, msg := vx.Try(func() { run(secret) })
	res := trace.Stop()
	if kind != "" {
		return res, msg
	}
	return res, ""
}

func c08diff(a, b trace.Result) string {
	var ids []uint32
	for id := range a.Sites {
		if b.Sites[id] != a.Sites[id] {
			ids = append(ids, id)
		}
	}
	for id := range b.Sites {
		if _, ok := a.Sites[id]; !ok {
			ids = append(ids, id)
		}
	}
	sort.Slice(ids, func(i, j int) bool { return c08sites[ids[i]].Loc < c08sites[ids[j]].Loc })
	var out []string
	for _, id := range ids {
		s := c08sites[id]
		out = append(out, fmt.Sprintf("%s %s in %s", s.Kind, s.Loc, s.Func))
		if len(out) >= 4 {
			break
		}
	}
	return strings.Join(out, "; ")
}

// c08diverge re-runs two secrets with full sequence recording and describes the first event at which they diverge.
// The description (kind, function, source text of the site) is stable under line shifts and identifies the leak site.
func c08diverge(run func([]byte), a, b []byte) string {
	rec := func(s []byte) []uint64 {
		trace.StartSeq()
		vx.Try(func() { run(s) })
		return trace.StopSeq()
	}
	sa, sb := rec(a), rec(b)
	n := len(sa)
	if len(sb) < n {
		n = len(sb)
	}
	i := 0
	for i < n && sa[i] == sb[i] {
		i++
	}
	desc := func(seq []uint64, i int) string {
		if i >= len(seq) {
			return "end-of-trace"
		}
		// an index event is (site|2<<40) followed by the value; if we are on the value, step back to its site
		ev := seq[i]
		if i > 0 && seq[i-1]>>40 == 2 && ev>>40 != 2 && ev>>40 != 1 {
			if _, isSite := c08sites[uint32(ev)]; !isSite || true {
				ev = seq[i-1]
			}
		}
		st, ok := c08sites[uint32(ev&0xffffffff)]
		if !ok {
			return "unknown-site"
		}
		return fmt.Sprintf("%s@%s[%s]", st.Kind, st.Func, st.Text)
	}
	da, db := desc(sa, i), desc(sb, i)
	if da == db {
		return da
	}
	if da > db {
		da, db = db, da
	}
	return da + " | " + db
}

// c08operandsPublic: a call that leaves the module from an executed block is harmless when every value-bearing operand
// (receiver and arguments: big integers, byte strings, integers - recorded by the instrumenter right before the
// statement) is a *public* value of this run: a constant of the curve, a public input, a published output, or the
// sum / difference of two of them that the standard's own formulas form (x1 = r - e, e + x1). Operands the
// instrumenter could not read ("?") and calls it could not hook count as not public.
func c08operandsPublic(g c08group, res trace.Result, x c08extcall) bool {
	if x.XSite == 0 {
		return false
	}
	execs, ok := res.Ext[x.XSite]
	if !ok {
		return false
	}
	pubs := map[string]bool{"": true}
	var base []*big.Int
	for _, v := range []int64{0, 1, 2, 3} {
		base = append(base, big.NewInt(v))
	}
	base = append(base, bigN, sm2ref.P, new(big.Int).Sub(bigN, bigOne), new(big.Int).Sub(bigN, big.NewInt(2)), sm2ref.Gx, sm2ref.Gy, sm2ref.A, sm2ref.B)
	if g.pub != nil {
		base = append(base, g.pub(vx.UnHex(g.secrets[0]))...)
	}
	for _, v := range base {
		pubs[trace.Canon(v)] = true
	}
	for _, ops := range execs {
		for _, o := range ops {
			if !pubs[o] {
				return false
			}
		}
	}
	return true
}

func c08groups() []c08group {
	th := vx.Thorough()
	var gs []c08group
	add := func(name string, secrets [][]byte, run func([]byte)) {
		if len(secrets) == 0 {
			return
		}
		g := c08group{name: name, run: run}
		for _, s := range secrets {
			g.secrets = append(g.secrets, vx.Hex(s))
		}
		gs = append(gs, g)
	}
	one := bigOne
	max := new(big.Int).Sub(new(big.Int).Lsh(one, 256), one)
	// ---- base multiplication: every window value at every window position (6-3-14-4), zero and seeded background
	var base [][]byte
	for pos := 0; pos < 42; pos++ {
		for bg := 0; bg < 2; bg++ {
			if bg == 1 && !th && pos%6 != 0 {
				continue
			}
			b0 := new(big.Int)
			if bg == 1 {
				b0.SetBytes(vx.Fill(fmt.Sprintf("c08bg%d", pos), 32))
			}
			for bit := 0; bit < 6; bit++ {
				b0.SetBit(b0, 4+pos+bit*42, 0)
			}
			for v := 0; v < 64; v++ {
				k := new(big.Int).Set(b0)
				for bit := 0; bit < 6; bit++ {
					if v>>uint(bit)&1 == 1 {
						k.SetBit(k, 4+pos+bit*42, 1)
					}
				}
				base = append(base, b32(k))
			}
		}
	}
	for v := 0; v < 16; v++ {
		base = append(base, b32(big.NewInt(int64(v))))
	}
	for _, v := range []*big.Int{new(big.Int).Sub(bigN, one), bigN, new(big.Int).Add(bigN, one), max} {
		base = append(base, b32(v))
	}
	for l := 1; l <= 32; l++ {
		z := make([]byte, 32)
		f := bytes.Repeat([]byte{0xff}, 32)
		copy(z[l:], vx.Fill("c08pre", 32-l))
		copy(f[l:], vx.Fill("c08pre", 32-l))
		base = append(base, z, f)
	}
	add("ScalarBaseMult", base, func(k []byte) { internal.ScalarBaseMult(k) })
	var validKeys [][]byte
	for _, k := range base[64:400] {
		if sm2ref.ValidKey(bi(k)) {
			validKeys = append(validKeys, k)
		}
	}
	add("DerivePublic(valid keys)", validKeys, func(k []byte) { sm2.DerivePublic(k) })
	gs[len(gs)-1].pub = func(k []byte) []*big.Int {
		px, py := sm2ref.Pub(bi(k))
		return []*big.Int{bi(px), bi(py), bi(append(append([]byte{4}, px...), py...))}
	}
	// ---- variable point multiplication: per (point, length)
	pts := map[string]sm2ref.Point{"G": sm2ref.G(), "2G": sm2ref.Add(sm2ref.G(), sm2ref.G()), "S": sm2ref.BaseMul(modN(bi(vx.Fill("c08pt", 32))))}
	for _, pn := range []string{"G", "2G", "S"} {
		p := pts[pn]
		enc := append(append([]byte{4}, b32(p.X)...), b32(p.Y)...)
		for _, l := range []int{1, 31, 32, 33} {
			var ss [][]byte
			for pos := 0; pos < 2*l; pos++ {
				if !th && l > 1 && pos%5 != 0 {
					continue
				}
				for v := 0; v < 16; v++ {
					s := make([]byte, l)
					if pos%2 == 1 {
						copy(s, vx.Fill("c08sm", l))
					}
					sh := uint(4 * (1 - pos%2))
					s[pos/2] = s[pos/2]&^(0xf<<sh) | byte(v)<<sh
					ss = append(ss, s)
				}
			}
			ss = append(ss, make([]byte, l), bytes.Repeat([]byte{0xff}, l))
			add(fmt.Sprintf("ScalarMult(%s,len%d)", pn, l), ss, func(s []byte) {
				pt, _ := internal.NewSM2Point().SetBytes(enc)
				internal.ScalarMult(pt, s)
			})
		}
	}
	// ---- point operations on all operand pairs (complete formulas: no special cases)
	var pairs [][]byte
	names := []string{"O", "G", "-G", "2G", "S"}
	encs := map[string][]byte{"O": {0}}
	for n, p := range map[string]sm2ref.Point{"G": sm2ref.G(), "-G": sm2ref.Neg(sm2ref.G()), "2G": pts["2G"], "S": pts["S"]} {
		encs[n] = append(append([]byte{4}, b32(p.X)...), b32(p.Y)...)
	}
	for _, a := range names {
		for _, b := range names {
			pairs = append(pairs, append(append([]byte{byte(len(encs[a]))}, encs[a]...), encs[b]...))
		}
	}
	dec := func(s []byte) (*internal.SM2Point, *internal.SM2Point) {
		la := int(s[0])
		// every operand is built by the same sequence of calls whatever its value (as the secret-dependent points of the
		// library are: they come out of Select / MultiSelect / Add / Double, never out of a decoder that is given one of
		// two encodings by the secret): decode a finite point, make an infinity, take one of the two by Select. A point
		// that remembers how it was built then has the same memory for every operand value
		mk := func(enc []byte) *internal.SM2Point {
			finite := 1
			if len(enc) == 1 {
				enc, finite = encs["G"], 0
			}
			fin, _ := internal.NewSM2Point().SetBytes(enc)
			return internal.NewSM2Point().Select(fin, internal.NewSM2Point(), finite)
		}
		p1, p2 := mk(s[1:1+la]), mk(s[1+la:])
		// scale through a doubling-free path so that Z != 1 as well: p + O
		return internal.NewSM2Point().Add(p1, internal.NewSM2Point()), p2
	}
	// decoding differs between infinity and finite encodings, so decode outside the recording
	add("SM2Point.Add", pairs, func(s []byte) {
		trace.Stop()
		p1, p2 := dec(s)
		trace.Start(true)
		internal.NewSM2Point().Add(p1, p2)
	})
	add("SM2Point.Double", pairs[:len(names)*len(names)], func(s []byte) {
		trace.Stop()
		p1, _ := dec(s)
		trace.Start(true)
		internal.NewSM2Point().Double(p1)
	})
	add("SM2Point.Select", pairs, func(s []byte) {
		trace.Stop()
		p1, p2 := dec(s)
		trace.Start(true)
		internal.NewSM2Point().Select(p1, p2, int(s[1])&1)
		internal.NewSM2Point().Negate(p1)
	})
	// ---- inversions and element helpers
	var elems [][]byte
	for _, v := range []*big.Int{big.NewInt(0), one, big.NewInt(2), new(big.Int).Sub(sm2ref.P, one), new(big.Int).Sub(bigN, one), new(big.Int).Lsh(one, 64), new(big.Int).Lsh(one, 128),
		new(big.Int).Lsh(one, 192), new(big.Int).Sub(new(big.Int).Lsh(one, 64), one), new(big.Int).Sub(new(big.Int).Lsh(one, 255), one)} {
		elems = append(elems, b32(v))
	}
	ns := 32
	if th {
		ns = 256
	}
	for i := 0; i < ns; i++ {
		elems = append(elems, b32(modN(bi(vx.Fill(fmt.Sprintf("c08el%d", i), 32)))))
	}
	// values that agree with m-1 on a prefix of every length (an early-exit comparison would stop at a different byte)
	for _, m := range []*big.Int{sm2ref.P, bigN} {
		mm1 := b32(new(big.Int).Sub(m, one))
		for i := 0; i < 32; i++ {
			v := append([]byte{}, mm1...)
			if v[i] == 0 {
				continue
			}
			v[i]--
			elems = append(elems, v)
		}
	}
	var elemsP, elemsN [][]byte
	for _, e := range elems {
		if bi(e).Cmp(new(big.Int).Sub(sm2ref.P, bigOne)) < 0 {
			elemsP = append(elemsP, e)
		}
		if bi(e).Cmp(new(big.Int).Sub(bigN, bigOne)) < 0 { // n-1 itself is the comparison helper's "equal" verdict class
			elemsN = append(elemsN, e)
		}
	}
	add("SM2Element.SetBytes+Invert+Equal+IsZero+Bytes", elemsP, func(s []byte) {
		e, err := new(fiat.SM2Element).SetBytes(s)
		if err == nil {
			inv := new(fiat.SM2Element).Invert(e)
			inv.Equal(e)
			inv.IsZero()
			inv.Bytes()
			new(fiat.SM2Element).Select(inv, e, int(s[31])&1)
		}
	})
	add("SM2ScalarElement.SetBytes+Invert+Equal+IsZero+Bytes", elemsN, func(s []byte) {
		e, err := new(fiat.SM2ScalarElement).SetBytes(s)
		if err == nil {
			inv := new(fiat.SM2ScalarElement).Invert(e)
			inv.Equal(e)
			inv.IsZero()
			inv.Bytes()
			new(fiat.SM2ScalarElement).Select(inv, e, int(s[31])&1)
		}
	})
	add("SM2ScalarElement.Invert+Equal+IsZero+Bytes (unused)", nil, func(s []byte) {
		trace.Stop()
		e, err := new(fiat.SM2ScalarElement).SetBytes(s)
		trace.Start(true)
		if err == nil {
			inv := new(fiat.SM2ScalarElement).Invert(e)
			inv.Equal(e)
			inv.IsZero()
			inv.Bytes()
			new(fiat.SM2ScalarElement).Select(inv, e, int(s[31])&1)
		}
	})
	// ---- table selection: every selector value for widths 15, 63 (XY) and 15 (XYZ via ScalarMult above)
	for _, width := range []int{15, 31, 63, 127} {
		width := width
		var sel [][]byte
		for b := 0; b <= width; b++ {
			sel = append(sel, []byte{byte(b)})
		}
		tab := make([][]*[4]uint64, 3)
		for c := 0; c < 3; c++ {
			tab[c] = make([]*[4]uint64, width)
			for i := range tab[c] {
				tab[c][i] = &[4]uint64{uint64(i + 1), uint64(c), 3, 4}
			}
		}
		add(fmt.Sprintf("MultiSelectXY/XYZ(width %d)", width), sel, func(s []byte) {
			internal.NewSM2Point().MultiSelectXY(&tab, width, s[0])
			internal.NewSM2Point().MultiSelectXYZ(&tab, width, s[0])
		})
	}
	// ---- private-key range test and comparison: per verdict class
	nm1 := b32(new(big.Int).Sub(bigN, one))
	var accept, reject, zero [][]byte
	for i := 0; i < 32; i++ {
		lo := append([]byte{}, nm1...)
		if lo[i] > 0 {
			lo[i]--
			for k := i + 1; k < 32; k++ {
				lo[k] = 0xff
			}
			accept = append(accept, lo)
			lo2 := append([]byte{}, lo...)
			for k := i + 1; k < 32; k++ {
				lo2[k] = 0
			}
			if bi(lo2).Sign() != 0 {
				accept = append(accept, lo2)
			}
		}
		hi := append([]byte{}, nm1...)
		if hi[i] < 0xff {
			hi[i]++
			for k := i + 1; k < 32; k++ {
				hi[k] = 0
			}
			reject = append(reject, hi)
			hi2 := append([]byte{}, hi...)
			for k := i + 1; k < 32; k++ {
				hi2[k] = 0xff
			}
			reject = append(reject, hi2)
		}
	}
	accept = append(accept, b32(one), b32(new(big.Int).Sub(bigN, big.NewInt(2))))
	reject = append(reject, b32(bigN), bytes.Repeat([]byte{0xff}, 32))
	zero = append(zero, make([]byte, 32))
	// verdict classes follow the comparison helper's three-way result: below n-1 (accepted), equal to n-1, above n-1
	add("TestPrivateKey(accepted)", accept, func(s []byte) { sm2.TestPrivateKey(s) })
	add("TestPrivateKey(rejected: > n-1)", reject, func(s []byte) { sm2.TestPrivateKey(s) })
	_ = zero
	// ---- whole signing and key-generation paths: secrets = (d, k) resp. the candidate d; digest fixed
	var dk [][]byte
	for i := 0; i < 24; i++ {
		d := b32(modN(bi(vx.Fill(fmt.Sprintf("c08d%d", i), 32))))
		k := b32(modN(bi(vx.Fill(fmt.Sprintf("c08k%d", i), 32))))
		dk = append(dk, append(d, k...))
	}
	// shapes that real keys/nonces hit with probability 2^-8: leading zero bytes in d+1, k, r+k
	for _, z := range []int{1, 2, 8} {
		d := b32(shaped(z, 2, "c08dz"))
		k := b32(shaped(z, 2, "c08kz"))
		dk = append(dk, append(append([]byte{}, d...), dk[0][32:]...), append(append([]byte{}, dk[0][:32]...), k...))
	}
	// leading 0xFF bytes (1..3; four would exceed n) and single leading 0x00..0x80 bytes on k and on d
	for _, pre := range [][]byte{{0xff}, {0xff, 0xff}, {0xff, 0xff, 0xff}, {0xfe}, {0x80}, {0x7f}, {0x01}} {
		k := append([]byte{}, dk[1][32:]...)
		copy(k, pre)
		d := append([]byte{}, dk[2][:32]...)
		copy(d, pre)
		dk = append(dk, append(append([]byte{}, dk[0][:32]...), k...), append(append([]byte{}, d...), dk[0][32:]...))
	}
	eFixed := vx.Fill("c08e", 32)
	add("SignHashed(d,k)", dk, func(s []byte) { sm2.SignHashed(stream(s[32:], s[32:]), s[:32], eFixed) })
	gs[len(gs)-1].pub = func(s []byte) []*big.Int {
		// published: e, r, s; derivable from them: x1 = (r - e) mod n (also + n where that is still below p), e + x1
		e := bi(eFixed)
		out := []*big.Int{e}
		sg, err := sm2ref.Sign(stream(s[32:], s[32:]), bi(s[:32]), eFixed)
		if err != nil {
			return out
		}
		r, sv := bi(sg.R), bi(sg.S)
		out = append(out, r, sv)
		x1 := modN(new(big.Int).Sub(r, e))
		for _, x := range []*big.Int{x1, new(big.Int).Add(x1, bigN)} {
			if x.Cmp(sm2ref.P) < 0 {
				out = append(out, x, new(big.Int).Add(x, e))
			}
		}
		return out
	}
	add("GenerateKey(d)", dk, func(s []byte) { sm2.GenerateKey(io.MultiReader(stream(s[:32]))) })
	pubOfKey := func(d []byte) []*big.Int {
		px, py := sm2ref.Pub(bi(d))
		return []*big.Int{bi(px), bi(py), bi(append(append([]byte{4}, px...), py...))}
	}
	gs[len(gs)-1].pub = func(s []byte) []*big.Int { return pubOfKey(s[:32]) }
	for _, L := range []int{32, 1, 7, 8, 20, 31, 33, 64} {
		for _, verdict := range []int{-1, 0, 1} {
			verdict, L := verdict, L
			var ss [][]byte
			ref := vx.Fill("c08cmpref", L)
			for i := 0; i < L; i++ {
				if verdict == 0 {
					continue
				}
				a := append([]byte{}, ref...)
				v := int(a[i]) + verdict
				if v < 0 || v > 255 {
					continue
				}
				a[i] = byte(v)
				for _, tail := range []byte{0, 0xff} {
					b := append([]byte{}, a...)
					for k := i + 1; k < L; k++ {
						b[k] = tail
					}
					ss = append(ss, b)
				}
			}
			if verdict == 0 {
				ss = append(ss, ref, ref)
			}
			name := fmt.Sprintf("ConstantTimeCmp(verdict %d)", verdict)
			if L != 32 {
				name = fmt.Sprintf("ConstantTimeCmp(l=%d, verdict %d)", L, verdict)
			}
			add(name, ss, func(s []byte) { utils.ConstantTimeCmp(s, ref, L) })
		}
	}
	return gs
}

func TestVX_C08(t *testing.T) {
	r := vx.Begin("C08", "ct-trace", "trace monitor over the instrumented Go sources (utils, fiat, internal, sm2): an event at every basic-block entry, at every evaluated short-circuit operand and for every non-constant index / slice bound (with its value); within a group (one primitive, fixed public parameters and final verdict) all enumerated secrets must produce the identical event trace: ScalarBaseMult on every window value at every window position + boundary scalars + 0x00/0xFF prefixes of every length; ScalarMult per (point, scalar length) on every nibble value at every position; Add/Double/Select/Negate over all operand pairs of {O,G,-G,2G,S}; field/scalar Invert, Equal, IsZero, Bytes, Select; MultiSelectXY/XYZ on every selector value; TestPrivateKey and ConstantTimeCmp (lengths 1,7,8,20,31,32,33,64) per verdict class with the first differing byte at every position. Additionally every function executed in a group may statically call only math/bits, crypto/subtle, errors/fmt (error paths), encoding/binary and math.Pow outside the module")
	defer r.End()
	selfCheck()
	if !c08load() {
		r.NotExhaustive("trace site tables not found (instrumented tree missing)")
		return
	}
	groups := c08groups()
	if raw, ok := vx.Replay("ct-trace"); ok {
		var c c08case
		json.Unmarshal(raw, &c)
		for _, g := range groups {
			if g.name == c.Group {
				a, _ := c08record(g.run, vx.UnHex(c.Other), true)
				b, _ := c08record(g.run, vx.UnHex(c.Secret), true)
				r.Eval(2)
				if a.Hash != b.Hash || a.Events != b.Events {
					r.Violation("ct:trace-differs:"+g.name+":"+c08diverge(g.run, vx.UnHex(c.Other), vx.UnHex(c.Secret)), fmt.Sprintf("%s: secrets %s and %s give different traces; first differing sites: %s", g.name, c.Other, c.Secret, c08diff(a, b)), c)
				}
			}
		}
		return
	}
	executedFuncs := map[string]map[string]bool{}
	for gi, g := range groups {
		if !vx.MineIdx(gi) {
			continue
		}
		var ref trace.Result
		extVaries := map[uint32]bool{} // hooked operand lists that are not the same for every secret of the group
		distinct := map[uint64]bool{}
		same := func(a, b trace.Result) bool { return a.Hash == b.Hash && a.Events == b.Events }
		// warm-up: what the first call of a process does differently (a pool's constructor, a lazily built table) is
		// history, not a dependence on the secret
		c08record(g.run, vx.UnHex(g.secrets[0]), false)
		for i, s := range g.secrets {
			sec := vx.UnHex(s)
			res, pmsg := c08record(g.run, sec, true)
			r.Eval(1)
			if pmsg != "" {
				r.Violation("ct:panic:"+g.name, fmt.Sprintf("%s panicked on secret %s: %s", g.name, s, pmsg), c08case{g.name, s, g.secrets[0]})
				continue
			}
			if i == 0 {
				ref = res
				fs := map[string]bool{}
				for id := range res.Sites {
					if st, ok := c08sites[id]; ok && st.Kind == "func" {
						fs[st.Func] = true
					}
				}
				executedFuncs[g.name] = fs
			}
			distinct[res.Hash^res.Events<<48] = true
			for xs, ops := range ref.Ext {
				if fmt.Sprint(res.Ext[xs]) != fmt.Sprint(ops) {
					extVaries[xs] = true
				}
			}
			if !same(res, ref) {
				// secret-dependent or history-dependent (pools emptied by the collector, caches)? The sequence A A B B A B
				// (A = the group's first secret, B = this one) is recorded repeatedly until two consecutive passes agree
				// position by position. All six equal: a history effect that has died out. A's equal, B's equal, A != B:
				// dependence on the secret's value. Anything else that is stable: the trace depends on whether the secret
				// repeats the previous call's secret - also a dependence on secrets.
				verdict := "unstable"
				first := vx.UnHex(g.secrets[0])
				seqS := [][]byte{first, first, sec, sec, first, sec}
				pass := func() []trace.Result {
					out := make([]trace.Result, len(seqS))
					for k, x := range seqS {
						out[k], _ = c08record(g.run, x, true)
					}
					return out
				}
				var a1, b1 trace.Result
				prev := pass()
				for try := 0; try < 4 && verdict == "unstable"; try++ {
					cur := pass()
					stable := true
					for k := range cur {
						stable = stable && same(cur[k], prev[k])
					}
					if stable {
						allEq := true
						for k := range cur {
							allEq = allEq && same(cur[k], cur[0])
						}
						switch {
						case allEq:
							verdict, ref = "history", cur[0]
						case same(cur[0], cur[1]) && same(cur[0], cur[4]) && same(cur[2], cur[3]) && same(cur[2], cur[5]):
							verdict, a1, b1 = "data", cur[0], cur[2]
						default:
							verdict, a1, b1 = "repeat", cur[2], cur[3]
						}
					}
					prev = cur
				}
				switch verdict {
				case "data":
					where := c08diverge(g.run, first, sec)
					r.Violation("ct:trace-differs:"+g.name+":"+where, fmt.Sprintf("%s: the executed blocks / indexed locations depend on the secret: %s vs %s (reproduced in alternating order); the traces first diverge at %s; sites with differing counts: %s", g.name, g.secrets[0], s, where, c08diff(a1, b1)), c08case{g.name, s, g.secrets[0]})
				case "repeat":
					r.Violation("ct:trace-differs-on-repeated-secret:"+g.name, fmt.Sprintf("%s: the executed blocks depend on whether the secret equals the secret of the previous call (sequence A A B B A B with A=%s, B=%s, stable over two passes); sites with differing counts between 'B after A' and 'B after B': %s", g.name, g.secrets[0], s, c08diff(a1, b1)), c08case{g.name, s, g.secrets[0]})
				case "history":
					r.Add("observation_history_dependent_trace_differences", 1)
				default:
					r.Add("observation_unstable_traces", 1)
					r.NotExhaustive("traces of group " + g.name + " did not stabilise (history-dependent code such as pools): the group is not judged")
				}
			}
		}
		r.Shape(g.name)
		r.Set("group_"+g.name, map[string]interface{}{"secrets": len(g.secrets), "distinct_traces": len(distinct), "events_per_trace": ref.Events, "functions_executed": len(executedFuncs[g.name])})
		r.Sample(map[string]interface{}{"group": g.name, "secrets": len(g.secrets), "distinct_traces": len(distinct), "events": ref.Events, "first_secret": g.secrets[0]})
		// external callees of the *executed blocks* of this group must be on the constant-time whitelist
		for _, x := range c08ext {
			if _, executed := ref.Sites[x.Site]; !executed {
				continue
			}
			ok := false
			for _, a := range c08allowed {
				if strings.Contains(x.Callee, a) {
					ok = true
				}
			}
			if !ok && strings.HasPrefix(x.Callee, "runtime.memequal [") && x.XSite != 0 && !extVaries[x.XSite] {
				// a compiler-generated memory comparison whose operands are the same values for every secret of the group
				// (a flag-guarded test against a constant, a comparison of public inputs) cannot tell the secrets apart
				ok = true
			}
			if !ok && !c08operandsPublic(g, ref, x) {
				r.Violation(fmt.Sprintf("ct:external-callee:%s:%s->%s", g.name, x.Func, x.Callee), fmt.Sprintf("%s: executed block at %s in %s calls %s on the secret path; its control flow is invisible to the monitor and it is not on the constant-time whitelist (math/bits, crypto/subtle, error constructors)", g.name, x.Loc, x.Func, x.Callee), c08case{Group: g.name, Secret: g.secrets[0], Other: g.secrets[0]})
			}
		}
	}
}

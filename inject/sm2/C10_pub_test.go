//go:build verif

package sm2_test

import (
	"bytes"
	"fmt"
	"testing"

	"github.com/bilibili/smgo/sm2"
	"verif/guard"
	"verif/refs/sm2ref"
	"verif/vx"
)

// c10arena lays all arguments out inside one backing array: every argument is a sub-slice whose capacity extends over
// whatever follows it (as with fields of one serialized record), separated by canary bytes. After each call the whole
// array must be unchanged, so a write into the spare capacity of an input (append on an argument) is seen.
var c10ro = guard.NewRO(4)

type c10arena struct {
	buf  []byte
	snap []byte
}

func (a *c10arena) add(b []byte) []byte {
	a.buf = append(a.buf, bytes.Repeat([]byte{0xC3}, 8)...)
	off := len(a.buf)
	a.buf = append(a.buf, b...)
	return a.buf[off : off+len(b)] // capacity deliberately runs on into the following fields
}

func TestVX_C10_SM2(t *testing.T) {
	r := vx.Begin("C10", "inputs-sm2", "every SM2 entry point (DerivePublic, CheckOnCurve, TestPrivateKey, ZA, Sign, SignZa, SignHashed, Verify, VerifyZa, VerifyHashed) called twice on the same buffers; the arguments live in one backing array in several field orders (each argument's capacity runs on into the next fields, canaries in between), and the whole array is compared before/after, so writes into an argument or into its spare capacity are seen; both calls must agree; over keys {1, seeded x3} x message/id lengths {0,1,55,64,200}")
	defer r.End()
	selfCheck()
	orders := [][]string{
		{"priv", "pubx", "puby", "id", "msg", "za", "e", "r", "s"},
		{"pubx", "r", "s", "puby", "e", "za", "msg", "id", "priv"},
		{"s", "r", "e", "za", "puby", "pubx", "priv", "msg", "id"},
	}
	for ki, d0 := range [][]byte{b32(bigOne), b32(modN(bi(vx.Fill("c10d0", 32)))), b32(modN(bi(vx.Fill("c10d1", 32)))), b32(modN(bi(vx.Fill("c10d2", 32))))} {
		px0, py0 := sm2ref.Pub(bi(d0))
		for _, l := range []int{0, 1, 55, 64, 200} {
			for oi, order := range orders {
				id0 := vx.Fill("c10id", l)
				msg0 := vx.Fill("c10msg", l)
				k := b32(modN(bi(vx.Fill(fmt.Sprintf("c10k%d", l), 32))))
				za0, _ := sm2ref.ZA(id0, px0, py0)
				e0 := sm2ref.E(za0[:], msg0)
				sg, err := sm2ref.Sign(stream(k), bi(d0), e0[:])
				if err != nil {
					continue
				}
				vals := map[string][]byte{"priv": d0, "pubx": px0, "puby": py0, "id": id0, "msg": msg0, "za": za0[:], "e": e0[:], "r": sg.R, "s": sg.S}
				ar := &c10arena{buf: make([]byte, 0, 2048)}
				arg := map[string][]byte{}
				for _, name := range order {
					arg[name] = ar.add(vals[name])
				}
				ar.buf = append(ar.buf, bytes.Repeat([]byte{0xC3}, 64)...)
				ar.snap = append([]byte{}, ar.buf...)
				d, px, py, id, msg, za, e, rr, ss := arg["priv"], arg["pubx"], arg["puby"], arg["id"], arg["msg"], arg["za"], arg["e"], arg["r"], arg["s"]
				calls := map[string]func() string{
					"DerivePublic":   func() string { x, y, e := sm2.DerivePublic(d); return fmt.Sprintf("%x %x %v", x, y, e) },
					"CheckOnCurve":   func() string { return fmt.Sprint(sm2.CheckOnCurve(px, py)) },
					"TestPrivateKey": func() string { return fmt.Sprint(sm2.TestPrivateKey(d)) },
					"ZA":             func() string { z, e := sm2.ZA(id, px, py); return fmt.Sprintf("%x %v", z, e) },
					"Sign": func() string {
						a, b, e := sm2.Sign(id, px, py, stream(k), d, msg)
						return fmt.Sprintf("%x %x %v", a, b, e)
					},
					"SignZa":       func() string { a, b, e := sm2.SignZa(stream(k), d, za, msg); return fmt.Sprintf("%x %x %v", a, b, e) },
					"SignHashed":   func() string { a, b, e := sm2.SignHashed(stream(k), d, e); return fmt.Sprintf("%x %x %v", a, b, e) },
					"Verify":       func() string { ok, e := sm2.Verify(id, px, py, msg, rr, ss); return fmt.Sprint(ok, e) },
					"VerifyZa":     func() string { ok, e := sm2.VerifyZa(px, py, za, msg, rr, ss); return fmt.Sprint(ok, e) },
					"VerifyHashed": func() string { ok, e := sm2.VerifyHashed(px, py, e, rr, ss); return fmt.Sprint(ok, e) },
				}
				want := map[string]string{
					"DerivePublic": fmt.Sprintf("%x %x <nil>", px0, py0), "CheckOnCurve": "true", "TestPrivateKey": "0",
					"ZA": fmt.Sprintf("%x <nil>", za0), "Sign": fmt.Sprintf("%x %x <nil>", sg.R, sg.S), "SignZa": fmt.Sprintf("%x %x <nil>", sg.R, sg.S),
					"SignHashed": fmt.Sprintf("%x %x <nil>", sg.R, sg.S), "Verify": "true <nil>", "VerifyZa": "true <nil>", "VerifyHashed": "true <nil>",
				}
				for _, name := range []string{"DerivePublic", "CheckOnCurve", "TestPrivateKey", "ZA", "Sign", "SignZa", "SignHashed", "Verify", "VerifyZa", "VerifyHashed"} {
					f := calls[name]
					r.Eval(2)
					var a, b string
					kind, m := vx.Try(func() { a = f(); b = f() })
					cs := map[string]interface{}{"fn": name, "key": ki, "len": l, "order": oi}
					if kind != "" {
						r.Violation("buf:sm2:"+name+":panic", m, cs)
						copy(ar.buf, ar.snap)
						continue
					}
					if a != b {
						r.Violation("buf:sm2:"+name+":repeat-differs", fmt.Sprintf("%s: first %s then %s", name, a, b), cs)
					} else if a != want[name] {
						r.Violation("buf:sm2:"+name+":wrong-with-adjacent-buffers", fmt.Sprintf("%s returned %s, expected %s, when its arguments are adjacent fields of one buffer", name, a, want[name]), cs)
					}
					if !bytes.Equal(ar.buf, ar.snap) {
						first := 0
						for first < len(ar.buf) && ar.buf[first] == ar.snap[first] {
							first++
						}
						r.Violation("buf:sm2:"+name+":writes-caller-memory", fmt.Sprintf("%s modified the caller's buffer (an argument or the spare capacity behind it) at offset %d; field order %v", name, first, order), cs)
						copy(ar.buf, ar.snap)
					}
					r.Shape(fmt.Sprintf("%s:k%d:l%d:o%d", name, ki, l, oi))
					r.Sample(cs)
				}
				// the same calls with every argument in memory the process may read but not write: a call that stores into one
				// of its inputs - even if it puts the bytes back before it returns, which the comparison above cannot see -
				// faults
				if oi == 0 {
					sd, spx, spy, sid, smsg, sza, se, srr, sss := d, px, py, id, msg, za, e, rr, ss
					c10ro.Reset()
					d, px, py, id, msg, za, e, rr, ss = c10ro.Put(vals["priv"]), c10ro.Put(vals["pubx"]), c10ro.Put(vals["puby"]), c10ro.Put(vals["id"]), c10ro.Put(vals["msg"]), c10ro.Put(vals["za"]), c10ro.Put(vals["e"]), c10ro.Put(vals["r"]), c10ro.Put(vals["s"])
					c10ro.Seal()
					for _, name := range []string{"DerivePublic", "CheckOnCurve", "TestPrivateKey", "ZA", "Sign", "SignZa", "SignHashed", "Verify", "VerifyZa", "VerifyHashed"} {
						r.Eval(1)
						var a string
						kind, m := vx.TryFault(func() { a = calls[name]() })
						cs := map[string]interface{}{"fn": name, "key": ki, "len": l, "order": oi, "memory": "read-only"}
						switch {
						case kind == "fault":
							r.Violation("buf:sm2:"+name+":writes-read-only-input", fmt.Sprintf("%s wrote to one of its arguments (all of them were placed in read-only memory): %s", name, m), cs)
						case kind != "":
							r.Violation("buf:sm2:"+name+":panic", m, cs)
						case a != want[name]:
							r.Violation("buf:sm2:"+name+":wrong-with-read-only-inputs", fmt.Sprintf("%s returned %s, expected %s", name, a, want[name]), cs)
						}
						r.Shape(fmt.Sprintf("%s:k%d:l%d:ro", name, ki, l))
					}
					c10ro.Reset()
					d, px, py, id, msg, za, e, rr, ss = sd, spx, spy, sid, smsg, sza, se, srr, sss
				}
				// buffer reuse history: the caller refills the *same* buffers with another user's data of the same lengths and
				// calls again; the answers must be those of the new contents (nothing may be remembered by buffer identity)
				{
					d2 := b32(modN(bi(vx.Fill(fmt.Sprintf("c10d2-%d", ki), 32))))
					px2, py2 := sm2ref.Pub(bi(d2))
					id2, msg2 := vx.Fill("c10id-second", l), vx.Fill("c10msg-second", l)
					za2, _ := sm2ref.ZA(id2, px2, py2)
					e2 := sm2ref.E(za2[:], msg2)
					sg2, err := sm2ref.Sign(stream(k), bi(d2), e2[:])
					if err == nil {
						copy(d, d2)
						copy(px, px2)
						copy(py, py2)
						copy(id, id2)
						copy(msg, msg2)
						copy(za, za2[:])
						copy(e, e2[:])
						copy(rr, sg2.R)
						copy(ss, sg2.S)
						want2 := map[string]string{
							"DerivePublic": fmt.Sprintf("%x %x <nil>", px2, py2), "CheckOnCurve": "true", "TestPrivateKey": "0",
							"ZA": fmt.Sprintf("%x <nil>", za2), "Sign": fmt.Sprintf("%x %x <nil>", sg2.R, sg2.S), "SignZa": fmt.Sprintf("%x %x <nil>", sg2.R, sg2.S),
							"SignHashed": fmt.Sprintf("%x %x <nil>", sg2.R, sg2.S), "Verify": "true <nil>", "VerifyZa": "true <nil>", "VerifyHashed": "true <nil>",
						}
						for _, name := range []string{"DerivePublic", "CheckOnCurve", "TestPrivateKey", "ZA", "Sign", "SignZa", "SignHashed", "Verify", "VerifyZa", "VerifyHashed"} {
							r.Eval(1)
							var a string
							kind, m := vx.Try(func() { a = calls[name]() })
							cs := map[string]interface{}{"fn": name, "key": ki, "len": l, "order": oi, "history": "refill"}
							if kind != "" {
								r.Violation("buf:sm2:"+name+":refill-panic", m, cs)
							} else if a != want2[name] {
								r.Violation("buf:sm2:"+name+":stale-after-refill", fmt.Sprintf("%s after the caller refilled the same buffers with other data returned %s, expected %s", name, a, want2[name]), cs)
							}
							r.Shape(fmt.Sprintf("refill:%s:k%d:l%d:o%d", name, ki, l, oi))
						}
					}
				}
			}
		}
	}
}

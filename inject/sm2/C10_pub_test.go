//go:build verif

package sm2_test

import (
	"bytes"
	"fmt"
	"testing"

	"github.com/bilibili/smgo/sm2"
	"verif/refs/sm2ref"
	"verif/vx"
)

func TestVX_C10_SM2(t *testing.T) {
	r := vx.Begin("C10", "inputs-sm2", "every SM2 entry point (DerivePublic, CheckOnCurve, TestPrivateKey, ZA, Sign, SignZa, SignHashed, Verify, VerifyZa, VerifyHashed) called twice on the same buffers with every argument snapshotted before and compared after; both calls must agree; over keys {1, n-2, seeded x2} x message/id lengths {0,1,55,64,200}")
	defer r.End()
	selfCheck()
	for ki, d := range [][]byte{b32(bigOne), b32(modN(bi(vx.Fill("c10d0", 32)))), b32(modN(bi(vx.Fill("c10d1", 32)))), b32(sm2ref.N)[:0]} {
		if len(d) == 0 {
			d = b32(modN(bi(vx.Fill("c10d2", 32))))
		}
		px, py := sm2ref.Pub(bi(d))
		for _, l := range []int{0, 1, 55, 64, 200} {
			id := vx.Fill("c10id", l)
			msg := vx.Fill("c10msg", l)
			k := b32(modN(bi(vx.Fill(fmt.Sprintf("c10k%d", l), 32))))
			za, _ := sm2ref.ZA(id, px, py)
			e := sm2ref.E(za[:], msg)
			sg, err := sm2ref.Sign(stream(k), bi(d), e[:])
			if err != nil {
				continue
			}
			type arg struct {
				name string
				b    []byte
			}
			args := []arg{{"priv", d}, {"pubx", px}, {"puby", py}, {"id", id}, {"msg", msg}, {"za", za[:]}, {"e", e[:]}, {"r", sg.R}, {"s", sg.S}}
			snap := map[string][]byte{}
			for _, a := range args {
				snap[a.name] = append([]byte{}, a.b...)
			}
			calls := map[string]func() string{
				"DerivePublic":   func() string { x, y, e := sm2.DerivePublic(d); return fmt.Sprintf("%x %x %v", x, y, e) },
				"CheckOnCurve":   func() string { return fmt.Sprint(sm2.CheckOnCurve(px, py)) },
				"TestPrivateKey": func() string { return fmt.Sprint(sm2.TestPrivateKey(d)) },
				"ZA":             func() string { z, e := sm2.ZA(id, px, py); return fmt.Sprintf("%x %v", z, e) },
				"Sign": func() string {
					a, b, e := sm2.Sign(id, px, py, stream(k), d, msg)
					return fmt.Sprintf("%x %x %v", a, b, e)
				},
				"SignZa": func() string {
					a, b, e := sm2.SignZa(stream(k), d, za[:], msg)
					return fmt.Sprintf("%x %x %v", a, b, e)
				},
				"SignHashed":   func() string { a, b, e := sm2.SignHashed(stream(k), d, e[:]); return fmt.Sprintf("%x %x %v", a, b, e) },
				"Verify":       func() string { ok, e := sm2.Verify(id, px, py, msg, sg.R, sg.S); return fmt.Sprint(ok, e) },
				"VerifyZa":     func() string { ok, e := sm2.VerifyZa(px, py, za[:], msg, sg.R, sg.S); return fmt.Sprint(ok, e) },
				"VerifyHashed": func() string { ok, e := sm2.VerifyHashed(px, py, e[:], sg.R, sg.S); return fmt.Sprint(ok, e) },
			}
			for _, name := range []string{"DerivePublic", "CheckOnCurve", "TestPrivateKey", "ZA", "Sign", "SignZa", "SignHashed", "Verify", "VerifyZa", "VerifyHashed"} {
				f := calls[name]
				r.Eval(2)
				var a, b string
				kind, m := vx.Try(func() { a = f(); b = f() })
				cs := map[string]interface{}{"fn": name, "key": ki, "len": l}
				if kind != "" {
					r.Violation("buf:sm2:"+name+":panic", m, cs)
					continue
				}
				if a != b {
					r.Violation("buf:sm2:"+name+":repeat-differs", fmt.Sprintf("%s: %s then %s", name, a, b), cs)
				}
				for _, ar := range args {
					if !bytes.Equal(ar.b, snap[ar.name]) {
						r.Violation("buf:sm2:"+name+":modifies-"+ar.name, fmt.Sprintf("%s modified its %s argument", name, ar.name), cs)
						copy(ar.b, snap[ar.name])
					}
				}
				r.Shape(fmt.Sprintf("%s:k%d:l%d", name, ki, l))
				r.Sample(cs)
			}
		}
	}
}

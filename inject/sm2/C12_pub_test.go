//go:build verif

package sm2_test

import (
	"bytes"
	"encoding/json"
	"fmt"
	"math/big"
	"testing"

	"github.com/bilibili/smgo/sm2"
	"verif/guard"
	"verif/refs/sm2ref"
	"verif/vx"
)

type c12case struct {
	Fn    string   // genkey | testpriv | derive | oncurve
	Args  []string // hex
	Shape string
	c12opts
}

type c12opts struct {
	// Served (genkey): the stream is delivered by a servedReader (answers produced by another goroutine while the
	// caller's stack is moved) and the call is made on a fresh goroutine
	Served bool
	// DataErr (genkey): the last bytes of the stream arrive together with io.EOF
	DataErr bool
}

var c12ro = guard.NewRO(2)

func c12eval(r *vx.R, c c12case) {
	r.Eval(1)
	a := make([][]byte, len(c.Args))
	for i, s := range c.Args {
		a[i] = vx.UnHex(s)
	}
	if c.Fn == "testpriv" || c.Fn == "derive" || c.Fn == "oncurve" {
		// queries only read their arguments: the arguments live in memory the process may not write (a store into an
		// input, even one that is undone before the call returns, faults)
		c12ro.Reset()
		for i := range a {
			a[i] = c12ro.Put(a[i])
		}
		c12ro.Seal()
		defer c12ro.Reset()
	}
	switch c.Fn {
	case "genkey":
		// args: candidates (32 bytes each); the reference picks the first one in [1,n-2]
		rd := stream(a...)
		var priv, x, y []byte
		var err error
		var kind, msg string
		if c.DataErr {
			// the stream ends with the first acceptable candidate, and the Read that delivers its last bytes reports the
			// end of the stream in the same call (n > 0 together with io.EOF - what iotest.DataErrReader does)
			used := 0
			for _, cand := range a {
				used += 32
				if sm2ref.ValidKey(bi(cand)) {
					break
				}
			}
			rd.data = rd.data[:used]
			kind, msg = vx.Try(func() { priv, x, y, err = sm2.GenerateKey(&dataErrReader{rd}) })
		} else if c.Served {
			onFresh(func() { kind, msg = vx.Try(func() { priv, x, y, err = sm2.GenerateKey(&servedReader{inner: rd}) }) })
		} else {
			kind, msg = vx.Try(func() { priv, x, y, err = sm2.GenerateKey(rd) })
		}
		if kind != "" {
			cls := "other"
			for _, cand := range a {
				if sm2ref.ValidKey(bi(cand)) {
					break
				}
				if bi(cand).Sign() == 0 {
					cls = "zero-candidate"
				}
			}
			r.Violation("keys:genkey:panic:"+cls, fmt.Sprintf("GenerateKey panicked on candidate stream %v: %s", c.Args, msg), c)
			return
		}
		var wantD *big.Int
		wantUsed := 0
		for _, cand := range a {
			wantUsed += 32
			if sm2ref.ValidKey(bi(cand)) {
				wantD = bi(cand)
				break
			}
		}
		if wantD == nil {
			if err == nil {
				r.Violation("keys:genkey:exhausted-stream-no-error", "stream without a valid candidate, but no error", c)
			}
			break
		}
		if err != nil {
			r.Violation("keys:genkey:error", fmt.Sprintf("GenerateKey failed: %v", err), c)
			break
		}
		if len(priv) != 32 || bi(priv).Cmp(wantD) != 0 {
			r.Violation("keys:genkey:wrong-d:returned-"+valClass(bi(priv)), fmt.Sprintf("GenerateKey returned d=%x, first candidate in [1,n-2] is %x", priv, wantD), c)
			break
		}
		if rd.pos != wantUsed {
			r.Violation("keys:genkey:consumed", fmt.Sprintf("consumed %d bytes, want %d", rd.pos, wantUsed), c)
		}
		wx, wy := sm2ref.Pub(wantD)
		if !bytes.Equal(x, wx) || !bytes.Equal(y, wy) {
			r.Violation("keys:genkey:wrong-pub", fmt.Sprintf("public key (%x,%x) is not [d]G", x, y), c)
		}
	case "testpriv":
		var got int
		kind, msg := vx.TryFault(func() { got = sm2.TestPrivateKey(a[0]) })
		if kind != "" {
			r.Violation("keys:testpriv:panic", msg, c)
			return
		}
		if len(a[0]) == 32 {
			want := sm2ref.ValidKey(bi(a[0]))
			if (got == 0) != want {
				r.Violation(fmt.Sprintf("keys:testpriv:accept=%v:%s", got == 0, valClass(bi(a[0]))), fmt.Sprintf("TestPrivateKey(%x)=%d but value in [1,n-2] is %v", a[0], got, want), c)
			}
		} else if len(a[0]) > 32 && got == 0 {
			r.Violation("keys:testpriv:accepts-long", fmt.Sprintf("TestPrivateKey accepted a %d-byte key", len(a[0])), c)
		}
	case "derive":
		var x, y []byte
		var err error
		keep := append([]byte{}, a[0]...)
		kind, msg := vx.TryFault(func() { x, y, err = sm2.DerivePublic(a[0]) })
		if kind != "" {
			r.Violation("keys:derive:panic:"+valClass(bi(a[0])), fmt.Sprintf("DerivePublic(%x) panicked: %s", a[0], msg), c)
			return
		}
		if !bytes.Equal(keep, a[0]) {
			r.Violation("keys:derive:input-modified", "DerivePublic modified the key", c)
		}
		if err != nil {
			if x != nil || y != nil {
				r.Violation("keys:derive:error-with-output", "error together with coordinates", c)
			}
			// an error is always allowed by the statement ("[d]G or an error"), but a valid key must derive
			if len(a[0]) == 32 && sm2ref.ValidKey(bi(a[0])) {
				r.Violation("keys:derive:valid-key-error", fmt.Sprintf("DerivePublic(%x) failed: %v", a[0], err), c)
			}
			break
		}
		if len(a[0]) != 32 {
			// lengths other than 32: whatever is returned without error must still be [d]G
		}
		p := sm2ref.BaseMul(bi(a[0]))
		if p.Inf {
			r.Violation("keys:derive:infinity:"+valClass(bi(a[0])), fmt.Sprintf("DerivePublic(%x) returned (%x,%x) for [d]G = O", a[0], x, y), c)
			break
		}
		if !bytes.Equal(x, sm2ref.Bytes32(p.X)) || !bytes.Equal(y, sm2ref.Bytes32(p.Y)) {
			r.Violation("keys:derive:wrong", fmt.Sprintf("DerivePublic(%x) is not [d]G", a[0]), c)
		}
	case "retain":
		// GenerateKey(a0), DerivePublic(a1), DerivePublic(a2), GenerateKey(a1): every result is copied when it is returned and
		// compared with the live slices at the end; the live results are also overwritten (the caller owns them), after
		// which a fresh derivation must still be right
		type res struct {
			name       string
			live, copy [][]byte
		}
		var all []res
		keepRes := func(name string, out ...[]byte) {
			rr := res{name: name, live: out}
			for _, o := range out {
				rr.copy = append(rr.copy, append([]byte{}, o...))
			}
			all = append(all, rr)
		}
		kind, msg := vx.Try(func() {
			// earlier traffic of the process: verifications (valid, forged with r+s = n+1 i.e. t = 1, forged with tiny t),
			// a signature - key operations afterwards must not notice
			pxv, pyv := sm2ref.Pub(bi(a[1]))
			ev := vx.Fill("c12prime", 32)
			for _, tv := range []int64{1, 2, 0x35, 0x3fff} {
				rv := modN(bi(vx.Fill("c12primer", 32)))
				sv := modN(new(big.Int).Sub(big.NewInt(tv), rv))
				sm2.VerifyHashed(pxv, pyv, ev, b32(rv), b32(sv))
			}
			sm2.SignHashed(bytes.NewReader(a[0]), a[1], ev)
			for round := 0; round < 2; round++ {
				d, x, y, err := sm2.GenerateKey(bytes.NewReader(a[0]))
				if err == nil {
					keepRes("GenerateKey#1", d, x, y)
				}
				x2, y2, err := sm2.DerivePublic(a[1])
				if err == nil {
					keepRes("DerivePublic#1", x2, y2)
				}
				x3, y3, err := sm2.DerivePublic(a[2])
				if err == nil {
					keepRes("DerivePublic#2", x3, y3)
				}
				d4, x4, y4, err := sm2.GenerateKey(bytes.NewReader(a[1]))
				if err == nil {
					keepRes("GenerateKey#2", d4, x4, y4)
				}
				sm2.CheckOnCurve(x2, y2)
			}
		})
		if kind != "" {
			r.Violation("keys:retain:panic", msg, c)
			return
		}
		for _, rr := range all {
			for i := range rr.live {
				if !bytes.Equal(rr.live[i], rr.copy[i]) {
					r.Violation("keys:retain:result-changed-later", fmt.Sprintf("output #%d of %s changed while later calls ran: was %x, now %x", i, rr.name, rr.copy[i], rr.live[i]), c)
				}
			}
		}
		for _, rr := range all {
			for _, o := range rr.live {
				for i := range o {
					o[i] ^= 0xa5
				}
			}
		}
		p := sm2ref.BaseMul(bi(a[1]))
		x, y, err := sm2.DerivePublic(a[1])
		if err != nil || !bytes.Equal(x, sm2ref.Bytes32(p.X)) || !bytes.Equal(y, sm2ref.Bytes32(p.Y)) {
			r.Violation("keys:retain:wrong-after-caller-overwrote-results", fmt.Sprintf("DerivePublic(%x) wrong after the caller overwrote earlier results: err=%v", a[1], err), c)
		}
	case "oncurve":
		var got bool
		kx, ky := append([]byte{}, a[0]...), append([]byte{}, a[1]...)
		kind, msg := vx.TryFault(func() { got = sm2.CheckOnCurve(a[0], a[1]) })
		if kind == "fault" {
			r.Violation("keys:oncurve:writes-read-only-input", "CheckOnCurve stored into one of its coordinates (placed in read-only memory): "+msg, c)
			return
		}
		if kind != "" {
			r.Violation("keys:oncurve:panic", msg, c)
			return
		}
		want := len(a[0]) == 32 && len(a[1]) == 32 && sm2ref.OnCurve(bi(a[0]), bi(a[1]))
		if got != want {
			r.Violation(fmt.Sprintf("keys:oncurve:accept=%v", got), fmt.Sprintf("CheckOnCurve(%x,%x)=%v, curve equation on canonical coordinates says %v", a[0], a[1], got, want), c)
		}
		if !bytes.Equal(kx, a[0]) || !bytes.Equal(ky, a[1]) {
			r.Violation("keys:oncurve:input-modified", "CheckOnCurve modified its input", c)
		}
	}
	r.Shape(c.Fn + ":" + c.Shape)
}

// valClass names the range class of a scalar for violation keys.
func valClass(v *big.Int) string {
	switch {
	case v.Sign() == 0:
		return "0"
	case v.Cmp(new(big.Int).Sub(bigN, big.NewInt(1))) < 0:
		return "in[1,n-2]"
	case v.Cmp(new(big.Int).Sub(bigN, big.NewInt(1))) == 0:
		return "n-1"
	case v.Cmp(bigN) == 0:
		return "n"
	}
	return ">n"
}

func keyBoundary() map[string]*big.Int {
	one := big.NewInt(1)
	return map[string]*big.Int{
		"0": big.NewInt(0), "1": big.NewInt(1), "2": big.NewInt(2), "n-3": new(big.Int).Sub(bigN, big.NewInt(3)), "n-2": new(big.Int).Sub(bigN, big.NewInt(2)),
		"n-1": new(big.Int).Sub(bigN, one), "n": bigN, "n+1": new(big.Int).Add(bigN, one), "max": new(big.Int).Sub(new(big.Int).Lsh(one, 256), one),
		"2^255": new(big.Int).Lsh(one, 255), "seeded": modN(bi(vx.Fill("keyseed", 32))),
	}
}

func TestVX_C12(t *testing.T) {
	r := vx.Begin("C12", "keys", "GenerateKey on every candidate stream of <=3 rejected candidates from {0,n-1,n,n+1,2^256-1} followed by one of {1,2,n-2,seeded} (d, bytes consumed and [d]G compared with sm2ref); TestPrivateKey on boundary values and n-1 with byte i +-1 for every i (tails kept/zeroed/ff), lengths 0..40; DerivePublic on the same scalars and lengths 0,31,33; CheckOnCurve on [k]G for k in {1..16,n-1,seeded}, every single-bit flip of x and y, off-curve pairs whose y^2 differs from x^3+ax+b only in structured bit sets of the value or of its Montgomery form (single bits, high/low limb halves), x+p encodings, canonical points with x at word boundaries (p-2^(64i)+-j, 2^(64i)+-j, low 32/64 bits all ones) and at the special x of the verification equation, (0,0), coordinates >= p, wrong lengths incl. x||y of an on-curve point cut at every position 0..64; results of earlier GenerateKey/DerivePublic calls compared with copies after later calls, then overwritten by the caller before a fresh derivation; GenerateKey on runs of 8..1000 rejected candidates. Shape = (function, class)")
	defer r.End()
	selfCheck()
	if raw, ok := vx.Replay("keys"); ok {
		var c c12case
		json.Unmarshal(raw, &c)
		c12eval(r, c)
		return
	}
	n := 0
	run := func(c c12case) {
		n++
		if !vx.MineIdx(n) {
			return
		}
		c12eval(r, c)
		r.Sample(c)
		if c.Fn == "genkey" {
			c.Served = true
			c.Shape += ":served"
			c12eval(r, c)
			if len(c.Args) <= 8 {
				c.Served, c.DataErr = false, true
				c.Shape += ":data+eof"
				c12eval(r, c)
			}
		}
	}
	kb := keyBoundary()
	rej := []string{"0", "n-1", "n", "n+1", "max"}
	val := []string{"1", "2", "n-2", "seeded"}
	var rec func(prefix []string, depth int)
	rec = func(prefix []string, depth int) {
		for _, v := range val {
			names := append(append([]string{}, prefix...), v)
			var args []string
			for _, nm := range names {
				args = append(args, vx.Hex(b32(kb[nm])))
			}
			run(c12case{"genkey", args, fmt.Sprintf("%v", names), c12opts{}})
		}
		if depth == 3 {
			return
		}
		for _, x := range rej {
			rec(append(append([]string{}, prefix...), x), depth+1)
		}
	}
	rec(nil, 0)
	// long runs of rejected candidates: key generation keeps drawing
	for _, m := range []int{8, 31, 32, 33, 64, 100, 255, 256, 1000} {
		for _, x := range rej {
			args := make([]string, 0, m+1)
			for i := 0; i < m; i++ {
				args = append(args, vx.Hex(b32(kb[x])))
			}
			args = append(args, vx.Hex(b32(kb["seeded"])))
			run(c12case{"genkey", args, fmt.Sprintf("run:%s x%d", x, m), c12opts{}})
		}
	}
	// streams that end before a valid candidate
	run(c12case{"genkey", []string{vx.Hex(b32(kb["n"]))}, "only-rejected", c12opts{}})
	run(c12case{"genkey", nil, "empty-stream", c12opts{}})
	// TestPrivateKey / DerivePublic
	for _, name := range sortedKeys(kb) {
		v := kb[name]
		run(c12case{"testpriv", []string{vx.Hex(b32(v))}, name, c12opts{}})
		run(c12case{"derive", []string{vx.Hex(b32(v))}, name, c12opts{}})
	}
	nm1 := b32(kb["n-1"])
	for i := 0; i < 32; i++ {
		for _, d := range []int{-1, 1} {
			for tail := 0; tail < 3; tail++ {
				b := append([]byte{}, nm1...)
				v := int(b[i]) + d
				if v < 0 || v > 255 {
					continue
				}
				b[i] = byte(v)
				for k := i + 1; k < 32; k++ {
					if tail == 1 {
						b[k] = 0
					} else if tail == 2 {
						b[k] = 0xff
					}
				}
				run(c12case{"testpriv", []string{vx.Hex(b)}, fmt.Sprintf("nm1:byte%d%+d:t%d", i, d, tail), c12opts{}})
			}
		}
	}
	for l := 0; l <= 40; l++ {
		if l == 32 {
			continue
		}
		for _, fill := range []byte{0, 1, 0xff} {
			b := bytes.Repeat([]byte{fill}, l)
			run(c12case{"testpriv", []string{vx.Hex(b)}, fmt.Sprintf("len%d:%02x", l, fill), c12opts{}})
			if l == 0 || l == 1 || l == 31 || l == 33 {
				run(c12case{"derive", []string{vx.Hex(b)}, fmt.Sprintf("len%d:%02x", l, fill), c12opts{}})
			}
		}
	}
	// CheckOnCurve
	var ks []*big.Int
	for k := int64(1); k <= 16; k++ {
		ks = append(ks, big.NewInt(k))
	}
	ks = append(ks, kb["n-1"])
	ns := 4
	if vx.Thorough() {
		ns = 16
	}
	for i := 0; i < ns; i++ {
		ks = append(ks, modN(bi(vx.Fill(fmt.Sprintf("oc%d", i), 32))))
	}
	for ki, k := range ks {
		p := sm2ref.BaseMul(k)
		x, y := b32(p.X), b32(p.Y)
		run(c12case{"oncurve", hexs(x, y), fmt.Sprintf("k%d:valid", ki), c12opts{}})
		run(c12case{"oncurve", hexs(y, x), fmt.Sprintf("k%d:swapped", ki), c12opts{}})
		if !vx.Thorough() && ki > 2 && ki < 17 {
			continue
		}
		for bit := 0; bit < 256; bit++ {
			fx := append([]byte{}, x...)
			fx[bit/8] ^= 1 << uint(bit%8)
			run(c12case{"oncurve", hexs(fx, y), fmt.Sprintf("k%d:flipx%d", ki, bit), c12opts{}})
			fy := append([]byte{}, y...)
			fy[bit/8] ^= 1 << uint(bit%8)
			run(c12case{"oncurve", hexs(x, fy), fmt.Sprintf("k%d:flipy%d", ki, bit), c12opts{}})
		}
	}
	for qi, q := range []sm2ref.Point{sm2ref.G(), sm2ref.BaseMul(modN(bi(vx.Fill("c12near", 32))))} {
		xs, ys, names := sm2ref.NearCurvePoints(q)
		for i := range xs {
			run(c12case{"oncurve", hexs(b32(xs[i]), b32(ys[i])), fmt.Sprintf("near%d:%s", qi, names[i]), c12opts{}})
			run(c12case{"oncurve", hexs(b32(ys[i]), b32(xs[i])), fmt.Sprintf("near%d:%s:swapped", qi, names[i]), c12opts{}})
		}
	}
	for pi, P := range sm2ref.SmallXPoints(6) {
		run(c12case{"oncurve", hexs(b32(P.X), b32(P.Y)), fmt.Sprintf("smallx%d:canonical", pi), c12opts{}})
		run(c12case{"oncurve", hexs(b32(new(big.Int).Add(P.X, sm2ref.P)), b32(P.Y)), fmt.Sprintf("smallx%d:x+p", pi), c12opts{}})
		if yp := new(big.Int).Add(P.Y, sm2ref.P); yp.BitLen() <= 256 {
			run(c12case{"oncurve", hexs(b32(P.X), b32(yp)), fmt.Sprintf("smallx%d:y+p", pi), c12opts{}})
		}
	}
	// canonical points whose x lies at a word boundary of a range check or conversion (p - 2^(64i) +- j, 2^(64i) +- j,
	// low 32 / 64 bits all ones) and the special x of the verification equation: all must be accepted, x+p (where it
	// fits) refused (seeded C12-M: a word-wise "x <= p-1" that loses the borrow of the lowest word refuses p-2^64+1..p-1)
	{
		pts, names := sm2ref.WordBoundaryXPoints()
		p2, n2 := sm2ref.SpecialXPoints()
		pts, names = append(pts, p2...), append(names, n2...)
		for i, P := range pts {
			run(c12case{"oncurve", hexs(b32(P.X), b32(P.Y)), "wordx:" + names[i], c12opts{}})
			run(c12case{"oncurve", hexs(b32(P.Y), b32(P.X)), "wordx:" + names[i] + ":swapped", c12opts{}})
			if xp := new(big.Int).Add(P.X, sm2ref.P); xp.BitLen() <= 256 {
				run(c12case{"oncurve", hexs(b32(xp), b32(P.Y)), "wordx:" + names[i] + ":x+p", c12opts{}})
			}
		}
	}
	g := sm2ref.G()
	gx, gy := b32(g.X), b32(g.Y)
	pB := b32(sm2ref.P)
	run(c12case{"oncurve", hexs(make([]byte, 32), make([]byte, 32)), "zero-zero", c12opts{}})
	run(c12case{"oncurve", hexs(pB, gy), "x=p", c12opts{}})
	run(c12case{"oncurve", hexs(gx, pB), "y=p", c12opts{}})
	run(c12case{"oncurve", hexs(bytes.Repeat([]byte{0xff}, 32), gy), "x=max", c12opts{}})
	run(c12case{"oncurve", hexs(gx, bytes.Repeat([]byte{0xff}, 32)), "y=max", c12opts{}})
	// compensating length errors: x||y of an on-curve point cut at every position other than 32
	for qi, q := range []sm2ref.Point{g, sm2ref.BaseMul(modN(bi(vx.Fill("c12split", 32))))} {
		cat := append(b32(q.X), b32(q.Y)...)
		for cut := 0; cut <= 64; cut++ {
			if cut != 32 {
				run(c12case{"oncurve", hexs(cat[:cut], cat[cut:]), fmt.Sprintf("split%d:%d", qi, cut), c12opts{}})
			}
		}
	}
	// results handed out earlier stay what they were while later calls run (no storage shared between results)
	for i := 0; i < 3; i++ {
		run(c12case{"retain", hexs(b32(modN(bi(vx.Fill(fmt.Sprintf("ret%da", i), 32)))), b32(modN(bi(vx.Fill(fmt.Sprintf("ret%db", i), 32)))), b32(big.NewInt(int64(i+1)))), fmt.Sprintf("retain%d", i), c12opts{}})
	}
	for _, l := range []int{0, 1, 31, 33, 64} {
		run(c12case{"oncurve", hexs(make([]byte, l), gy), fmt.Sprintf("xlen%d", l), c12opts{}})
		run(c12case{"oncurve", hexs(gx, make([]byte, l)), fmt.Sprintf("ylen%d", l), c12opts{}})
		if l < 32 {
			run(c12case{"oncurve", hexs(gx[:l], gy), fmt.Sprintf("xtrunc%d", l), c12opts{}})
		}
	}
}

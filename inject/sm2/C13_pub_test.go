//go:build verif

package sm2_test

import (
	"bytes"
	"encoding/json"
	"fmt"
	"math/big"
	"os"
	"syscall"
	"testing"
	"verif/refs/sm3ref"

	"github.com/bilibili/smgo/sm2"
	"github.com/bilibili/smgo/sm3"
	"verif/refs/sm2ref"
	"verif/vx"
)

type c13case struct {
	Fn     string // za | wrap
	IDLen  int
	MsgLen int
	Key    int
	Shape  string
}

var c13keys [][3][]byte // d, x, y
var c13idBuf, c13pxBuf, c13pyBuf []byte

func c13init() {
	if c13keys != nil {
		return
	}
	for _, d := range [][]byte{b32(bi(vx.UnHex("3945208F7B2144B13F36E38AC6D39F95889393692860B51A42FB81EF4DF7C5B8"))), b32(modN(bi(vx.Fill("c13key", 32))))} {
		x, y := sm2ref.Pub(bi(d))
		c13keys = append(c13keys, [3][]byte{d, x, y})
	}
	// keys 2..6: public keys with leading zero bytes in a coordinate (found by search, a fact about the curve; checked
	// here): x = 00.., y = 00.., both, x = 0000.., y = 0000.. - whoever strips or re-pads coordinates on the way into ZA
	// (seeded C13-N: Sign/Verify pad a stripped coordinate on the wrong side) shows only on such keys
	for i, h := range []string{"8602e07c9f80dca40342e3739dde0597804472eaef42f20d19f9e2f358f776e8", "acb796043b2d323c24afb32550aa494ca44eefc628e56710821477c69563810c",
		"d94850355fb79b9d0d572c65e5dd7553af32369ac78ff838401e795aefec5f69", "1d1088ff96d0703d9b4a11ed7a4866b1b3f6e12fcb1c6b51bfde9206bf20c6f4", "94c89cf571fe19dd7812112939792edbcd0432aca63fb0ca47a30ba8756f9d15"} {
		d := vx.UnHex(h)
		x, y := sm2ref.Pub(bi(d))
		zx, zy := 0, 0
		for zx < 32 && x[zx] == 0 {
			zx++
		}
		for zy < 32 && y[zy] == 0 {
			zy++
		}
		if want := [][2]int{{1, 0}, {0, 1}, {1, 1}, {2, 0}, {0, 2}}[i]; zx != want[0] || zy != want[1] {
			panic("harness: leading-zero key table is wrong")
		}
		c13keys = append(c13keys, [3][]byte{d, x, y})
	}
}

func c13eval(r *vx.R, c c13case) {
	c13init()
	r.Eval(1)
	k0 := c13keys[c.Key]
	// the id and the key coordinates are handed over in buffers that are *reused* from case to case (refilled with the next
	// user's data): whatever the library remembers must not be keyed on the identity of the caller's buffers
	if c13idBuf == nil {
		c13idBuf = make([]byte, 70000)
		c13pxBuf = make([]byte, 32)
		c13pyBuf = make([]byte, 32)
	}
	id := c13idBuf[:c.IDLen:c.IDLen]
	{
		// the previous user of these buffers: another key and another id of the same length
		oi := c.Key ^ 1
		if c.Key >= 2 {
			oi = 2 + (c.Key-1)%5
		}
		other := c13keys[oi]
		copy(id, vx.Fill("id-previous-user", c.IDLen))
		copy(c13pxBuf, other[1])
		copy(c13pyBuf, other[2])
		vx.Try(func() {
			sm2.ZA(id, c13pxBuf, c13pyBuf)
			sm2.Verify(id, c13pxBuf, c13pyBuf, []byte("previous"), other[1], other[2])
			sm2.Sign(id, c13pxBuf, c13pyBuf, stream(b32(bigOne)), other[0], []byte("previous"))
			// other users of the hash package in the same process: the one-shot entry point, a hash object that is written,
			// summed, reset and abandoned half way
			sm3.SumSM3(id)
			h := sm3.New()
			h.Write(id)
			h.Sum(nil)
			h.Reset()
			h.Write([]byte("abandoned"))
			// calls that fail
			sm2.ZA(make([]byte, 8192), c13pxBuf, c13pyBuf)
			sm2.Sign(id, c13pxBuf, c13pyBuf, stream(), other[0], []byte("previous"))
			sm2.Verify(id, c13pyBuf, c13pxBuf, []byte("previous"), other[1], other[2])
		})
	}
	copy(id, vx.Fill(fmt.Sprintf("id%d", c.IDLen%7), c.IDLen))
	copy(c13pxBuf, k0[1])
	copy(c13pyBuf, k0[2])
	k := [3][]byte{k0[0], c13pxBuf, c13pyBuf}
	switch c.Fn {
	case "za":
		keep := append([]byte{}, id...)
		var za []byte
		var err error
		kind, msg := vx.Try(func() { za, err = sm2.ZA(id, k[1], k[2]) })
		if kind != "" {
			r.Violation("za:panic", msg, c)
			return
		}
		want, ok := sm2ref.ZA(id, k[1], k[2])
		if !ok {
			if err == nil {
				r.Violation(fmt.Sprintf("za:too-long-accepted:len%d", c.IDLen), fmt.Sprintf("ZA accepted an id of %d bytes (ENTL has 16 bits: 8192 bytes or more must be refused); returned %x", c.IDLen, za), c)
			}
			break
		}
		if err != nil {
			r.Violation("za:error", fmt.Sprintf("ZA failed for id length %d: %v", c.IDLen, err), c)
			break
		}
		if !bytes.Equal(za, want[:]) {
			r.Violation(fmt.Sprintf("za:wrong:idlen%%64=%d", c.IDLen%64), fmt.Sprintf("ZA(id length %d) = %x, SM3(ENTL||id||a||b||Gx||Gy||x||y) = %x", c.IDLen, za, want), c)
		}
		if !bytes.Equal(keep, id) {
			r.Violation("za:input-modified", "ZA modified the id", c)
		}
	case "wrap":
		msg := vx.Fill(fmt.Sprintf("msg%d", c.MsgLen%5), c.MsgLen)
		kk := b32(modN(bi(vx.Fill(fmt.Sprintf("c13k%d", c.MsgLen), 32))))
		zaRef, ok := sm2ref.ZA(id, k[1], k[2])
		if !ok {
			return
		}
		e := sm2ref.E(zaRef[:], msg)
		want, err := sm2ref.Sign(stream(kk), bi(k[0]), e[:])
		if err != nil {
			return // seeded nonce was rejected by the reference: not a case of this enumeration
		}
		var r1, s1, r2, s2, r3, s3 []byte
		var e1, e2, e3 error
		kind, m := vx.Try(func() {
			r1, s1, e1 = sm2.Sign(id, k[1], k[2], stream(kk), k[0], msg)
			r2, s2, e2 = sm2.SignZa(stream(kk), k[0], zaRef[:], msg)
			r3, s3, e3 = sm2.SignHashed(stream(kk), k[0], e[:])
		})
		if kind != "" {
			r.Violation("wrap:sign-panic", m, c)
			return
		}
		if e1 != nil || e2 != nil || e3 != nil {
			r.Violation("wrap:sign-error", fmt.Sprintf("errors %v %v %v", e1, e2, e3), c)
			return
		}
		if !bytes.Equal(r3, want.R) || !bytes.Equal(s3, want.S) {
			r.Violation("wrap:SignHashed-vs-ref", "SignHashed differs from the reference signature (C02's business; reported here for context)", c)
		}
		if !bytes.Equal(r1, want.R) || !bytes.Equal(s1, want.S) {
			r.Violation(fmt.Sprintf("wrap:Sign:idlen%%64=%d:msglen%%64=%d", c.IDLen%64, c.MsgLen%64), fmt.Sprintf("Sign(id %d bytes, msg %d bytes) differs from SignHashed on e=SM3(ZA||M)", c.IDLen, c.MsgLen), c)
		}
		if !bytes.Equal(r2, want.R) || !bytes.Equal(s2, want.S) {
			r.Violation(fmt.Sprintf("wrap:SignZa:msglen%%64=%d", c.MsgLen%64), fmt.Sprintf("SignZa(msg %d bytes) differs from SignHashed on e=SM3(ZA||M)", c.MsgLen), c)
		}
		var v1, v2 bool
		kind, m = vx.Try(func() {
			v1, e1 = sm2.Verify(id, k[1], k[2], msg, want.R, want.S)
			v2, e2 = sm2.VerifyZa(k[1], k[2], zaRef[:], msg, want.R, want.S)
		})
		if kind != "" {
			r.Violation("wrap:verify-panic", m, c)
			return
		}
		if !v1 {
			r.Violation(fmt.Sprintf("wrap:Verify:idlen%%64=%d:msglen%%64=%d", c.IDLen%64, c.MsgLen%64), fmt.Sprintf("Verify rejects the reference signature (id %d, msg %d): %v", c.IDLen, c.MsgLen, e1), c)
		}
		if !v2 {
			r.Violation(fmt.Sprintf("wrap:VerifyZa:msglen%%64=%d", c.MsgLen%64), fmt.Sprintf("VerifyZa rejects the reference signature (msg %d): %v", c.MsgLen, e2), c)
		}
		// records: za is the head of a longer buffer - the key material follows it inside its capacity (za || priv for the
		// signer, za || pubx || puby for the verifier), as when both are fields of one session structure; a mismatched but
		// valid public key handed to Sign (the signature binds the key it was GIVEN); the empty id spelled nil
		{
			sigRec := append(append([]byte{}, zaRef[:]...), k[0]...)
			verRec := append(append(append([]byte{}, zaRef[:]...), k[1]...), k[2]...)
			keepS, keepV := append([]byte{}, sigRec...), append([]byte{}, verRec...)
			var rr, ss []byte
			var ee error
			var vv bool
			kind, m = vx.Try(func() {
				rr, ss, ee = sm2.SignZa(stream(kk), sigRec[32:], sigRec[:32], msg)
				vv, _ = sm2.VerifyZa(verRec[32:64], verRec[64:], verRec[:32], msg, want.R, want.S)
			})
			if kind != "" {
				r.Violation("wrap:record:panic", m, c)
			} else {
				if ee != nil || !bytes.Equal(rr, want.R) || !bytes.Equal(ss, want.S) {
					r.Violation("wrap:record:SignZa", fmt.Sprintf("SignZa with za and the private key as adjacent fields of one buffer (msg %d bytes) differs from the digest-level signature: err=%v", c.MsgLen, ee), c)
				}
				if !vv {
					r.Violation("wrap:record:VerifyZa", fmt.Sprintf("VerifyZa with za and the public key as adjacent fields of one buffer (msg %d bytes) rejects the reference signature", c.MsgLen), c)
				}
				if !bytes.Equal(sigRec, keepS) || !bytes.Equal(verRec, keepV) {
					r.Violation("wrap:record:modified", "SignZa / VerifyZa wrote into the caller's buffer behind za", c)
				}
			}
			if c.MsgLen%16 == 3 || c.MsgLen < 4 {
				oi := c.Key ^ 1
				if c.Key >= 2 {
					oi = 2 + (c.Key-1)%5
				}
				other := c13keys[oi]
				zaO, _ := sm2ref.ZA(id, other[1], other[2])
				eO := sm2ref.E(zaO[:], msg)
				wantO, errO := sm2ref.Sign(stream(kk), bi(k[0]), eO[:])
				var ro, so []byte
				var eo error
				kind, m = vx.Try(func() { ro, so, eo = sm2.Sign(id, other[1], other[2], stream(kk), k[0], msg) })
				if kind != "" {
					r.Violation("wrap:foreign-key:panic", m, c)
				} else if errO == nil && (eo != nil || !bytes.Equal(ro, wantO.R) || !bytes.Equal(so, wantO.S)) {
					r.Violation("wrap:Sign:foreign-public-key", fmt.Sprintf("Sign(id, pubx, puby, ..) with a valid public key that does not belong to the private key is not SignHashed on e=SM3(ZA(id,pubx,puby)||M): err=%v", eo), c)
				}
			}
			if c.IDLen == 0 {
				zaN, _ := sm2ref.ZA(nil, k[1], k[2])
				for name, idv := range map[string][]byte{"nil": nil, "empty": {}, "zero-length-of-buffer": c13idBuf[:0]} {
					var z []byte
					var ze error
					kind, m = vx.Try(func() { z, ze = sm2.ZA(idv, k[1], k[2]) })
					if kind != "" || ze != nil || !bytes.Equal(z, zaN[:]) {
						r.Violation("za:empty-id:"+name, fmt.Sprintf("ZA of the zero-length id passed as %s is not SM3(0x0000||a||b||G||P): %x %v %s", name, z, ze, m), c)
					}
				}
			}
		}
		// binding: a different message or id must not verify
		if c.MsgLen > 0 {
			m2 := append([]byte{}, msg...)
			m2[0] ^= 1
			if ok, _ := sm2.Verify(id, k[1], k[2], m2, want.R, want.S); ok {
				r.Violation("wrap:Verify-ignores-msg", "Verify accepts a signature for a different message", c)
			}
		}
		if c.IDLen > 0 {
			id2 := append([]byte{}, id...)
			id2[len(id2)-1] ^= 1
			if ok, _ := sm2.Verify(id2, k[1], k[2], msg, want.R, want.S); ok {
				r.Violation("wrap:Verify-ignores-id", "Verify accepts a signature for a different id", c)
			}
		}
	}
	r.Shape(c.Fn + ":" + c.Shape)
}

func TestVX_C13(t *testing.T) {
	r := vx.Begin("C13", "za-wrappers", "ZA for every id length 0..8200 plus {16384, 65535, 65536} with two public keys against SM3ref(ENTL||id||a||b||Gx||Gy||x||y) (refusal exactly from 8192 bytes); Sign/SignZa/SignHashed under one nonce stream and Verify/VerifyZa for every message length 0..200 x id length {0,16,53,54,8191} (thorough: 0..300 x {0,1,16,52,53,54,55,118,8191}) against sm2ref on e=SM3ref(ZAref||M); message and id binding; za passed as the head of a record with the key material behind it; Sign with a valid public key that does not belong to the private key; the empty id spelled nil / empty / zero-length slice; before every case the same buffers serve another user and the process makes other uses of the hash package (one-shot SumSM3, an abandoned hash object) and failing calls; [thorough] SignZa/VerifyZa on messages of 2^29-33, 2^29-32 and 2^29 zero bytes (bit length of ZA||M crossing 2^32). ; ZA for id lengths {0,16,63,64,8191} and Sign/SignZa/SignHashed/Verify/VerifyZa for id {0,16} x message 0..7 with five public keys whose x or y has one or two leading zero bytes. Shape=(function, id length, message length, key)")
	defer r.End()
	selfCheck()
	if raw, ok := vx.Replay("za-wrappers"); ok {
		var c c13case
		json.Unmarshal(raw, &c)
		c13eval(r, c)
		return
	}
	n := 0
	run := func(c c13case) {
		n++
		if !vx.MineIdx(n) {
			return
		}
		c13eval(r, c)
		r.Sample(c)
	}
	for key := 0; key < 2; key++ {
		for l := 0; l <= 8200; l++ {
			if key == 1 && !vx.Thorough() && l > 300 && l < 8100 {
				continue
			}
			run(c13case{"za", l, 0, key, fmt.Sprintf("id%d:key%d", l, key)})
		}
		for _, l := range []int{16384, 65535, 65536, 70000} {
			run(c13case{"za", l, 0, key, fmt.Sprintf("id%d:key%d", l, key)})
		}
	}
	maxMsg, ids := 200, []int{0, 16, 53, 54, 8191}
	if vx.Thorough() {
		maxMsg, ids = 300, []int{0, 1, 16, 52, 53, 54, 55, 118, 8191}
	}
	for _, il := range ids {
		for ml := 0; ml <= maxMsg; ml++ {
			run(c13case{"wrap", il, ml, ml % 2, fmt.Sprintf("id%d:msg%d", il, ml)})
		}
	}
	// public keys with leading zero bytes in a coordinate (keys 2..6): ZA and the id-level wrappers
	for key := 2; key <= 6; key++ {
		for _, l := range []int{0, 16, 63, 64, 8191} {
			run(c13case{"za", l, 0, key, fmt.Sprintf("id%d:key%d-leading-zero", l, key)})
		}
		for _, il := range []int{0, 16} {
			for ml := 0; ml <= 7; ml++ {
				run(c13case{"wrap", il, ml, key, fmt.Sprintf("id%d:msg%d:key%d-leading-zero", il, ml, key)})
			}
		}
	}
	// messages whose bit length (with the 32 bytes of ZA in front) crosses 2^32: thorough tier only (half a gigabyte is
	// hashed three times per case). The message is untouched anonymous memory (all zero, costs no RAM); e comes from the
	// streaming reference.
	// signatures at the edges of the ranges through the message-level entry points: for e = SM3(za||M) and a nonce k the
	// private key is solved so that s is 1, 2, n-2 or n-1 (d = (k-s)/(s+r)); the signer must produce exactly (r, s) and
	// VerifyZa must accept it, as VerifyHashed does on e
	for si, sv := range []*big.Int{bigOne, new(big.Int).Add(bigOne, bigOne), new(big.Int).Sub(bigN, new(big.Int).Add(bigOne, bigOne)), new(big.Int).Sub(bigN, bigOne)} {
		for mi := 0; mi < 3; mi++ {
			n++
			if !vx.MineIdx(n) {
				continue
			}
			za := vx.Fill(fmt.Sprintf("c13edge-za%d", mi), 32)
			msg := vx.Fill(fmt.Sprintf("c13edge-msg%d", mi), 20+17*mi)
			e := sm2ref.E(za, msg)
			kv := modN(bi(vx.Fill(fmt.Sprintf("c13edge-k%d-%d", si, mi), 32)))
			x1 := sm2ref.BaseMul(kv).X
			rv := modN(new(big.Int).Add(bi(e[:]), x1))
			den := modN(new(big.Int).Add(sv, rv))
			if rv.Sign() == 0 || den.Sign() == 0 || modN(new(big.Int).Add(rv, kv)).Sign() == 0 {
				continue
			}
			d := modN(new(big.Int).Mul(modN(new(big.Int).Sub(kv, sv)), invN(den)))
			if !sm2ref.ValidKey(d) {
				continue
			}
			px, py := sm2ref.Pub(d)
			want, werr := sm2ref.Sign(stream(b32(kv)), d, e[:])
			if werr != nil || bi(want.S).Cmp(sv) != 0 {
				panic("harness: solved key does not give the intended s")
			}
			r.Eval(3)
			cs := c13case{"edge-s", 0, len(msg), 0, fmt.Sprintf("s=%s:msg%d", []string{"1", "2", "n-2", "n-1"}[si], mi)}
			var rr, ss []byte
			var serr error
			var okZa, okH bool
			kind, pm := vx.Try(func() {
				rr, ss, serr = sm2.SignZa(stream(b32(kv)), b32(d), za, msg)
				okZa, _ = sm2.VerifyZa(px, py, za, msg, want.R, want.S)
				okH, _ = sm2.VerifyHashed(px, py, e[:], want.R, want.S)
			})
			switch {
			case kind != "":
				r.Violation("wrap:edge-s:panic", pm, cs)
			case serr != nil || !bytes.Equal(rr, want.R) || !bytes.Equal(ss, want.S):
				r.Violation("wrap:edge-s:SignZa", fmt.Sprintf("SignZa does not return the standard's signature with s = %s: err=%v", cs.Shape, serr), cs)
			case okZa != okH || !okZa:
				r.Violation("wrap:edge-s:VerifyZa-differs-from-VerifyHashed", fmt.Sprintf("signature with %s: VerifyZa says %v, VerifyHashed on e = SM3(za||M) says %v", cs.Shape, okZa, okH), cs)
			}
			r.Shape("edge-s:" + cs.Shape)
		}
	}
	// On a 32-bit target (the w32 part) the lengths at which a byte count shifted to a bit count inside an int wraps
	// are 2^28 and 2^29 bytes: messages and ids of those lengths are given in one piece.
	w32 := os.Getenv("VX_W32") != ""
	if true {
		c13init()
		k0 := c13keys[0]
		// an id too long for ENTL is refused, however long: 2^28 and 2^29 bytes (bit lengths 2^31 and 2^32) and neighbours
		for _, il := range []int{1 << 28, 1<<28 + 1, 1<<28 + 8191, 1 << 29, 1<<29 + 16, 3 << 28} {
			n++
			if !vx.MineIdx(n) {
				continue
			}
			r.Eval(3)
			cs := c13case{"id-huge", il, 0, 0, fmt.Sprintf("id%d", il)}
			id, err := syscall.Mmap(-1, 0, il, syscall.PROT_READ, syscall.MAP_ANON|syscall.MAP_PRIVATE)
			if err != nil {
				r.NotExhaustive(fmt.Sprintf("no address space for an id of %d bytes", il))
				continue
			}
			var zerr, serr, verr error
			var zz []byte
			kind, pm := vx.Try(func() {
				zz, zerr = sm2.ZA(id, k0[1], k0[2])
				_, _, serr = sm2.Sign(id, k0[1], k0[2], stream(b32(bi([]byte{0x42, 0x42}))), k0[0], []byte("m"))
				_, verr = sm2.Verify(id, k0[1], k0[2], []byte("m"), b32(bigOne), b32(bigOne))
			})
			if kind != "" {
				r.Violation("za:huge-id:panic", pm, cs)
			} else {
				if zerr == nil {
					r.Violation("za:id-too-long-accepted:huge", fmt.Sprintf("ZA accepted an id of %d bytes (bit length %d does not fit ENTL) and returned %x", il, uint64(il)*8, zz), cs)
				}
				if serr == nil || verr == nil {
					r.Violation("wrap:id-too-long-accepted:huge", fmt.Sprintf("Sign/Verify accepted an id of %d bytes: errors %v / %v", il, serr, verr), cs)
				}
			}
			syscall.Munmap(id)
			r.Shape("id-huge:" + cs.Shape)
		}
		za := vx.Fill("c13hugeza", 32)
		mls := []int{1<<29 - 33, 1<<29 - 32, 1 << 29}
		if w32 {
			mls = []int{1<<28 - 33, 1<<28 - 1, 1 << 28, 1<<28 + 1}
		} else {
			big := int64(1<<32 + 3) // a message whose byte count no longer fits 32 bits, given in one piece
			mls = append(mls, int(big))
		}
		if !vx.Thorough() && !w32 {
			mls = mls[len(mls)-1:] // quick tier on a 64-bit target: only the message beyond 2^32 bytes
		}
		for _, ml := range mls {
			n++
			if !vx.MineIdx(n) {
				continue
			}
			r.Eval(2)
			cs := c13case{"wrap-huge", 0, ml, 0, fmt.Sprintf("msg%d", ml)}
			msg, err := syscall.Mmap(-1, 0, ml, syscall.PROT_READ, syscall.MAP_ANON|syscall.MAP_PRIVATE)
			if err != nil {
				panic("harness: mmap: " + err.Error())
			}
			st := sm3ref.NewStream()
			st.Write(za)
			zero := make([]byte, 1<<20)
			for left := ml; left > 0; {
				c := len(zero)
				if c > left {
					c = left
				}
				st.Write(zero[:c])
				left -= c
			}
			e := st.Sum()
			kk := b32(modN(bi(vx.Fill("c13hugek", 32))))
			want, werr := sm2ref.Sign(stream(kk), bi(k0[0]), e[:])
			if werr != nil {
				panic(werr)
			}
			var rr, ss []byte
			var serr error
			var vok bool
			kind, pm := vx.Try(func() {
				rr, ss, serr = sm2.SignZa(stream(kk), k0[0], za, msg)
				vok, _ = sm2.VerifyZa(k0[1], k0[2], za, msg, want.R, want.S)
			})
			if kind != "" {
				r.Violation("wrap:huge:panic", pm, cs)
			} else {
				if serr != nil || !bytes.Equal(rr, want.R) || !bytes.Equal(ss, want.S) {
					r.Violation("wrap:huge:SignZa", fmt.Sprintf("SignZa of a %d-byte message differs from SignHashed on e=SM3(ZA||M): err=%v", ml, serr), cs)
				}
				if !vok {
					r.Violation("wrap:huge:VerifyZa", fmt.Sprintf("VerifyZa rejects the standard's signature on a %d-byte message", ml), cs)
				}
			}
			syscall.Munmap(msg)
			r.Shape("wrap-huge:" + cs.Shape)
		}
	}
}

//go:build verif

package sm2_test

import (
	"encoding/json"
	"errors"
	"fmt"
	"io"
	"math/big"
	"testing"
	"time"

	"github.com/bilibili/smgo/sm2"
	"github.com/bilibili/smgo/sm3"
	"verif/refs/sm2ref"
	"verif/sched"
	"verif/vx"
)

func c17sm2Scenarios() []*sched.Scenario {
	d := b32(modN(bi(vx.Fill("c17d", 32))))
	px, py := sm2ref.Pub(bi(d))
	e := vx.Fill("c17e", 32)
	k1, k2 := b32(modN(bi(vx.Fill("c17k1", 32)))), b32(modN(bi(vx.Fill("c17k2", 32))))
	sg, err := sm2ref.Sign(stream(k1), bi(d), e)
	if err != nil {
		panic(err)
	}
	id := []byte("1234567812345678")
	msg := vx.Fill("c17msg", 70)
	share := func(x *sched.Exec, name string, b []byte) {
		if x != nil {
			x.Share(name, b, true)
		}
	}
	var out []*sched.Scenario
	out = append(out, &sched.Scenario{Name: "S4-sign-verify-derive", Build: func(x *sched.Exec) [][]sched.Op {
		dd, ee, pxx, pyy, r, s := append([]byte{}, d...), append([]byte{}, e...), append([]byte{}, px...), append([]byte{}, py...), append([]byte{}, sg.R...), append([]byte{}, sg.S...)
		for n, b := range map[string][]byte{"priv": dd, "digest": ee, "pubx": pxx, "puby": pyy, "r": r, "s": s} {
			share(x, n, b)
		}
		sign := func(k []byte) func() string {
			return func() string {
				a, b, err := sm2.SignHashed(stream(k), dd, ee)
				return fmt.Sprintf("%x %x %v", a, b, err)
			}
		}
		verify := func() string { ok, err := sm2.VerifyHashed(pxx, pyy, ee, r, s); return fmt.Sprint(ok, err) }
		derive := func() string { a, b, err := sm2.DerivePublic(dd); return fmt.Sprintf("%x %x %v", a, b, err) }
		// a second, different private key for the third signer (state cached per key would be exposed)
		d2 := b32(modN(bi(vx.Fill("c17d2", 32))))
		share(x, "priv2", d2)
		sign2 := func() string {
			a, b, err := sm2.SignHashed(stream(k2), d2, ee)
			return fmt.Sprintf("%x %x %v", a, b, err)
		}
		px2, py2 := sm2ref.Pub(bi(d2))
		sg2, _ := sm2ref.Sign(stream(k2), bi(d2), ee)
		share(x, "pubx2", px2)
		share(x, "puby2", py2)
		verify2 := func() string { ok, err := sm2.VerifyHashed(px2, py2, ee, sg2.R, sg2.S); return fmt.Sprint(ok, err) }
		return [][]sched.Op{{{"SignHashed", sign(k1)}, {"VerifyHashed", verify}, {"VerifyHashed(other key)", verify2}}, {{"VerifyHashed(other key)", verify2}, {"DerivePublic", derive}, {"SignHashed", sign(k2)}}, {{"DerivePublic", derive}, {"SignHashed2", sign2}, {"VerifyHashed", verify}}}
	}})
	out = append(out, &sched.Scenario{Name: "S5-za-signza-sm3", Build: func(x *sched.Exec) [][]sched.Op {
		dd, pxx, pyy, idd, mm := append([]byte{}, d...), append([]byte{}, px...), append([]byte{}, py...), append([]byte{}, id...), append([]byte{}, msg...)
		for n, b := range map[string][]byte{"priv": dd, "pubx": pxx, "puby": pyy, "id": idd, "msg": mm} {
			share(x, n, b)
		}
		za := func() string { z, err := sm2.ZA(idd, pxx, pyy); return fmt.Sprintf("%x %v", z, err) }
		// a second identity and key: anything remembered per identity / per key is evicted and refilled while others look it up
		id2 := []byte("another-user@example")
		d2 := b32(modN(bi(vx.Fill("c17d2", 32))))
		px2, py2 := sm2ref.Pub(bi(d2))
		share(x, "id2", id2)
		share(x, "pubx2", px2)
		share(x, "puby2", py2)
		za2 := func() string { z, err := sm2.ZA(id2, px2, py2); return fmt.Sprintf("%x %v", z, err) }
		zref, _ := sm2ref.ZA(idd, pxx, pyy)
		signza := func() string {
			a, b, err := sm2.SignZa(stream(k1), dd, zref[:], mm)
			return fmt.Sprintf("%x %x %v", a, b, err)
		}
		sign := func() string {
			a, b, err := sm2.Sign(idd, pxx, pyy, stream(k2), dd, mm)
			return fmt.Sprintf("%x %x %v", a, b, err)
		}
		h := func() string { y := sm3.New(); y.Write(mm); y.Write(idd); return fmt.Sprintf("%x", y.Sum(nil)) }
		gen := func() string {
			p, a, b, err := sm2.GenerateKey(stream(k1))
			return fmt.Sprintf("%x %x %x %v", p, a, b, err)
		}
		return [][]sched.Op{{{"ZA", za}, {"sm3", h}, {"ZA(other identity)", za2}}, {{"SignZa", signza}, {"GenerateKey", gen}, {"ZA", za}}, {{"ZA(other identity)", za2}, {"sm3", h}, {"Sign", sign}}}
	}})
	// S6: values with leading zero bytes (a short r when signing, a short t = r+s when verifying: they take the padding
	// paths) and, before the threads start, calls that FAIL (randomness that errors at once / after 16 bytes, an invalid
	// key, an off-curve public key): whatever a failed call leaves behind is shared by the concurrent calls after it
	{
		dI := bi(d)
		small := func(tag string) *big.Int { return bi(append([]byte{0, 0}, vx.Fill(tag, 30)...)) }
		// signature with short r and short t: r small, s = t - r with t small
		rv := small("c17zr")
		tv := small("c17zt")
		sv := modN(new(big.Int).Sub(tv, rv))
		kz, ez, ok := c17solve(rv, sv, dI)
		if !ok {
			panic("harness: cannot solve the short-value signature")
		}
		out = append(out, &sched.Scenario{Name: "S6-failed-calls-then-short-values", Build: func(x *sched.Exec) [][]sched.Op {
			dd, pxx, pyy := append([]byte{}, d...), append([]byte{}, px...), append([]byte{}, py...)
			eez, rz, sz := b32(ez), b32(rv), b32(sv)
			for n, b := range map[string][]byte{"priv": dd, "pubx": pxx, "puby": pyy, "digestz": eez, "rz": rz, "sz": sz} {
				share(x, n, b)
			}
			// priming: failing calls, run before any thread exists
			sm2.SignHashed(failAfter(0), dd, eez)
			sm2.SignHashed(failAfter(16), dd, eez)
			sm2.SignHashed(stream(b32(bigN), nil), dd, eez) // one rejected candidate, then the stream ends
			sm2.SignHashed(stream(k1), make([]byte, 32), eez)
			sm2.VerifyHashed(pyy, pxx, eez, rz, sz)
			sm2.GenerateKey(failAfter(5))
			signz := func() string {
				a, b, err := sm2.SignHashed(stream(b32(kz)), dd, eez)
				return fmt.Sprintf("%x %x %v", a, b, err)
			}
			sign := func(k []byte) func() string {
				return func() string {
					a, b, err := sm2.SignHashed(stream(k), dd, eez)
					return fmt.Sprintf("%x %x %v", a, b, err)
				}
			}
			verifyz := func() string { ok, err := sm2.VerifyHashed(pxx, pyy, eez, rz, sz); return fmt.Sprint(ok, err) }
			return [][]sched.Op{{{"SignHashed(short r)", signz}, {"VerifyHashed(short t)", verifyz}}, {{"VerifyHashed(short t)", verifyz}, {"SignHashed", sign(k2)}}, {{"SignHashed", sign(k1)}, {"SignHashed(short r)", signz}}}
		}})
	}
	// S7: valid signatures whose t = r+s (the multiplier of the public key) or s (the multiplier of G) is tiny - 1, 3,
	// 2^13, or n-1 for s: the double multiplication then meets its tables with an empty accumulator and takes the
	// start-up branches (seeded C17-N: a table point aliased to a package-level constant becomes the accumulator there)
	{
		dI := bi(d)
		type sig struct{ e, r, s []byte }
		mk := func(tv, sv *big.Int) sig {
			rv := modN(new(big.Int).Sub(tv, sv))
			_, ez, ok := c17solve(rv, sv, dI)
			if !ok {
				panic("harness: cannot solve the tiny-multiplier signature")
			}
			if v, why := sm2ref.Verify(px, py, b32(ez), b32(rv), b32(sv)); !v {
				panic("harness: tiny-multiplier signature is not valid: " + why)
			}
			return sig{b32(ez), b32(rv), b32(sv)}
		}
		rnd := modN(bi(vx.Fill("c17tiny-s", 32)))
		sigs := []sig{mk(big.NewInt(1), rnd), mk(big.NewInt(3), rnd), mk(big.NewInt(1<<13), rnd),
			mk(modN(bi(vx.Fill("c17tiny-t", 32))), big.NewInt(1)), mk(modN(bi(vx.Fill("c17tiny-t", 32))), new(big.Int).Sub(bigN, bigOne))}
		out = append(out, &sched.Scenario{Name: "S7-tiny-multipliers", Build: func(x *sched.Exec) [][]sched.Op {
			dd, ee, pxx, pyy, r, s := append([]byte{}, d...), append([]byte{}, e...), append([]byte{}, px...), append([]byte{}, py...), append([]byte{}, sg.R...), append([]byte{}, sg.S...)
			for n, b := range map[string][]byte{"priv": dd, "digest": ee, "pubx": pxx, "puby": pyy, "r": r, "s": s} {
				share(x, n, b)
			}
			vt := func(i int) func() string {
				g := sig{append([]byte{}, sigs[i].e...), append([]byte{}, sigs[i].r...), append([]byte{}, sigs[i].s...)}
				share(x, fmt.Sprintf("tiny%d-e", i), g.e)
				share(x, fmt.Sprintf("tiny%d-r", i), g.r)
				share(x, fmt.Sprintf("tiny%d-s", i), g.s)
				return func() string { ok, err := sm2.VerifyHashed(pxx, pyy, g.e, g.r, g.s); return fmt.Sprint(ok, err) }
			}
			verify := func() string { ok, err := sm2.VerifyHashed(pxx, pyy, ee, r, s); return fmt.Sprint(ok, err) }
			derive := func() string { a, b, err := sm2.DerivePublic(dd); return fmt.Sprintf("%x %x %v", a, b, err) }
			sign := func() string {
				a, b, err := sm2.SignHashed(stream(k2), dd, ee)
				return fmt.Sprintf("%x %x %v", a, b, err)
			}
			return [][]sched.Op{{{"VerifyHashed(t=1)", vt(0)}, {"VerifyHashed(s=1)", vt(3)}, {"VerifyHashed", verify}}, {{"VerifyHashed", verify}, {"VerifyHashed(t=3)", vt(1)}, {"DerivePublic", derive}}, {{"VerifyHashed(t=2^13)", vt(2)}, {"SignHashed", sign}, {"VerifyHashed(s=n-1)", vt(4)}}}
		}})
	}
	return out
}

// c17solve: (k, e) for a wanted (r, s) under key d: k = s(1+d) + r d, e = r - x([k]G)
func c17solve(rv, sv, d *big.Int) (k, e *big.Int, ok bool) {
	k = modN(new(big.Int).Add(new(big.Int).Mul(sv, new(big.Int).Add(d, bigOne)), new(big.Int).Mul(rv, d)))
	if k.Sign() == 0 || rv.Sign() == 0 || sv.Sign() == 0 || modN(new(big.Int).Add(rv, k)).Sign() == 0 || modN(new(big.Int).Add(rv, sv)).Sign() == 0 {
		return nil, nil, false
	}
	e = modN(new(big.Int).Sub(rv, sm2ref.BaseMul(k).X))
	return k, e, true
}

type failingReader struct {
	n int
}

func (f *failingReader) Read(p []byte) (int, error) {
	if f.n <= 0 {
		return 0, errors.New("injected randomness failure")
	}
	k := f.n
	if k > len(p) {
		k = len(p)
	}
	for i := 0; i < k; i++ {
		p[i] = 0x42
	}
	f.n -= k
	return k, nil
}

func failAfter(n int) io.Reader { return &failingReader{n} }

type c17case2 struct {
	Scenario string
	Schedule []int
	Finding  string
}

func TestVX_C17_SM2(t *testing.T) {
	r := vx.Begin("C17", "sched-sm2", "see sched-sm4: the same explorer and oracles on concurrent SignHashed/VerifyHashed/DerivePublic sharing key and digest buffers, and ZA/SignZa/Sign/GenerateKey next to independent sm3 hash values")
	defer r.End()
	selfCheck()
	bound, capS := 2, 60000
	if vx.Thorough() {
		bound, capS = 3, 1500000
	}
	scs := c17sm2Scenarios()
	c17budget()
	if raw, ok := vx.Replay("sched-sm2"); ok {
		var c c17case2
		json.Unmarshal(raw, &c)
		for _, s := range scs {
			if s.Name == c.Scenario {
				c17report(r, s.Explore(bound, capS))
			}
		}
		return
	}
	r.Set("instrumented_globals_registered", len(sched.Globals()))
	for i, s := range scs {
		if vx.MineIdx(i) {
			c17report(r, s.Explore(bound, capS))
		}
	}
}

func c17report(r *vx.R, rep *sched.Report) {
	st := rep.Stats
	r.Eval(st.Schedules)
	r.States(st.Points)
	r.Transitions(st.Points)
	r.Validated(rep.Replayed)
	for o := range st.Outcomes {
		r.Shape(rep.Scenario + ":" + o)
	}
	r.Set("scenario_"+rep.Scenario, map[string]interface{}{"schedules": st.Schedules, "points": st.Points, "max_points_per_schedule": st.MaxPoints,
		"preemption_bound_completed": st.BoundDone, "distinct_outcomes": len(st.Outcomes), "threads": rep.Threads, "ops": rep.Ops, "truncated": st.Truncated,
		"schedules_replayed_twice": rep.Replayed})
	if st.Truncated {
		r.NotExhaustive(fmt.Sprintf("schedule cap reached in %s (bound completed: %d)", rep.Scenario, st.BoundDone))
	}
	for _, f := range rep.Findings {
		r.Violation("conc:"+f.Key, fmt.Sprintf("[%s] %s (schedule %v)", rep.Scenario, f.What, f.Schedule), c17case2{rep.Scenario, f.Schedule, f.Key})
	}
	r.Sample(map[string]interface{}{"scenario": rep.Scenario, "schedules": st.Schedules, "outcomes": len(st.Outcomes), "bound": st.BoundDone})
}

func TestVX_C17_SM2_Race(t *testing.T) {
	r := vx.Begin("C17", "race-sm2", "SM2 scenario bodies free-running under `go test -race`")
	defer r.End()
	iters := 60
	if vx.Thorough() {
		iters = 600
	}
	for _, s := range c17sm2Scenarios() {
		bad := s.FreeRun(iters)
		r.Eval(iters)
		r.Shape(s.Name)
		for _, b := range bad {
			r.Violation("conc:free-run:result-differs", "["+s.Name+"] "+b, c17case2{Scenario: s.Name})
		}
		r.Sample(map[string]interface{}{"scenario": s.Name, "iterations": iters})
	}
}

// c17budget gives the schedule exploration a wall-clock budget (a cap on work, reported as exhaustive:false when hit).
func c17budget() {
	secs := 100.0
	if vx.Thorough() {
		secs = 1200
	}
	sched.Deadline = time.Now().Add(time.Duration(secs * float64(time.Second)))
}

//go:build verif

package sm2_test

import (
	"bytes"
	cryptorand "crypto/rand"
	"encoding/json"
	"errors"
	"fmt"
	"io"
	"math/big"
	"os"
	"strings"
	"syscall"
	"testing"
	"time"

	"github.com/bilibili/smgo/sm2"
	"verif/refs/sm2ref"
	"verif/vx"
)

// One answer of the scripted reader to one Read call.
//
//	full      fill the buffer completely, nil
//	short:k   deliver k bytes, nil (k < len(p))
//	zero      0 bytes, nil (allowed by io.Reader, discouraged; at most twice in a row)
//	err:k     deliver k bytes together with an error
//	eof:k     deliver k bytes together with io.EOF
//	fullerr   fill the buffer completely and return an error as well
type c19case struct {
	Fn     string   // genkey | signhashed | signza | sign
	Cands  []string // candidate names for successive 32-byte draws ("hex:<64 hex digits>" for an explicit value)
	Script []string // answers for successive Read calls; after the script: "full"
	Shape  string
	E, D   string // optional overrides (hex) of digest and private key, used by the solved rejection kinds
	Reject []int  // draw indexes that a correct signer rejects for reasons other than the k-range (r=0, r+k=n, s=0)
	// ErrKind selects the dynamic type of the injected error: "" plain; temporary (Temporary() true); timeout; eagain
	// (syscall.EAGAIN); patherror (*os.PathError around EAGAIN); wrapped (fmt.Errorf %w around EINTR); noprogress; unexpectedeof
	ErrKind string
	// ViaGlobal installs the scripted reader as crypto/rand.Reader for the duration of the call and passes that very
	// value as the rand argument (a library that recognises "the system generator" must still report its failures)
	ViaGlobal bool
	// Served wraps the scripted reader in a servedReader: every answer is produced by another goroutine while the
	// caller's stack is moved; the call runs on a fresh goroutine
	Served bool
	// ShortKey > 0 (signing entry points): the private key is a value below 2^(8*ShortKey) handed over in ShortKey bytes
	ShortKey int
	// Methods "len": the reader's dynamic type also has Len() int (as bytes.Reader, bytes.Buffer, strings.Reader have),
	// reporting how many bytes of the stream are left; "size": Len(), Size() and Buffered()
	Methods string
}

type tempError struct{ timeout bool }

func (e tempError) Error() string   { return "injected temporary randomness failure" }
func (e tempError) Temporary() bool { return true }
func (e tempError) Timeout() bool   { return e.timeout }

func c19err(kind string) error {
	switch kind {
	case "temporary":
		return tempError{}
	case "timeout":
		return tempError{true}
	case "eagain":
		return syscall.EAGAIN
	case "patherror":
		return &os.PathError{Op: "read", Path: "/dev/urandom", Err: syscall.EAGAIN}
	case "wrapped":
		return fmt.Errorf("entropy source: %w", syscall.EINTR)
	case "noprogress":
		return io.ErrNoProgress
	case "unexpectedeof":
		return io.ErrUnexpectedEOF
	}
	return errInjected
}

var errInjected = errors.New("injected randomness failure")

type scriptedReader struct {
	data   []byte // the perfect byte stream
	pos    int
	script []string
	call   int
	failed bool
	errv   error // the error value handed out by err:/fullerr answers (nil: errInjected)
}

func (s *scriptedReader) Read(p []byte) (int, error) {
	ans := "full"
	if s.call < len(s.script) {
		ans = s.script[s.call]
	}
	s.call++
	var k int
	var kind string
	if n, _ := fmt.Sscanf(ans, "short:%d", &k); n == 1 {
		kind = "short"
	} else if n, _ := fmt.Sscanf(ans, "err:%d", &k); n == 1 {
		kind = "err"
	} else if n, _ := fmt.Sscanf(ans, "eof:%d", &k); n == 1 {
		kind = "eof"
	} else {
		kind = ans
	}
	give := func(n int) int {
		if n > len(p) {
			n = len(p)
		}
		if n > len(s.data)-s.pos {
			n = len(s.data) - s.pos
		}
		copy(p, s.data[s.pos:s.pos+n])
		s.pos += n
		return n
	}
	switch kind {
	case "full":
		if s.pos >= len(s.data) {
			s.failed = true
			return 0, io.EOF
		}
		return give(len(p)), nil
	case "short":
		return give(k), nil
	case "zero":
		return 0, nil
	case "err":
		s.failed = true
		if s.errv != nil {
			return give(k), s.errv
		}
		return give(k), errInjected
	case "eof":
		s.failed = true
		return give(k), io.EOF
	case "fullerr":
		s.failed = true
		if s.errv != nil {
			return give(len(p)), s.errv
		}
		return give(len(p)), errInjected
	}
	panic("bad script answer " + ans)
}

// lenReader / sizeReader: the scripted reader seen through dynamic types with a richer method set.
type lenReader struct{ *scriptedReader }

func (l lenReader) Len() int { return len(l.data) - l.pos }

type sizeReader struct{ lenReader }

func (s sizeReader) Size() int64   { return int64(len(s.data)) }
func (s sizeReader) Buffered() int { return len(s.data) - s.pos }

func c19cands() map[string]*big.Int {
	one := bigOne
	return map[string]*big.Int{
		"ok1": big.NewInt(0x1001), "ok2": modN(bi(vx.Fill("c19ok", 32))), "0": big.NewInt(0), "n": bigN, "n-1": new(big.Int).Sub(bigN, one),
		"max": new(big.Int).Sub(new(big.Int).Lsh(one, 256), one),
	}
}

// perfect runs fn on a perfect reader delivering data and returns what a correct implementation must return.
func c19call(fn string, rd io.Reader, d, e, za, id, msg, px, py []byte) (out [][]byte, err error) {
	switch fn {
	case "genkey":
		var priv, x, y []byte
		priv, x, y, err = sm2.GenerateKey(rd)
		out = [][]byte{priv, x, y}
	case "signhashed":
		var rr, ss []byte
		rr, ss, err = sm2.SignHashed(rd, d, e)
		out = [][]byte{rr, ss}
	case "signza":
		var rr, ss []byte
		rr, ss, err = sm2.SignZa(rd, d, za, msg)
		out = [][]byte{rr, ss}
	case "sign":
		var rr, ss []byte
		rr, ss, err = sm2.Sign(id, px, py, rd, d, msg)
		out = [][]byte{rr, ss}
	}
	return
}

var c19hung = map[string]bool{}

func c19eval(r *vx.R, c c19case) {
	combo := fmt.Sprintf("%s/%v/%s", c.Fn, c.ViaGlobal, c.ErrKind)
	if c19hung[combo] {
		return // this entry point already hung once in this process with this kind of source: one report is enough
	}
	r.Eval(1)
	cm := c19cands()
	var data []byte
	for _, nm := range c.Cands {
		if len(nm) > 4 && nm[:4] == "hex:" {
			data = append(data, vx.UnHex(nm[4:])...)
		} else {
			data = append(data, b32(cm[nm])...)
		}
	}
	d := b32(modN(bi(vx.Fill("c19d", 32))))
	e := vx.Fill("c19e", 32)
	if c.D != "" {
		d = vx.UnHex(c.D)
	}
	if c.ShortKey > 0 && c.Fn != "genkey" {
		d = vx.Fill("c19shortd", c.ShortKey)
		d[0] |= 1
	}
	if c.E != "" {
		e = vx.UnHex(c.E)
	}
	px, py := sm2ref.Pub(bi(d))
	za := vx.Fill("c19za", 32)
	id := []byte("1234567812345678")
	msg := []byte("message digest")
	// expected outcome from the reference semantics: simulate io.ReadFull over the script
	// draws: 32-byte units; a draw fails iff an error answer arrives before its 32 bytes are complete
	// (io.ReadFull drops the error when the buffer was completed by that same call).
	sim := &scriptedReader{data: data, script: c.Script, errv: c19err(c.ErrKind)}
	wantErr := false
	var accepted []byte
	rejectDraw := map[int]bool{}
	for _, i := range c.Reject {
		rejectDraw[i] = true
	}
	for draws := 0; draws < 1100; draws++ {
		buf := make([]byte, 32)
		_, rerr := io.ReadFull(sim, buf)
		if rerr != nil {
			wantErr = true
			break
		}
		if rejectDraw[draws] {
			continue
		}
		v := bi(buf)
		if c.Fn == "genkey" {
			if sm2ref.ValidKey(v) {
				accepted = buf
				break
			}
		} else if v.Sign() != 0 && v.Cmp(bigN) < 0 {
			accepted = buf
			break
		}
	}
	rd := &scriptedReader{data: data, script: c.Script, errv: c19err(c.ErrKind)}
	var out [][]byte
	var err error
	kind, m := vx.TryTimeout(func() {
		if c.ViaGlobal {
			old := cryptorand.Reader
			cryptorand.Reader = rd
			defer func() { cryptorand.Reader = old }()
			out, err = c19call(c.Fn, cryptorand.Reader, d, e, za, id, msg, px, py)
			return
		}
		if c.Served {
			out, err = c19call(c.Fn, &servedReader{inner: rd}, d, e, za, id, msg, px, py)
			return
		}
		if c.Methods == "len" {
			out, err = c19call(c.Fn, lenReader{rd}, d, e, za, id, msg, px, py)
			return
		}
		if c.Methods == "size" {
			out, err = c19call(c.Fn, sizeReader{lenReader{rd}}, d, e, za, id, msg, px, py)
			return
		}
		out, err = c19call(c.Fn, rd, d, e, za, id, msg, px, py)
	}, 60*time.Second)
	key := "rand:" + c.Fn
	if kind == "hang" {
		c19hung[combo] = true
		r.NotExhaustive("after a hang the remaining cases of " + combo + " are skipped")
		r.Violation(key+":hang", fmt.Sprintf("the call never returned under reader script %v (error kind %q, via crypto/rand.Reader: %v): %s", c.Script, c.ErrKind, c.ViaGlobal, m), c)
		return
	}
	if kind != "" {
		r.Violation(key+":panic", fmt.Sprintf("panicked under reader script %v: %s", c.Script, m), c)
		return
	}
	if !wantErr && rd.failed && !sim.failed && err == nil {
		// the reference read sequence ends with the accepted candidate; a call that went back to the source afterwards and
		// was told about a failure (error or end of stream) while it was still generating must report it
		r.Violation(key+":error-swallowed:after-accepted-candidate", fmt.Sprintf("the call consulted the source again after the first acceptable candidate, the source failed there (script %v, candidates %v, %d bytes handed out) and the call returned no error", c.Script, c.Cands, rd.pos), c)
	}
	if wantErr {
		if err == nil {
			r.Violation(key+":error-swallowed", fmt.Sprintf("the randomness source failed (script %v, candidates %v) but the call returned no error; outputs %x", c.Script, c.Cands, out), c)
		} else {
			for i, o := range out {
				if c.Fn == "genkey" && i == 0 {
					continue // the partially filled private-key buffer may be returned alongside the error; only the public key must be absent
				}
				if len(o) != 0 {
					r.Violation(key+":output-with-error", fmt.Sprintf("error returned together with output #%d = %x", i, o), c)
				}
			}
		}
	} else {
		zeros, maxZeros := 0, 0
		for _, a := range c.Script {
			if a == "zero" {
				zeros++
				if zeros > maxZeros {
					maxZeros = zeros
				}
			} else {
				zeros = 0
			}
		}
		if err != nil && maxZeros >= 100 {
			// giving up with an error on a source that makes no progress for 100 reads in a row (the io.ErrNoProgress
			// convention) is a conservative answer the statement does not exclude: recorded, not a violation. Going on
			// with a partially filled buffer is (checked above and below).
			r.Add("observation_error_after_100_or_more_empty_reads", 1)
		} else if err != nil {
			r.Violation(key+":spurious-error", fmt.Sprintf("reader delivered every byte (script %v) but the call failed: %v", c.Script, err), c)
		} else {
			// identical to the same byte stream through a perfect reader
			perfect, perr := c19call(c.Fn, bytes.NewReader(data), d, e, za, id, msg, px, py)
			if perr != nil {
				r.Violation(key+":perfect-reader-error", fmt.Sprintf("perfect reader failed: %v", perr), c)
			} else {
				for i := range out {
					if !bytes.Equal(out[i], perfect[i]) {
						r.Violation(key+":short-read-changes-result", fmt.Sprintf("script %v changed output #%d: %x vs %x", c.Script, i, out[i], perfect[i]), c)
					}
				}
			}
			if c.Fn == "genkey" && accepted != nil && !bytes.Equal(out[0], accepted) {
				r.Violation(key+":wrong-candidate", fmt.Sprintf("key %x is not the first valid candidate %x", out[0], accepted), c)
			}
			if c.Fn == "signhashed" && accepted != nil {
				want, werr := sm2ref.Sign(bytes.NewReader(data), bi(d), e)
				if werr == nil && (!bytes.Equal(out[0], want.R) || !bytes.Equal(out[1], want.S)) {
					r.Violation(key+":differs-from-reference", "signature differs from the reference on the same byte stream", c)
				}
			}
		}
	}
	r.Shape(c.Fn + ":" + c.Shape)
}

func TestVX_C19(t *testing.T) {
	r := vx.Begin("C19", "failing-rand", "scripted io.Reader: per Read call one answer from {full; short k (k in 1,16,31); zero bytes nil; k bytes+error (k in 0,1,16,31); k bytes+EOF; full+error}. Enumerated: every position of the first failure = (draw index j in 0..3 after j rejected candidates from {0,n,n-1(keygen),max}) x (byte offset 0,1,16,31 via a preceding short read, and full+error) x failure kind; every script of <=2 non-failing deviations (short/zero reads) without error; stalls of m consecutive empty reads, m in {3..1000} [thorough: 4096, 100000], at byte offset 0/1/31 of draw 0/1, followed by data / error / EOF; runs of m rejected candidates, m in {8..1000}, followed by an acceptable one / an error / EOF; GenerateKey(nil); every case a second time with the scripted reader installed as crypto/rand.Reader and that value passed as the source; failures with errors of other dynamic types (Temporary() / Timeout() true, syscall.EAGAIN, *os.PathError, wrapped EINTR, io.ErrNoProgress, io.ErrUnexpectedEOF). Entry points GenerateKey, SignHashed, SignZa, Sign; for SignHashed also after a candidate rejected late (r=0, r+k=n, s=0 - digest resp. key solved). Oracle: io.ReadFull semantics simulated on the same script: failure before a complete acceptable candidate => err!=nil and no public key/signature; otherwise output identical to a perfect reader on the same bytes (and to sm2ref). Shape=(entry, rejected prefix, failure kind, offset)")
	defer r.End()
	selfCheck()
	if raw, ok := vx.Replay("failing-rand"); ok {
		var c c19case
		json.Unmarshal(raw, &c)
		if c.Fn == "genkey-nil" {
			c19nil(r)
			return
		}
		c19eval(r, c)
		return
	}
	n := 0
	run := func(c c19case) {
		n++
		if !vx.MineIdx(n) {
			return
		}
		c19eval(r, c)
		r.Sample(c)
		g := c
		g.ViaGlobal = true
		g.Shape += ":via-crypto/rand.Reader"
		c19eval(r, g)
		if len(c.Script) <= 8 {
			sv := c
			sv.Served = true
			sv.Shape += ":served"
			c19eval(r, sv)
			for _, ms := range []string{"len", "size"} {
				mv := c
				mv.Methods = ms
				mv.Shape += ":reader-with-" + ms
				c19eval(r, mv)
			}
			if c.Fn != "genkey" && c.D == "" {
				for _, kl := range []int{1, 31} {
					kv := c
					kv.ShortKey = kl
					kv.Shape += fmt.Sprintf(":key%dbytes", kl)
					c19eval(r, kv)
				}
			}
		}
		failing := false
		for _, a := range c.Script {
			failing = failing || strings.HasPrefix(a, "err:") || a == "fullerr"
		}
		if failing && (strings.Contains(c.Shape, ":off0") || strings.Contains(c.Shape, ":off16")) {
			for _, ek := range []string{"temporary", "timeout", "eagain", "patherror", "wrapped", "noprogress", "unexpectedeof"} {
				k := c
				k.ErrKind = ek
				k.Shape += ":" + ek
				c19eval(r, k)
			}
		}
	}
	fns := []string{"genkey", "signhashed", "signza", "sign"}
	rejs := map[string][]string{"genkey": {"0", "n", "n-1", "max"}, "signhashed": {"0", "n", "max"}, "signza": {"n", "0"}, "sign": {"max", "0"}}
	fails := []string{"err:0", "err:1", "err:16", "err:31", "eof:0", "eof:1", "eof:31", "fullerr"}
	for _, fn := range fns {
		// prefixes of rejected candidates, length 0..3
		var prefixes [][]string
		var rec func(p []string)
		rec = func(p []string) {
			prefixes = append(prefixes, append([]string{}, p...))
			if len(p) == 3 {
				return
			}
			for _, x := range rejs[fn] {
				if len(p) >= 1 && !vx.Thorough() && x != rejs[fn][len(p)%len(rejs[fn])] {
					continue // quick: one representative per deeper level
				}
				rec(append(append([]string{}, p...), x))
			}
		}
		rec(nil)
		for _, pre := range prefixes {
			cands := append(append([]string{}, pre...), "ok1", "ok2")
			j := len(pre)
			// failures at draw j (after j full reads), at byte offsets via a preceding short read
			for _, f := range fails {
				for _, off := range []int{0, 1, 16, 31} {
					script := make([]string, 0, j+2)
					for i := 0; i < j; i++ {
						script = append(script, "full")
					}
					if off > 0 {
						script = append(script, fmt.Sprintf("short:%d", off))
					}
					script = append(script, f)
					if f == "fullerr" && off > 0 {
						// full+error after a short read completes the buffer: io.ReadFull drops the error -> next draw decides
					}
					run(c19case{Fn: fn, Cands: cands, Script: script, Shape: fmt.Sprintf("rej%v:%s:off%d", pre, f, off)})
				}
			}
			// failures behind the accepted candidate (Read calls j+1, j+2 and j+3, byte offsets 0 and 16) and a stream that
			// ends exactly with the accepted candidate: a correct call never gets there; one that consults the source
			// again while it is still generating must not swallow what it is told
			for _, f := range fails {
				for late := 1; late <= 3; late++ {
					for _, off := range []int{0, 16} {
						script := make([]string, 0, j+late+2)
						for i := 0; i < j+late; i++ {
							script = append(script, "full")
						}
						if off > 0 {
							script = append(script, fmt.Sprintf("short:%d", off))
						}
						script = append(script, f)
						run(c19case{Fn: fn, Cands: cands, Script: script, Shape: fmt.Sprintf("rej%v:late%d:%s:off%d", pre, late, f, off)})
					}
				}
			}
			run(c19case{Fn: fn, Cands: append(append([]string{}, pre...), "ok1"), Shape: fmt.Sprintf("rej%v:stream-ends-with-accepted", pre)})
			// failure in the middle of a rejected candidate's successor is covered above; failure *before* any draw is j=0
		}
		// non-failing deviations: <= 2 short/zero reads anywhere in the first 3 draws
		devs := []string{"short:1", "short:16", "short:31", "zero"}
		cands := []string{rejs[fn][0], "ok1", "ok2"}
		for p1 := 0; p1 < 4; p1++ {
			for _, d1 := range devs {
				s1 := make([]string, p1+1)
				for i := range s1 {
					s1[i] = "full"
				}
				s1[p1] = d1
				run(c19case{Fn: fn, Cands: cands, Script: s1, Shape: fmt.Sprintf("dev1:%d:%s", p1, d1)})
				for p2 := p1 + 1; p2 < 5; p2++ {
					for _, d2 := range devs {
						s2 := make([]string, p2+1)
						for i := range s2 {
							s2[i] = "full"
						}
						s2[p1], s2[p2] = d1, d2
						run(c19case{Fn: fn, Cands: cands, Script: s2, Shape: fmt.Sprintf("dev2:%d:%s:%d:%s", p1, d1, p2, d2)})
					}
				}
			}
		}
		// long runs of one deviation: m empty reads (0, nil) in a row at byte offset off of draw j - legal for an io.Reader,
		// io.ReadFull just keeps reading - followed by (a) the rest of the data, (b) an error, (c) EOF; and m one-byte reads
		stalls := []int{3, 10, 31, 32, 33, 99, 100, 101, 128, 255, 256, 1000}
		if vx.Thorough() {
			stalls = append(stalls, 4096, 100000)
		}
		for _, m := range stalls {
			for _, off := range []int{0, 1, 31} {
				for j := 0; j <= 1; j++ {
					for _, after := range []string{"full", "err:0", "eof:0", "err:1"} {
						script := make([]string, 0, m+4)
						for i := 0; i < j; i++ {
							script = append(script, "full")
						}
						if off > 0 {
							script = append(script, fmt.Sprintf("short:%d", off))
						}
						for i := 0; i < m; i++ {
							script = append(script, "zero")
						}
						script = append(script, after)
						cs := c19case{Fn: fn, Cands: append(append([]string{}, rejs[fn][:j]...), "ok1", "ok2"), Script: script, Shape: fmt.Sprintf("stall%d:off%d:draw%d:%s", m, off, j, after)}
						n++
						if vx.MineIdx(n) {
							c19eval(r, cs)
						}
					}
				}
			}
		}
		// long prefixes of rejected candidates (the loop must keep drawing), then a failure resp. an acceptable candidate
		for _, m := range []int{8, 31, 32, 33, 64, 100, 256, 1000} {
			for _, tail := range []string{"ok", "err:0", "eof:16"} {
				cands := make([]string, 0, m+2)
				for i := 0; i < m; i++ {
					cands = append(cands, rejs[fn][i%len(rejs[fn])])
				}
				script := []string(nil)
				if tail != "ok" {
					for i := 0; i < m; i++ {
						script = append(script, "full")
					}
					script = append(script, tail)
				}
				cs := c19case{Fn: fn, Cands: append(cands, "ok1", "ok2"), Script: script, Shape: fmt.Sprintf("rejected-run%d:%s", m, tail)}
				n++
				if vx.MineIdx(n) {
					c19eval(r, cs)
				}
			}
		}
		// stream that simply ends (EOF from the perfect reader) after j rejected candidates, or mid-candidate
		for j := 0; j <= 2; j++ {
			c := make([]string, j)
			for i := range c {
				c[i] = rejs[fn][i%len(rejs[fn])]
			}
			run(c19case{Fn: fn, Cands: c, Script: nil, Shape: fmt.Sprintf("ends-after-%d", j)})
		}
	}
	// rejections that depend on the key and the digest (r = 0, r + k = n, s = 0), solved as in C02: the source fails at
	// every position of the redraw that follows such a late rejection
	{
		k1 := modN(bi(vx.Fill("c19sk1", 32)))
		x1 := sm2ref.BaseMul(k1).X
		dflt := modN(bi(vx.Fill("c19d", 32)))
		eFree := bi(vx.Fill("c19e", 32))
		type kind struct {
			name string
			e, d *big.Int
		}
		r1 := modN(new(big.Int).Add(eFree, x1))
		kinds := []kind{
			{"R0", modN(new(big.Int).Neg(x1)), dflt},
			{"RK", modN(new(big.Int).Sub(new(big.Int).Sub(bigN, k1), x1)), dflt},
			{"S0", eFree, modN(new(big.Int).Mul(k1, invN(r1)))},
		}
		for _, kd := range kinds {
			if !sm2ref.ValidKey(kd.d) {
				continue
			}
			cands := []string{"hex:" + vx.Hex(b32(k1)), "ok1", "ok2"}
			for _, f := range fails {
				for _, off := range []int{0, 1, 16, 31} {
					script := []string{"full"}
					if off > 0 {
						script = append(script, fmt.Sprintf("short:%d", off))
					}
					script = append(script, f)
					run(c19case{Fn: "signhashed", Cands: cands, Script: script, Shape: fmt.Sprintf("late-reject:%s:%s:off%d", kd.name, f, off), E: vx.Hex(b32(kd.e)), D: vx.Hex(b32(kd.d)), Reject: []int{0}})
				}
			}
			// and without any failure: the next candidate must be used
			run(c19case{Fn: "signhashed", Cands: cands, Script: nil, Shape: "late-reject:" + kd.name + ":nofail", E: vx.Hex(b32(kd.e)), D: vx.Hex(b32(kd.d)), Reject: []int{0}})
		}
	}
	if vx.MineIdx(0) {
		c19nil(r)
	}
}

func c19nil(r *vx.R) {
	r.Eval(1)
	var priv, x, y []byte
	var err error
	kind, m := vx.Try(func() { priv, x, y, err = sm2.GenerateKey(nil) })
	c := c19case{Fn: "genkey-nil"}
	if kind != "" {
		r.Violation("rand:genkey:nil-panic", "GenerateKey(nil) panicked: "+m, c)
	} else if err == nil || len(x) != 0 || len(y) != 0 {
		r.Violation("rand:genkey:nil-accepted", fmt.Sprintf("GenerateKey(nil) returned %x %x %x err=%v", priv, x, y, err), c)
	}
	r.Shape("genkey:nil")
}

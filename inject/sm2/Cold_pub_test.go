//go:build verif

package sm2_test

import (
	"fmt"
	"math/big"
	"os"
	"testing"

	"github.com/bilibili/smgo/sm2"
	"verif/refs/sm2ref"
	"verif/vx"
)

// sm2ColdEntries prepares everything with the reference model only: the child process must not have touched package
// sm2 before the entry runs.
func sm2ColdEntries() ([]vx.ColdEntry, map[string]string) {
	d := modN(bi(vx.Fill("coldd", 32)))
	db := b32(d)
	px, py := sm2ref.Pub(d)
	e := vx.Fill("colde", 32)
	k := b32(modN(bi(vx.Fill("coldk", 32))))
	sg, err := sm2ref.Sign(stream(k), d, e)
	if err != nil {
		panic(err)
	}
	id, msg := []byte("1234567812345678"), vx.Fill("coldmsg", 40)
	zaRef, _ := sm2ref.ZA(id, px, py)
	ev := sm2ref.E(zaRef[:], msg)
	sgm, _ := sm2ref.Sign(stream(k), d, ev[:])
	g := sm2ref.G()
	entries := []vx.ColdEntry{
		{"TestPrivateKey", func() string { return fmt.Sprint(sm2.TestPrivateKey(db), sm2.TestPrivateKey(make([]byte, 32))) }},
		{"CheckOnCurve(G)", func() string { return fmt.Sprint(sm2.CheckOnCurve(b32(g.X), b32(g.Y))) }},
		{"CheckOnCurve(0,0)", func() string { return fmt.Sprint(sm2.CheckOnCurve(make([]byte, 32), make([]byte, 32))) }},
		{"CheckOnCurve(pub)", func() string { return fmt.Sprint(sm2.CheckOnCurve(px, py)) }},
		{"DerivePublic", func() string { x, y, err := sm2.DerivePublic(db); return fmt.Sprintf("%x %x %v", x, y, err) }},
		{"GenerateKey", func() string {
			p, x, y, err := sm2.GenerateKey(stream(db))
			return fmt.Sprintf("%x %x %x %v", p, x, y, err)
		}},
		{"SignHashed", func() string {
			r, s, err := sm2.SignHashed(stream(k), db, e)
			return fmt.Sprintf("%x %x %v", r, s, err)
		}},
		{"VerifyHashed", func() string { ok, err := sm2.VerifyHashed(px, py, e, sg.R, sg.S); return fmt.Sprint(ok, err) }},
		{"VerifyHashed(forged)", func() string {
			s2 := b32(modN(new(big.Int).Add(bi(sg.S), bigOne)))
			ok, _ := sm2.VerifyHashed(px, py, e, sg.R, s2)
			return fmt.Sprint(ok)
		}},
		{"ZA", func() string { z, err := sm2.ZA(id, px, py); return fmt.Sprintf("%x %v", z, err) }},
		{"Sign", func() string {
			r, s, err := sm2.Sign(id, px, py, stream(k), db, msg)
			return fmt.Sprintf("%x %x %v", r, s, err)
		}},
		{"Verify", func() string { ok, err := sm2.Verify(id, px, py, msg, sgm.R, sgm.S); return fmt.Sprint(ok, err) }},
	}
	want := map[string]string{
		"TestPrivateKey":       fmt.Sprint(0, -1),
		"CheckOnCurve(G)":      "true",
		"CheckOnCurve(0,0)":    "false",
		"CheckOnCurve(pub)":    "true",
		"DerivePublic":         fmt.Sprintf("%x %x %v", px, py, nil),
		"GenerateKey":          fmt.Sprintf("%x %x %x %v", db, px, py, nil),
		"SignHashed":           fmt.Sprintf("%x %x %v", sg.R, sg.S, nil),
		"VerifyHashed":         fmt.Sprint(true, nil),
		"VerifyHashed(forged)": "false",
		"ZA":                   fmt.Sprintf("%x %v", zaRef[:], nil),
		"Sign":                 fmt.Sprintf("%x %x %v", sgm.R, sgm.S, nil),
		"Verify":               fmt.Sprint(true, nil),
	}
	return entries, want
}

// TestVX_SM2Cold serves two parts: C12 "cold-start" (every entry alone as the first use of package sm2 in a fresh
// process) and C17 "cold-concurrent" (eight goroutines released together into the first use).
func TestVX_SM2Cold(t *testing.T) {
	entries, want := sm2ColdEntries()
	if vx.ColdChild(entries) {
		return
	}
	prop, part := "C12", "cold-start"
	if os.Getenv("VX_PART") == "cold-concurrent" {
		prop, part = "C17", "cold-concurrent"
	}
	r := vx.Begin(prop, part, "each entry point of package sm2 (TestPrivateKey, CheckOnCurve on G / (0,0) / a public key, DerivePublic, GenerateKey, SignHashed, VerifyHashed valid and forged, ZA, Sign, Verify) as the FIRST use of the library in a fresh process - part cold-start: alone; part cold-concurrent: by 8 goroutines released together (spin barrier) in 3 (thorough 20) fresh processes per entry, also under the race detector; oracle sm2ref")
	defer r.End()
	selfCheck()
	if part == "cold-start" {
		vx.ColdCheck(r, "TestVX_SM2Cold", entries, want, 1, 1)
		return
	}
	procs := 3
	if vx.Thorough() {
		procs = 20
	}
	os.Setenv("VX_COLD_ONLY_CONC", "1")
	vx.ColdCheck(r, "TestVX_SM2Cold", entries, want, 8, procs)
}

//go:build verif

package sm2_test

import (
	"bytes"
	"fmt"
	"os"
	"runtime"
	"sync"
	"testing"

	"github.com/bilibili/smgo/sm2"
	"verif/refs/sm2ref"
	"verif/vx"
)

type crowdCase struct {
	Goroutines int
	Op         string
	Key        int
}

// TestVX_Crowd: many more calls in flight than there are processors. 64 key pairs with reference signatures are
// prepared; G goroutines (G in {24, 192, 2048}) leave a barrier together and each runs a fixed list of calls - verify
// its own key's signature, verify it under the neighbour's key (must fail), sign with a scripted nonce (must equal the
// reference), derive the public key, compute ZA - so that at any moment hundreds of calls are suspended half way. Every
// result must be what the same call returns alone. This is a free-running pass (like the race parts): what it explores
// is decided by the scheduler, what it checks is exact.
func TestVX_Crowd(t *testing.T) {
	prop := os.Getenv("VX_CROWD_PROP")
	if prop == "" {
		prop = "C17"
	}
	r := vx.Begin(prop, "crowd", "64 key pairs with reference signatures; G goroutines (24, 192, 2048) released together, each running 8 rounds of {VerifyHashed own signature (true), VerifyHashed under the neighbour's key (false), SignHashed with a scripted nonce (= reference), DerivePublic, ZA, Verify, Sign}: with far more calls in flight than processors, every result must equal the serial result. Free-running pass: schedules are the scheduler's, the oracle is exact")
	defer r.End()
	selfCheck()
	runtime.GOMAXPROCS(16)
	const NK = 64
	type kp struct {
		d, px, py, e, k, r, s, za, rm, sm []byte
	}
	id, msg := []byte("1234567812345678"), vx.Fill("crowdmsg", 33)
	keys := make([]kp, NK)
	for i := range keys {
		d := modN(bi(vx.Fill(fmt.Sprintf("crowd-d%d", i), 32)))
		px, py := sm2ref.Pub(d)
		e := vx.Fill(fmt.Sprintf("crowd-e%d", i), 32)
		k := b32(modN(bi(vx.Fill(fmt.Sprintf("crowd-k%d", i), 32))))
		sg, err := sm2ref.Sign(stream(k), d, e)
		if err != nil {
			panic(err)
		}
		za, _ := sm2ref.ZA(id, px, py)
		em := sm2ref.E(za[:], msg)
		sgm, err := sm2ref.Sign(stream(k), d, em[:])
		if err != nil {
			panic(err)
		}
		keys[i] = kp{b32(d), px, py, e, k, sg.R, sg.S, za[:], sgm.R, sgm.S}
	}
	for _, G := range []int{24, 192, 2048} {
		var mu sync.Mutex
		bad := map[string]crowdCase{}
		what := map[string]string{}
		var wg sync.WaitGroup
		start := make(chan struct{})
		for g := 0; g < G; g++ {
			wg.Add(1)
			go func(g int) {
				defer wg.Done()
				<-start
				for round := 0; round < 8; round++ {
					ki := (g*7 + round) % NK
					me, other := keys[ki], keys[(ki+1)%NK]
					fail := func(op, msg string) {
						mu.Lock()
						if _, ok := bad[op]; !ok {
							bad[op] = crowdCase{G, op, ki}
							what[op] = msg
						}
						mu.Unlock()
					}
					kind, pm := vx.Try(func() {
						if ok, err := sm2.VerifyHashed(me.px, me.py, me.e, me.r, me.s); !ok {
							fail("VerifyHashed", fmt.Sprintf("a valid signature was rejected: %v", err))
						}
						if ok, _ := sm2.VerifyHashed(other.px, other.py, me.e, me.r, me.s); ok {
							fail("VerifyHashed:foreign-key", "a signature was accepted under another key")
						}
						if rr, ss, err := sm2.SignHashed(stream(me.k), me.d, me.e); err != nil || !bytes.Equal(rr, me.r) || !bytes.Equal(ss, me.s) {
							fail("SignHashed", fmt.Sprintf("signature differs from the serial result: err=%v", err))
						}
						if x, y, err := sm2.DerivePublic(me.d); err != nil || !bytes.Equal(x, me.px) || !bytes.Equal(y, me.py) {
							fail("DerivePublic", "public key differs from the serial result")
						}
						if z, err := sm2.ZA(id, me.px, me.py); err != nil || !bytes.Equal(z, me.za) {
							fail("ZA", "ZA differs from the serial result")
						}
						if ok, err := sm2.Verify(id, me.px, me.py, msg, me.rm, me.sm); !ok {
							fail("Verify", fmt.Sprintf("a valid signature was rejected: %v", err))
						}
						if rr, ss, err := sm2.Sign(id, me.px, me.py, stream(me.k), me.d, msg); err != nil || !bytes.Equal(rr, me.rm) || !bytes.Equal(ss, me.sm) {
							fail("Sign", fmt.Sprintf("signature differs from the serial result: err=%v", err))
						}
					})
					if kind != "" {
						fail("panic", pm)
					}
				}
			}(g)
		}
		close(start)
		wg.Wait()
		r.Eval(G * 8 * 7)
		for op, cs := range bad {
			r.Violation("conc:crowd:"+op, fmt.Sprintf("%d goroutines in flight: %s: %s", G, op, what[op]), cs)
		}
		r.Shape(fmt.Sprintf("crowd:%d", G))
		r.Sample(crowdCase{G, "all", 0})
	}
}

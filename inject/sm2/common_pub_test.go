//go:build verif

package sm2_test

import (
	"bytes"
	"fmt"
	"io"
	"math/big"
	"sort"
	"unsafe"

	"verif/refs"
	"verif/refs/sm2ref"
	"verif/vx"
)

var (
	bigOne = big.NewInt(1)
	bigN   = sm2ref.N
)

func b32(v *big.Int) []byte { return sm2ref.Bytes32(v) }
func bi(b []byte) *big.Int  { return new(big.Int).SetBytes(b) }
func modN(v *big.Int) *big.Int {
	return new(big.Int).Mod(v, bigN)
}
func invN(v *big.Int) *big.Int { return new(big.Int).ModInverse(modN(v), bigN) }

func selfCheck() {
	i0, _ := vx.Shard()
	if err := refs.SelfCheck(i0 == 0 && !vx.Replaying()); err != nil {
		panic("reference self-check failed (harness broken): " + err.Error())
	}
}

// countingReader serves a fixed byte stream and counts what was handed out.
type countingReader struct {
	data []byte
	pos  int
	n    int // calls
}

func (c *countingReader) Read(p []byte) (int, error) {
	c.n++
	if c.pos >= len(c.data) {
		return 0, io.EOF
	}
	k := copy(p, c.data[c.pos:])
	c.pos += k
	return k, nil
}

// servedReader is a contract-abiding io.Reader whose answers are produced by another goroutine: every Read of inner is
// carried out by a helper goroutine while the caller waits for it, and before the helper starts the calling goroutine
// needs more stack than it has, so that the runtime moves its stack while the request is pending (what any deeper call
// chain inside a reader does). The buffer is used during the call only. For a library that keeps the buffer it lends
// to Read in memory the runtime knows about, this reader is indistinguishable from inner.
type servedReader struct {
	inner  io.Reader
	depth  int // kilobytes of stack the last Read needed to make the calling goroutine's stack move
	Moves  int
	giveUp bool
}

//go:noinline
func vxUseStack(depth int) byte {
	var pad [1024]byte
	pad[depth&1023] = byte(depth)
	if depth == 0 {
		return pad[0]
	}
	return vxUseStack(depth-1) + pad[(depth*7)&1023]
}

func (s *servedReader) Read(p []byte) (int, error) {
	type ans struct {
		n   int
		err error
	}
	start := make(chan struct{})
	done := make(chan ans, 1)
	go func() {
		<-start
		n, err := s.inner.Read(p)
		done <- ans{n, err}
	}()
	// recurse deeper and deeper until the stack has really moved (a local of this frame has a new address): the runtime
	// sizes the initial stack of new goroutines by the recent average, so a fixed depth would not always make it grow
	var probe byte
	before := uintptr(unsafe.Pointer(&probe))
	if s.depth == 0 {
		s.depth = 64
	}
	moved := false
	for d := s.depth; d <= 8192 && !s.giveUp; d *= 2 {
		vxUseStack(d)
		if uintptr(unsafe.Pointer(&probe)) != before {
			s.Moves++
			s.depth = d
			moved = true
			break
		}
	}
	if !moved {
		s.giveUp = true // 16 MB of stack did not move it any more: later Reads of this call are plain hand-overs
	}
	probe++
	close(start)
	a := <-done
	return a.n, a.err
}

// onFresh runs f on a new goroutine (which starts with the smallest stack) and waits for it.
func onFresh(f func()) {
	done := make(chan struct{})
	go func() { defer close(done); f() }()
	<-done
}

// dataErrReader reports the end of the stream in the same Read call that delivers the last bytes.
type dataErrReader struct{ c *countingReader }

func (d *dataErrReader) Read(p []byte) (int, error) {
	n, err := d.c.Read(p)
	if err == nil && d.c.pos >= len(d.c.data) {
		return n, io.EOF
	}
	return n, err
}

// poolReader is an entropy pool seen through a buffered type: Len() reports what is buffered right now (at most 16
// bytes), a Read hands out at most that much, and the pool refills between calls. All of it is legal for an io.Reader.
type poolReader struct{ c *countingReader }

func (p poolReader) Len() int {
	if rem := len(p.c.data) - p.c.pos; rem < 16 {
		return rem
	}
	return 16
}

func (p poolReader) Read(b []byte) (int, error) {
	if len(b) > 16 {
		b = b[:16]
	}
	return p.c.Read(b)
}

// zeroRunReader delivers n zero bytes and then tail, without holding them in memory.
type zeroRunReader struct {
	n    int
	tail []byte
	pos  int
}

func (z *zeroRunReader) Read(b []byte) (int, error) {
	if z.pos < z.n {
		k := len(b)
		if k > z.n-z.pos {
			k = z.n - z.pos
		}
		for i := 0; i < k; i++ {
			b[i] = 0
		}
		z.pos += k
		return k, nil
	}
	off := z.pos - z.n
	if off >= len(z.tail) {
		return 0, io.EOF
	}
	k := copy(b, z.tail[off:])
	z.pos += k
	return k, nil
}

func stream(cands ...[]byte) *countingReader {
	return &countingReader{data: bytes.Join(cands, nil)}
}

// leading-zero-byte count of a 32-byte big-endian value
func lzb(b []byte) int {
	n := 0
	for n < len(b) && b[n] == 0 {
		n++
	}
	return n
}

// shaped returns a value < n with exactly z leading zero bytes (z in 0..31) in one of three fills:
// 0 minimal (2^(8(31-z))), 1 maximal, 2 seeded.
func shaped(z, fill int, tag string) *big.Int {
	b := make([]byte, 32)
	switch fill {
	case 0:
		b[z] = 1
	case 1:
		for i := z; i < 32; i++ {
			b[i] = 0xff
		}
	case 2:
		copy(b[z:], vx.Fill(fmt.Sprintf("shape%s%d", tag, z), 32-z))
		if b[z] == 0 {
			b[z] = 0x5a
		}
	}
	v := bi(b)
	if v.Cmp(bigN) >= 0 { // only possible for z == 0
		v.Sub(v, bigN)
		if lzb(b32(v)) != 0 {
			v.SetBytes(vx.Fill("shapefix"+tag, 32))
			v.Rsh(v, 1).SetBit(v, 254, 1)
		}
	}
	if v.Sign() == 0 {
		v.SetInt64(1)
	}
	return v
}

func hexs(bs ...[]byte) []string {
	var out []string
	for _, b := range bs {
		out = append(out, vx.Hex(b))
	}
	return out
}

func sortedKeys(m map[string]*big.Int) []string {
	var ks []string
	for k := range m {
		ks = append(ks, k)
	}
	sort.Strings(ks)
	return ks
}

func sortedNames(m map[string][]byte) []string {
	out := make([]string, 0, len(m))
	for k := range m {
		out = append(out, k)
	}
	sort.Strings(out)
	return out
}

//go:build verif

package internal

import (
	"encoding/json"
	"fmt"
	"math/big"
	"testing"

	"verif/refs/sm2ref"
	"verif/vx"
)

type c14icase struct {
	Scheme string
	K      string
	Shape  string
}

func c14ieval(r *vx.R, c c14icase) {
	r.Eval(1)
	k := vx.UnHex(c.K)
	var got *SM2Point
	var err error
	kind, msg := vx.Try(func() {
		switch c.Scheme {
		case "4-2-32":
			got, err = scalarBaseMult_SkipBitExtraction_4_2_32(k)
		case "5-3-17":
			got, err = scalarBaseMult_SkipBitExtraction_5_3_17(k)
		case "6-3-14":
			got, err = scalarBaseMult_SkipBitExtraction_6_3_14(k)
		case "7-3-12":
			got, err = scalarBaseMult_SkipBitExtraction_7_3_12(k)
		case "daa":
			got, err = scalarMult_Unsafe_DaA(NewSM2Generator(), k)
		}
	})
	if kind != "" || err != nil || got == nil {
		r.Violation("sm2mul:scheme:"+c.Scheme+":fail", fmt.Sprintf("scheme %s failed: %s %s %v", c.Scheme, kind, msg, err), c)
		return
	}
	want := sm2ref.BaseMul(new(big.Int).SetBytes(k))
	if !vxToRef(got).Equal(want) {
		r.Violation("sm2mul:scheme:"+c.Scheme+":wrong", fmt.Sprintf("scheme %s: [%s]G wrong", c.Scheme, c.K), c)
	}
	if !vxOnCurveProj(got) {
		r.Violation("sm2mul:scheme:"+c.Scheme+":offcurve", "result does not satisfy the projective curve equation", c)
	}
	r.Shape(c.Scheme + ":" + c.Shape)
}

func TestVX_C14_Schemes(t *testing.T) {
	r := vx.Begin("C14", "mul-schemes", "the three alternative fixed-window base-multiplication schemes (4-2-32, 5-3-17, 7-3-12) and the 6-3-14 scheme called directly: every window value at every position of the scheme's own layout on zero (and, thorough, seeded) background, all remainder values, boundary scalars; oracle sm2ref; results must satisfy the projective curve equation")
	defer r.End()
	defer vxSeamReport(r)
	if raw, ok := vx.Replay("mul-schemes"); ok {
		var c c14icase
		json.Unmarshal(raw, &c)
		c14ieval(r, c)
		return
	}
	type lay struct {
		name            string
		w, sub, it, rem int
	}
	bgs := []int{0}
	if vx.Thorough() {
		bgs = []int{0, 1}
	}
	one := big.NewInt(1)
	for _, l := range []lay{{"4-2-32", 4, 2, 32, 0}, {"5-3-17", 5, 3, 17, 1}, {"6-3-14", 6, 3, 14, 4}, {"7-3-12", 7, 3, 12, 4}} {
		step := l.sub * l.it
		emit := func(k *big.Int, shape string) {
			c := c14icase{l.name, vx.Hex(sm2ref.Bytes32(k)), shape}
			if !vx.Mine(l.name + shape) {
				return
			}
			if r.Expired() {
				return
			}
			c14ieval(r, c)
			r.Sample(c)
		}
		for pos := 0; pos < step; pos++ {
			for _, bg := range bgs {
				base := new(big.Int)
				if bg == 1 {
					base.SetBytes(vx.Fill(fmt.Sprintf("sch%s-%d", l.name, pos), 32))
				}
				for b := 0; b < l.w; b++ {
					base.SetBit(base, l.rem+pos+b*step, 0)
				}
				for v := 0; v < 1<<uint(l.w); v++ {
					if !vx.Thorough() && l.name == "7-3-12" && v%2 == 0 && v != 0 && v != 126 {
						continue // quick: odd values + extremes for the widest window
					}
					k := new(big.Int).Set(base)
					for b := 0; b < l.w; b++ {
						if v>>uint(b)&1 == 1 {
							k.SetBit(k, l.rem+pos+b*step, 1)
						}
					}
					emit(k, fmt.Sprintf("pos%d:v%d:bg%d", pos, v, bg))
				}
			}
		}
		for v := 0; v < 1<<uint(l.rem); v++ {
			emit(big.NewInt(int64(v)), fmt.Sprintf("rem:v%d", v))
			hi := new(big.Int).SetBytes(vx.Fill("schrem", 32))
			hi.Rsh(hi, uint(l.rem)).Lsh(hi, uint(l.rem)).Or(hi, big.NewInt(int64(v)))
			emit(hi, fmt.Sprintf("rem:v%d:bg1", v))
		}
		for name, k := range map[string]*big.Int{"0": big.NewInt(0), "1": one, "n-1": new(big.Int).Sub(sm2ref.N, one), "n": sm2ref.N,
			"n+1": new(big.Int).Add(sm2ref.N, one), "max": new(big.Int).Sub(new(big.Int).Lsh(one, 256), one)} {
			emit(k, "bnd:"+name)
		}
	}
}

//go:build verif

package internal_test

import (
	"bytes"
	cryptorand "crypto/rand"
	"encoding/json"
	"fmt"
	"math/big"
	"strings"
	"testing"
	"time"

	"github.com/bilibili/smgo/sm2/internal"
	"verif/refs"
	"verif/refs/sm2ref"
	"verif/vx"
)

type c14case struct {
	Fn    string // base | mult | mixed
	G     string // base scalar (hex, 32 bytes) for base/mixed
	S     string // scalar for mult/mixed
	P     string // point encoding for mult/mixed
	Shape string
}

func c14eval(r *vx.R, c c14case) {
	r.Eval(1)
	var got *internal.SM2Point
	var err error
	var want sm2ref.Point
	g, s := vx.UnHex(c.G), vx.UnHex(c.S)
	var pt sm2ref.Point
	if c.P != "" {
		pb := vx.UnHex(c.P)
		if len(pb) == 1 {
			pt = sm2ref.Infinity()
		} else {
			pt = sm2ref.Point{X: new(big.Int).SetBytes(pb[1:33]), Y: new(big.Int).SetBytes(pb[33:])}
		}
	}
	kind, msg := vx.Try(func() {
		switch c.Fn {
		case "base":
			got, err = internal.ScalarBaseMult(g)
			want = sm2ref.BaseMul(new(big.Int).SetBytes(g))
		case "mult":
			got, err = internal.ScalarMult(implPoint(pt), s)
			want = sm2ref.Mul(new(big.Int).SetBytes(s), pt)
		case "mixed":
			got, err = internal.ScalarMixedMult_Unsafe(g, implPoint(pt), s)
			want = sm2ref.MulAdd(new(big.Int).SetBytes(g), new(big.Int).SetBytes(s), pt)
		}
	})
	key := "sm2mul:" + c.Fn
	if kind != "" {
		r.Violation(key+":panic", fmt.Sprintf("%s panicked (%s): %s", c.Fn, kind, msg), c)
		return
	}
	if (err != nil || got == nil) && strings.HasPrefix(c.Shape, "hostile-rand") {
		// refusing to work without usable entropy is a legitimate answer of an implementation that blinds; a wrong
		// multiple is not
		r.Add("observation_error_under_hostile_entropy", 1)
		return
	}
	if err != nil || got == nil {
		r.Violation(key+":error", fmt.Sprintf("%s returned error %v for a well-formed call", c.Fn, err), c)
		return
	}
	gr, bad := refPoint(got)
	if bad != "" {
		r.Violation(key+":encoding", bad, c)
		return
	}
	if !gr.Equal(want) {
		r.Violation(key+":wrong", fmt.Sprintf("%s(g=%s,s=%s,P=%.20s..) = %s, integer multiple is %s", c.Fn, c.G, c.S, c.P, showRef(gr), showRef(want)), c)
	}
	// the caller owns the result: computing in place on it (and overwriting it) must not reach package state or tables
	kind, msg = vx.Try(func() {
		got.Double(got)
		got.Add(got, implPoint(sm2ref.BaseMul(big.NewInt(7))))
		got.Negate(got)
	})
	if kind != "" {
		r.Violation(key+":result-not-usable", fmt.Sprintf("in-place arithmetic on the returned point panicked: %s", msg), c)
	}
	bad1 := c14canary()
	vx.Try(func() { got.SetBytes(encRef(sm2ref.BaseMul(big.NewInt(11)))) }) // (decoding resets Z to one in place: checked separately, it would heal a shared Z)
	if bad1 != "" {
		r.Violation("sm2mul:state-corrupted:after-"+c.Fn, fmt.Sprintf("after %s(g=%s,s=%s,P=%.20s..) and in-place arithmetic on its result, %s", c.Fn, c.G, c.S, c.P, bad1), c)
	}
	if bad := c14canary(); bad != "" {
		r.Violation("sm2mul:state-corrupted:after-"+c.Fn, fmt.Sprintf("after %s(g=%s,s=%s,P=%.20s..) and in-place arithmetic on its result, %s", c.Fn, c.G, c.S, c.P, bad), c)
	}
	r.Shape(c.Fn + ":" + c.Shape)
}

var c14canaryK = vx.Fill("c14canary", 32)
var c14canaryWant *sm2ref.Point
var c14canaryBroken bool

// c14canary recomputes fixed multiples and reports the first that is wrong (package tables or shared constants were
// damaged). Once broken it stays silent: one report per process is enough.
func c14canary() string {
	if c14canaryBroken {
		return ""
	}
	if c14canaryWant == nil {
		w := sm2ref.BaseMul(new(big.Int).SetBytes(c14canaryK))
		c14canaryWant = &w
	}
	bad := ""
	kind, msg := vx.Try(func() {
		p, err := internal.ScalarBaseMult(c14canaryK)
		if err != nil {
			bad = "the canary ScalarBaseMult failed: " + err.Error()
			return
		}
		if gr, b := refPoint(p); b != "" || !gr.Equal(*c14canaryWant) {
			bad = "ScalarBaseMult of a fixed scalar no longer gives [k]G"
			return
		}
		q, err := internal.ScalarMixedMult_Unsafe(bytes32(big.NewInt(3)), implPoint(sm2ref.G()), bytes32(big.NewInt(0)))
		if err != nil {
			bad = "the canary mixed multiplication failed: " + err.Error()
			return
		}
		if gr, b := refPoint(q); b != "" || !gr.Equal(sm2ref.BaseMul(big.NewInt(3))) {
			bad = "[3]G + [0]G is no longer 3G"
		}
	})
	if kind != "" {
		bad = "the canary computation panicked: " + msg
	}
	if bad != "" {
		c14canaryBroken = true
	}
	return bad
}

// c14prime: a call that fails (error or panic, recovered by the caller) must leave nothing behind: the valid calls after
// it give the right answers.
func c14prime(r *vx.R, badName string, bad func()) {
	pts := c14points()
	g, s := bytes32(new(big.Int).SetBytes(vx.Fill("primeg", 32))), bytes32(new(big.Int).SetBytes(vx.Fill("primes", 32)))
	for rep := 0; rep < 3; rep++ {
		r.Eval(1)
		vx.Try(bad)
		c := c14case{Fn: "after-failed-call", G: vx.Hex(g), S: vx.Hex(s), P: vx.Hex(encRef(pts["seeded0"])), Shape: badName}
		kind, msg := vx.Try(func() {
			m, err := internal.ScalarMixedMult_Unsafe(g, implPoint(pts["seeded0"]), s)
			if err != nil {
				panic(err)
			}
			if gr, b := refPoint(m); b != "" || !gr.Equal(sm2ref.MulAdd(new(big.Int).SetBytes(g), new(big.Int).SetBytes(s), pts["seeded0"])) {
				r.Violation("sm2mul:after-failed-call:mixed-wrong", fmt.Sprintf("ScalarMixedMult_Unsafe is wrong right after a failed call (%s)", badName), c)
			}
			q, err := internal.ScalarMult(implPoint(pts["seeded1"]), s)
			if err != nil {
				panic(err)
			}
			if gr, b := refPoint(q); b != "" || !gr.Equal(sm2ref.Mul(new(big.Int).SetBytes(s), pts["seeded1"])) {
				r.Violation("sm2mul:after-failed-call:mult-wrong", fmt.Sprintf("ScalarMult is wrong right after a failed call (%s)", badName), c)
			}
			b, err := internal.ScalarBaseMult(g)
			if err != nil {
				panic(err)
			}
			if gr, bb := refPoint(b); bb != "" || !gr.Equal(sm2ref.BaseMul(new(big.Int).SetBytes(g))) {
				r.Violation("sm2mul:after-failed-call:base-wrong", fmt.Sprintf("ScalarBaseMult is wrong right after a failed call (%s)", badName), c)
			}
		})
		if kind != "" {
			r.Violation("sm2mul:after-failed-call:panic", fmt.Sprintf("a well-formed call right after a failed one (%s) failed: %s", badName, msg), c)
		}
		r.Shape("after-failed-call:" + badName)
	}
}

// c14reuse: the same *SM2Point object is used for a call, then given a different value in place (SetBytes / Set / Add), then
// used again: the second result must be the multiple of the *new* value (no state may be keyed on the object's identity).
func c14reuse(r *vx.R, fn string, p1, p2 sm2ref.Point, g, s []byte, how string) {
	r.Eval(1)
	c := c14case{Fn: "reuse-" + fn, G: vx.Hex(g), S: vx.Hex(s), P: vx.Hex(encRef(p2)), Shape: how}
	var got *internal.SM2Point
	var err error
	kind, msg := vx.Try(func() {
		obj := implPoint(p1)
		call := func() (*internal.SM2Point, error) {
			if fn == "mixed" {
				return internal.ScalarMixedMult_Unsafe(g, obj, s)
			}
			return internal.ScalarMult(obj, s)
		}
		if _, e := call(); e != nil {
			err = e
			return
		}
		switch how {
		case "SetBytes":
			obj.SetBytes(encRef(p2))
		case "Set":
			obj.Set(implPoint(p2))
		case "Add": // p1 + (p2 - p1)
			obj.Add(obj, implPoint(sm2ref.Add(p2, sm2ref.Neg(p1))))
		}
		got, err = call()
	})
	if kind != "" || err != nil || got == nil {
		r.Violation("sm2mul:reuse-"+fn+":fail", fmt.Sprintf("%s %v %s", kind, err, msg), c)
		return
	}
	var want sm2ref.Point
	if fn == "mixed" {
		want = sm2ref.MulAdd(new(big.Int).SetBytes(g), new(big.Int).SetBytes(s), p2)
	} else {
		want = sm2ref.Mul(new(big.Int).SetBytes(s), p2)
	}
	gr, bad := refPoint(got)
	if bad != "" || !gr.Equal(want) {
		r.Violation("sm2mul:reuse-"+fn+":stale", fmt.Sprintf("%s on a point object that was given a new value in place (%s) after an earlier call returns the multiple of something else: got %s want %s", fn, how, showRef(gr), showRef(want)), c)
	}
	r.Shape("reuse:" + fn + ":" + how)
}

func bytes32(v *big.Int) []byte { return sm2ref.Bytes32(v) }

// repeatReader delivers the same 32 bytes over and over.
type repeatReader struct{ b []byte }

func (r repeatReader) Read(p []byte) (int, error) {
	for i := range p {
		p[i] = r.b[i%len(r.b)]
	}
	return len(p), nil
}

// combScalars enumerates, for the fixed-window layout (window w, step = subTables*iterations, remainder rem),
// every window value at every window position with the other bits zero (bg=0) or seeded (bg=1).
func combScalars(w, sub, iter, rem int, bgs []int, emit func(k []byte, shape string)) {
	step := sub * iter
	for pos := 0; pos < step; pos++ {
		for _, bg := range bgs {
			base := new(big.Int)
			if bg == 1 {
				base.SetBytes(vx.Fill(fmt.Sprintf("comb%d-%d", w, pos), 32))
			}
			for b := 0; b < w; b++ {
				base.SetBit(base, rem+pos+b*step, 0)
			}
			for v := 0; v < 1<<uint(w); v++ {
				k := new(big.Int).Set(base)
				for b := 0; b < w; b++ {
					if v>>uint(b)&1 == 1 {
						k.SetBit(k, rem+pos+b*step, 1)
					}
				}
				emit(bytes32(k), fmt.Sprintf("comb%d-%d-%d:pos%d:v%d:bg%d", w, sub, iter, pos, v, bg))
			}
		}
	}
	for v := 0; v < 1<<uint(rem); v++ {
		for _, bg := range bgs {
			base := new(big.Int)
			if bg == 1 {
				base.SetBytes(vx.Fill(fmt.Sprintf("rem%d", w), 32))
			}
			base.Rsh(base, uint(rem)).Lsh(base, uint(rem))
			base.Or(base, big.NewInt(int64(v)))
			emit(bytes32(base), fmt.Sprintf("comb%d-%d-%d:rem:v%d:bg%d", w, sub, iter, v, bg))
		}
	}
}

func boundaryScalars() map[string]*big.Int {
	n := sm2ref.N
	one := big.NewInt(1)
	m := map[string]*big.Int{
		"0": big.NewInt(0), "1": big.NewInt(1), "2": big.NewInt(2), "3": big.NewInt(3),
		"n-2": new(big.Int).Sub(n, big.NewInt(2)), "n-1": new(big.Int).Sub(n, one), "n": n, "n+1": new(big.Int).Add(n, one),
		"2^256-1": new(big.Int).Sub(new(big.Int).Lsh(one, 256), one), "2^256-n": new(big.Int).Sub(new(big.Int).Lsh(one, 256), n),
		"(n-1)/2": new(big.Int).Rsh(n, 1), "(n+1)/2": new(big.Int).Add(new(big.Int).Rsh(n, 1), one),
	}
	for i := 0; i < 256; i++ {
		m[fmt.Sprintf("2^%d", i)] = new(big.Int).Lsh(one, uint(i))
		if i > 1 {
			m[fmt.Sprintf("2^%d-1", i)] = new(big.Int).Sub(new(big.Int).Lsh(one, uint(i)), one)
		}
	}
	return m
}

func c14points() map[string]sm2ref.Point {
	g := sm2ref.G()
	two := sm2ref.Add(g, g)
	pts := map[string]sm2ref.Point{
		"G": g, "-G": sm2ref.Neg(g), "2G": two, "3G": sm2ref.Add(two, g), "-2G": sm2ref.Neg(two), "O": sm2ref.Infinity(),
	}
	for i := 0; i < 3; i++ {
		k := new(big.Int).SetBytes(vx.Fill(fmt.Sprintf("c14pt%d", i), 32))
		pts[fmt.Sprintf("seeded%d", i)] = sm2ref.BaseMul(k.Mod(k, sm2ref.N))
	}
	return pts
}

func TestVX_C14(t *testing.T) {
	r := vx.Begin("C14", "mul-public", "ScalarBaseMult: every window value at every window position of the fixed-window layouts (6-3-14-4 always; 4-2-32, 5-3-17, 7-3-12 layouts too in thorough) on zero and seeded backgrounds, all remainder values, 0,1,2,n-1,n,n+1,2^256-1,2^i,2^i-1. ScalarMult: P in {G,-G,2G,-2G,3G,O,seeded x3}, scalar lengths 0,1,2,31,32,33, every nibble value at every nibble position, boundary values. ScalarMixedMult_Unsafe: s=d*2^i and 2^(i+5)-d*2^i for odd d at every i (every signed digit at every position), g from the base alphabet, P chosen so that [g]G and [s]P collide/cancel. After every call the returned point is computed on in place and overwritten, then fixed canary multiples are recomputed (results must not share storage with tables or package constants); the same multiplications with crypto/rand.Reader replaced by sources that deliver all ones / all zero / the bytes of p / of n; failing calls (scalars of length 0,1,16,31,33,40, nil point, nil scalars) each followed by well-formed calls. Oracle sm2ref (math/big Jacobian, validated against affine arithmetic). Shape=(function, layout, position, value, background | point, length, nibble | digit, position, point)")
	defer r.End()
	defer implSeamReport(r)
	i0, _ := vx.Shard()
	if err := refs.SelfCheck(i0 == 0 && !vx.Replaying()); err != nil {
		panic("reference self-check failed (harness broken): " + err.Error())
	}
	if raw, ok := vx.Replay("mul-public"); ok {
		var c c14case
		json.Unmarshal(raw, &c)
		if len(c.Fn) > 6 && c.Fn[:6] == "reuse-" {
			pts := c14points()
			c14reuse(r, c.Fn[6:], pts["seeded0"], pts["seeded1"], vx.UnHex(c.G), vx.UnHex(c.S), c.Shape)
			return
		}
		c14eval(r, c)
		return
	}
	th := vx.Thorough()
	run := func(c c14case) {
		if !vx.Mine(c.Fn + c.Shape) {
			return
		}
		if r.Expired() {
			return
		}
		c14eval(r, c)
		r.Sample(c)
	}
	// ---- base multiplication
	bgs := []int{0}
	if th {
		bgs = []int{0, 1}
	}
	combScalars(6, 3, 14, 4, []int{0, 1}, func(k []byte, shape string) { run(c14case{Fn: "base", G: vx.Hex(k), Shape: shape}) })
	if th {
		combScalars(4, 2, 32, 0, bgs, func(k []byte, shape string) { run(c14case{Fn: "base", G: vx.Hex(k), Shape: shape}) })
		combScalars(5, 3, 17, 1, bgs, func(k []byte, shape string) { run(c14case{Fn: "base", G: vx.Hex(k), Shape: shape}) })
		combScalars(7, 3, 12, 4, bgs, func(k []byte, shape string) { run(c14case{Fn: "base", G: vx.Hex(k), Shape: shape}) })
	}
	bnd := boundaryScalars()
	for name, k := range bnd {
		run(c14case{Fn: "base", G: vx.Hex(bytes32(k)), Shape: "bnd:" + name})
	}
	// scalars just around n (k = n + j is [j]G: the last table addition meets an accumulator that is congruent to a small
	// multiple of G), and k = n + 2t for every single window value t of the layouts (then accumulator == addend mod n
	// when t is added last): the internal coincidences of a comb that only exist above n
	W := 320
	if th {
		W = 4096
	}
	for j := -W; j <= W; j++ {
		run(c14case{Fn: "base", G: vx.Hex(bytes32(new(big.Int).Add(sm2ref.N, big.NewInt(int64(j))))), Shape: fmt.Sprintf("n%+d", j)})
	}
	lim := new(big.Int).Lsh(big.NewInt(1), 256)
	for _, lay := range [][4]int{{6, 3, 14, 4}, {4, 2, 32, 0}, {5, 3, 17, 1}, {7, 3, 12, 4}} {
		if !th && lay[0] != 6 {
			continue
		}
		combScalars(lay[0], lay[1], lay[2], lay[3], []int{0}, func(t []byte, shape string) {
			k := new(big.Int).Add(sm2ref.N, new(big.Int).Lsh(new(big.Int).SetBytes(t), 1))
			if k.Cmp(lim) < 0 {
				run(c14case{Fn: "base", G: vx.Hex(bytes32(k)), Shape: "n+2t:" + shape})
			}
		})
	}
	// ---- variable-point multiplication
	pts := c14points()
	for pn, p := range pts {
		enc := vx.Hex(encRef(p))
		for _, l := range []int{0, 1, 2, 31, 32, 33} {
			if l == 0 {
				run(c14case{Fn: "mult", S: "", P: enc, Shape: pn + ":len0"})
				continue
			}
			full := th || l <= 2 || pn == "G" || pn == "seeded0" || pn == "-G"
			for pos := 0; pos < 2*l; pos++ {
				if !full && pos%7 != 0 {
					continue
				}
				for _, bg := range []int{0, 1} {
					if bg == 1 && !th && pn != "seeded0" {
						continue
					}
					for v := 0; v < 16; v++ {
						s := make([]byte, l)
						if bg == 1 {
							copy(s, vx.Fill(fmt.Sprintf("mult%s%d", pn, pos), l))
						}
						sh := uint(4 * (1 - pos%2))
						s[pos/2] = s[pos/2]&^(0xf<<sh) | byte(v)<<sh
						run(c14case{Fn: "mult", S: vx.Hex(s), P: enc, Shape: fmt.Sprintf("%s:len%d:nib%d:v%d:bg%d", pn, l, pos, v, bg)})
					}
				}
			}
		}
		for name, k := range bnd {
			if !th && len(name) > 3 && name[:2] == "2^" && name != "2^255" && name != "2^256-1" {
				continue
			}
			run(c14case{Fn: "mult", S: vx.Hex(bytes32(k)), P: enc, Shape: pn + ":bnd:" + name})
		}
		// 33-byte scalars above 2^256
		run(c14case{Fn: "mult", S: "01" + vx.Hex(bytes32(sm2ref.N)), P: enc, Shape: pn + ":2^256+n"})
		run(c14case{Fn: "mult", S: "ff" + vx.Hex(bytes.Repeat([]byte{0xff}, 32)), P: enc, Shape: pn + ":2^264-1"})
	}
	// ---- double-scalar multiplication
	gAlpha := map[string]*big.Int{"0": big.NewInt(0), "1": big.NewInt(1), "n-1": bnd["n-1"], "2^256-1": bnd["2^256-1"], "15": big.NewInt(15),
		"seeded": new(big.Int).SetBytes(vx.Fill("mixedg", 32))}
	one := big.NewInt(1)
	for pn, p := range pts {
		if pn == "O" || pn == "3G" || pn == "-2G" || (!th && (pn == "seeded1" || pn == "seeded2")) {
			continue
		}
		enc := vx.Hex(encRef(p))
		for gn, g := range gAlpha {
			if !th && gn != "1" && gn != "seeded" && gn != "0" {
				continue
			}
			for i := 0; i <= 252; i++ {
				if !th && gn != "seeded" && i%5 != 0 {
					continue
				}
				for d := 1; d <= 15; d += 2 {
					if !th && d != 1 && d != 7 && d != 15 {
						continue
					}
					pos := new(big.Int).Lsh(big.NewInt(int64(d)), uint(i))
					neg := new(big.Int).Lsh(one, uint(i+5))
					neg.Sub(neg, pos)
					for sgn, s := range []*big.Int{pos, neg} {
						if s.BitLen() > 256 {
							continue
						}
						run(c14case{Fn: "mixed", G: vx.Hex(bytes32(g)), S: vx.Hex(bytes32(s)), P: enc, Shape: fmt.Sprintf("%s:g%s:i%d:d%d:s%d", pn, gn, i, d, sgn)})
					}
				}
			}
			for name, k := range bnd {
				if len(name) > 3 && name[:2] == "2^" && name != "2^255" && name != "2^256-1" && name != "2^256-n" {
					continue
				}
				run(c14case{Fn: "mixed", G: vx.Hex(bytes32(g)), S: vx.Hex(bytes32(k)), P: enc, Shape: fmt.Sprintf("%s:g%s:bnd:%s", pn, gn, name)})
			}
		}
		// base alphabet on g with a fixed s: every comb window value at every position also on the verification path
		if pn == "G" || pn == "seeded0" {
			combScalars(6, 3, 14, 4, []int{0}, func(k []byte, shape string) {
				run(c14case{Fn: "mixed", G: vx.Hex(k), S: vx.Hex(bytes32(big.NewInt(5))), P: enc, Shape: pn + ":" + shape})
			})
		}
	}
	// ---- periodic scalars: a non-zero digit at every p-th bit position over the whole width (the densest signed-digit
	// recodings; fixed-size digit lists are sized for them), and all-ones runs, through every multiplication
	{
		lim := new(big.Int).Lsh(big.NewInt(1), 256)
		var per []*big.Int
		var pn []string
		for p := 1; p <= 9; p++ {
			for off := 0; off < p && off < 3; off++ {
				for _, dig := range []int64{1, 3, 15} {
					v := new(big.Int)
					for i := off; i < 256; i += p {
						v.Add(v, new(big.Int).Lsh(big.NewInt(dig), uint(i)))
					}
					v.Mod(v, lim)
					per = append(per, v)
					pn = append(pn, fmt.Sprintf("period%d+%d:d%d", p, off, dig))
				}
			}
		}
		for i, v := range per {
			for _, ptn := range []string{"G", "seeded0"} {
				enc := vx.Hex(encRef(pts[ptn]))
				run(c14case{Fn: "mixed", G: vx.Hex(bytes32(big.NewInt(1))), S: vx.Hex(bytes32(v)), P: enc, Shape: ptn + ":s:" + pn[i]})
				run(c14case{Fn: "mixed", G: vx.Hex(bytes32(v)), S: vx.Hex(bytes32(big.NewInt(5))), P: enc, Shape: ptn + ":g:" + pn[i]})
				run(c14case{Fn: "mult", S: vx.Hex(bytes32(v)), P: enc, Shape: ptn + ":" + pn[i]})
			}
			run(c14case{Fn: "base", G: vx.Hex(bytes32(v)), Shape: pn[i]})
		}
	}
	// ---- scalars wider than 32 bytes for the variable-point multiplication: the last 32 bytes (and, for 64-byte scalars,
	// the first 32) run over chunks built from the 64-bit words of n: every word one of {0, n's word - 1, n's word,
	// n's word + 1, all ones} (625 chunks: below n, equal to n, above n, with borrows arriving at equal words); prefixes
	// 00, 01, ff and a second such chunk
	{
		nb := bytes32(sm2ref.N)
		var words [4]uint64
		for i := 0; i < 4; i++ {
			for k := 0; k < 8; k++ {
				words[i] = words[i]<<8 | uint64(nb[8*i+k])
			}
		}
		var chunks [][]byte
		for a := 0; a < 625; a++ {
			c := make([]byte, 32)
			x := a
			for i := 0; i < 4; i++ {
				var w uint64
				switch x % 5 {
				case 0:
					w = 0
				case 1:
					w = words[i] - 1
				case 2:
					w = words[i]
				case 3:
					w = words[i] + 1
				case 4:
					w = ^uint64(0)
				}
				x /= 5
				for k := 0; k < 8; k++ {
					c[8*i+k] = byte(w >> uint(56-8*k))
				}
			}
			chunks = append(chunks, c)
		}
		for ci, c := range chunks {
			if !th && ci%4 != 0 && ci != 312 {
				continue
			}
			for _, ptn := range []string{"G", "seeded0"} {
				if !th && ptn == "G" && ci%8 != 0 {
					continue
				}
				enc := vx.Hex(encRef(pts[ptn]))
				for _, pre := range []string{"00", "01", "ff"} {
					run(c14case{Fn: "mult", S: pre + vx.Hex(c), P: enc, Shape: fmt.Sprintf("%s:wide33:%s:chunk%d", ptn, pre, ci)})
				}
				run(c14case{Fn: "mult", S: vx.Hex(chunks[(ci*7+3)%625]) + vx.Hex(c), P: enc, Shape: fmt.Sprintf("%s:wide64:chunk%d", ptn, ci)})
				run(c14case{Fn: "mult", S: "0001" + vx.Hex(c) + vx.Hex(chunks[(ci*11+5)%625]), P: enc, Shape: fmt.Sprintf("%s:wide66:chunk%d", ptn, ci)})
			}
		}
	}
	// object reuse sequences
	if vx.MineIdx(3) {
		pa, pb := pts["seeded0"], pts["seeded1"]
		g := bytes32(gAlpha["seeded"])
		for _, how := range []string{"SetBytes", "Set", "Add"} {
			for _, sv := range []*big.Int{big.NewInt(5), bnd["n-1"], gAlpha["seeded"]} {
				c14reuse(r, "mixed", pa, pb, g, bytes32(sv), how)
				c14reuse(r, "mult", pa, pb, g, bytes32(sv), how)
				c14reuse(r, "mixed", pts["G"], pts["2G"], g, bytes32(sv), how)
			}
		}
	}
	// a hostile process-wide entropy source: nothing here takes a randomness argument, so the results must not depend on
	// what crypto/rand.Reader delivers (all ones: every 32-byte draw is >= p and >= n; all zero; the bytes of p; of n)
	if vx.MineIdx(6) {
		old := cryptorand.Reader
		for hn, fillb := range map[string][]byte{"ones": bytes.Repeat([]byte{0xff}, 32), "zero": make([]byte, 32), "p": bytes32(sm2ref.P), "n": bytes32(sm2ref.N)} {
			cryptorand.Reader = repeatReader{fillb}
			P5 := vx.Hex(encRef(sm2ref.BaseMul(big.NewInt(5))))
			hung := false
			for i, sc := range []*big.Int{big.NewInt(1), big.NewInt(0x1234567), bnd["n-1"], new(big.Int).SetBytes(vx.Fill("hostile", 32))} {
				for _, cs := range []c14case{
					{Fn: "mult", S: vx.Hex(bytes32(sc)), P: P5, Shape: fmt.Sprintf("hostile-rand:%s:%d", hn, i)},
					{Fn: "mixed", G: vx.Hex(bytes32(sc)), S: vx.Hex(bytes32(big.NewInt(77))), P: P5, Shape: fmt.Sprintf("hostile-rand:%s:%d", hn, i)},
					{Fn: "base", G: vx.Hex(bytes32(sc)), Shape: fmt.Sprintf("hostile-rand:%s:%d", hn, i)},
				} {
					if hung {
						continue
					}
					cs := cs
					if kind, _ := vx.TryTimeout(func() { c14eval(r, cs) }, 60*time.Second); kind == "hang" {
						// waiting for better entropy forever is not a wrong multiple either
						r.Add("observation_hang_under_hostile_entropy", 1)
						hung = true
					}
				}
			}
		}
		cryptorand.Reader = old
	}
	// calls that fail, each followed by well-formed calls
	if vx.MineIdx(5) {
		P0 := c14points()["seeded0"]
		full := bytes32(new(big.Int).SetBytes(vx.Fill("badfull", 32)))
		for _, l := range []int{0, 1, 16, 31, 33, 40} {
			short := vx.Fill("badshort", l)
			c14prime(r, fmt.Sprintf("mixed:g-len%d", l), func() { internal.ScalarMixedMult_Unsafe(short, implPoint(P0), full) })
			c14prime(r, fmt.Sprintf("mixed:s-len%d", l), func() { internal.ScalarMixedMult_Unsafe(full, implPoint(P0), short) })
			c14prime(r, fmt.Sprintf("base:len%d", l), func() { internal.ScalarBaseMult(short) })
		}
		c14prime(r, "mixed:nil-point", func() { internal.ScalarMixedMult_Unsafe(full, nil, full) })
		c14prime(r, "mult:nil-point", func() { internal.ScalarMult(nil, full) })
		c14prime(r, "mixed:nil-scalars", func() { internal.ScalarMixedMult_Unsafe(nil, implPoint(P0), nil) })
	}
	// nothing accumulated from one of the two sides: g or s zero / tiny
	for gv := int64(0); gv <= 17; gv++ {
		for _, sv := range []int64{0, 1, 2, 15, 16} {
			run(c14case{Fn: "mixed", G: vx.Hex(bytes32(big.NewInt(gv))), S: vx.Hex(bytes32(big.NewInt(sv))), P: vx.Hex(encRef(sm2ref.BaseMul(big.NewInt(5)))), Shape: fmt.Sprintf("tiny:g%d:s%d", gv, sv)})
		}
	}
	// cancellation inside the loop: [g]G + [s]P = O for P = G, s = n - g
	for _, gv := range []int64{1, 2, 3, 16, 17, 1 << 20} {
		g := big.NewInt(gv)
		s := new(big.Int).Sub(sm2ref.N, g)
		run(c14case{Fn: "mixed", G: vx.Hex(bytes32(g)), S: vx.Hex(bytes32(s)), P: vx.Hex(encRef(sm2ref.G())), Shape: fmt.Sprintf("cancel:%d", gv)})
		run(c14case{Fn: "mixed", G: vx.Hex(bytes32(g)), S: vx.Hex(bytes32(g)), P: vx.Hex(encRef(sm2ref.Neg(sm2ref.G()))), Shape: fmt.Sprintf("cancel-neg:%d", gv)})
		run(c14case{Fn: "mixed", G: vx.Hex(bytes32(g)), S: vx.Hex(bytes32(g)), P: vx.Hex(encRef(sm2ref.G())), Shape: fmt.Sprintf("collide:%d", gv)})
	}
}

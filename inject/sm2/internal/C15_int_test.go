//go:build verif

package internal

import (
	"bytes"
	"encoding/json"
	"fmt"
	"math/big"
	"testing"

	"verif/refs/sm2ref"
	"verif/vx"
)

type c15case struct {
	Op    string // add | double | negate | select | set
	A, B  string // names of points in the alphabet
	LA    string // lambda for A (hex)
	LB    string
	Alias int // 0 fresh receiver, 1 q==p1, 2 q==p2, 3 p1==p2 (same pointer; only when A==B and LA==LB), 4 all the same pointer
	Cond  int
	// Recv: the earlier life of a non-aliased receiver: 0 fresh; 1 decoded from an encoding (and already converted back
	// once); 2 the generator; 3 the result of an addition; 4 the point at infinity obtained by P + (-P)
	Recv int
}

func c15pts() (names []string, pts map[string]sm2ref.Point) {
	g := sm2ref.G()
	two := sm2ref.Add(g, g)
	three := sm2ref.Add(two, g)
	pts = map[string]sm2ref.Point{"O": sm2ref.Infinity(), "G": g, "-G": sm2ref.Neg(g), "2G": two, "-2G": sm2ref.Neg(two), "3G": three, "-3G": sm2ref.Neg(three)}
	names = []string{"O", "G", "-G", "2G", "-2G", "3G", "-3G"}
	for i := 0; i < 3; i++ {
		k := new(big.Int).SetBytes(vx.Fill(fmt.Sprintf("c15pt%d", i), 32))
		n := fmt.Sprintf("S%d", i)
		pts[n] = sm2ref.BaseMul(k.Mod(k, sm2ref.N))
		names = append(names, n)
		if i == 0 {
			pts["-S0"] = sm2ref.Neg(pts[n])
			names = append(names, "-S0")
		}
	}
	return
}

func c15lambdas() []string {
	pm1 := new(big.Int).Sub(sm2ref.P, big.NewInt(1))
	s := new(big.Int).SetBytes(vx.Fill("c15lambda", 32))
	s.Mod(s, pm1).Add(s, big.NewInt(1))
	return []string{"01", "02", vx.Hex(pm1.Bytes()), vx.Hex(s.Bytes())}
}

// c15structLambdas: scale factors whose value - or whose Montgomery form (lambda * 2^256 mod p) - has a structured limb
// pattern: single bits across all limb halves, the high or the low half of every limb, one limb only. With Z = lambda the
// representative's Z coordinate carries the pattern, so a zero test, an equality or a conversion that looks at folded or
// truncated limbs misjudges exactly these representatives.
func c15structLambdas() []string {
	var pats []*big.Int
	for _, k := range []uint{0, 31, 32, 33, 63, 64, 95, 96, 127, 128, 160, 191, 192, 224, 254, 255} {
		pats = append(pats, new(big.Int).Lsh(big.NewInt(1), k))
	}
	hi, lo := new(big.Int), new(big.Int)
	for limb := uint(0); limb < 4; limb++ {
		hi.Or(hi, new(big.Int).Lsh(new(big.Int).SetUint64(0xabcdef1200000000), 64*limb))
		lo.Or(lo, new(big.Int).Lsh(new(big.Int).SetUint64(0x0000000089abcdef), 64*limb))
		pats = append(pats, new(big.Int).Lsh(new(big.Int).SetUint64(0xffffffffffffffff), 64*limb))
	}
	pats = append(pats, hi, lo, new(big.Int).Lsh(new(big.Int).SetUint64(0xffffffff00000000), 192))
	R := new(big.Int).Lsh(big.NewInt(1), 256)
	Rinv := new(big.Int).ModInverse(R, sm2ref.P)
	seen := map[string]bool{}
	var out []string
	add := func(v *big.Int) {
		v = new(big.Int).Mod(v, sm2ref.P)
		if v.Sign() == 0 {
			return
		}
		h := vx.Hex(v.Bytes())
		if !seen[h] {
			seen[h] = true
			out = append(out, h)
		}
	}
	for _, m := range pats {
		add(m)                         // the value itself is the pattern
		add(new(big.Int).Mul(m, Rinv)) // the Montgomery form is the pattern
	}
	return out
}

// c15convert: Bytes / Bytes_Unsafe / GetAffineX / GetAffineX_Unsafe of one representative against the affine value;
// every returned object is then overwritten by the caller and the conversion repeated (results are the caller's: nothing
// the library keeps may be reachable through them).
func c15convert(r *vx.R, cs c15case, pts map[string]sm2ref.Point) {
	a, la := cs.A, cs.LA
	p := vxRep(pts[a], new(big.Int).SetBytes(vx.UnHex(la)))
	var want []byte
	if pts[a].Inf {
		want = []byte{0}
	} else {
		want = append(append([]byte{4}, sm2ref.Bytes32(pts[a].X)...), sm2ref.Bytes32(pts[a].Y)...)
	}
	wx := new(big.Int)
	if !pts[a].Inf {
		wx = pts[a].X
	}
	rawBefore := [3][4]uint64{*p.x.GetRaw(), *p.y.GetRaw(), *p.z.GetRaw()}
	defer func() {
		if rawAfter := [3][4]uint64{*p.x.GetRaw(), *p.y.GetRaw(), *p.z.GetRaw()}; rawAfter != rawBefore {
			r.Violation("pt:conversion-writes-receiver", fmt.Sprintf("Bytes / Bytes_Unsafe / GetAffineX / GetAffineX_Unsafe / IsInfinity changed the stored coordinates of %s (lambda %s): a query must leave the point as it is (it may be shared by readers)", a, la), cs)
		}
	}()
	for round := 0; round < 2; round++ {
		bs, bu := p.Bytes(), p.Bytes_Unsafe()
		if !bytes.Equal(bs, want) {
			r.Violation(fmt.Sprintf("pt:Bytes:round%d", round), fmt.Sprintf("Bytes of %s (lambda %s) = %x", a, la, bs), cs)
		}
		if !bytes.Equal(bu, want) {
			r.Violation(fmt.Sprintf("pt:Bytes_Unsafe:round%d", round), fmt.Sprintf("Bytes_Unsafe of %s (lambda %s) = %x", a, la, bu), cs)
		}
		x1, x2 := p.GetAffineX(), p.GetAffineX_Unsafe()
		if x1.Cmp(wx) != 0 {
			r.Violation(fmt.Sprintf("pt:GetAffineX:round%d", round), fmt.Sprintf("GetAffineX of %s (lambda %s) = %x", a, la, x1), cs)
		}
		if x2.Cmp(wx) != 0 {
			r.Violation(fmt.Sprintf("pt:GetAffineX_Unsafe:round%d", round), fmt.Sprintf("GetAffineX_Unsafe of %s (lambda %s) = %x", a, la, x2), cs)
		}
		if (p.IsInfinity() == 1) != pts[a].Inf {
			r.Violation("pt:IsInfinity", fmt.Sprintf("IsInfinity of %s (lambda %s) = %d", a, la, p.IsInfinity()), cs)
		}
		if round == 0 {
			back, err := NewSM2Generator().SetBytes(bs)
			if err != nil || !vxToRef(back).Equal(pts[a]) {
				r.Violation("pt:roundtrip", "SetBytes(Bytes(P)) != P", cs)
			}
		}
		// the caller computes on what it got (as VerifyHashed does with the affine x): round 1 repeats the conversions
		for i := range bs {
			bs[i] ^= 0x5a
		}
		for i := range bu {
			bu[i] ^= 0xa5
		}
		x1.Add(x1, big.NewInt(0x1234567)).Lsh(x1, 3)
		x2.SetInt64(-77)
	}
	r.Shape("convert:" + a + ":" + la[:2])
}

func c15eval(r *vx.R, c c15case, pts map[string]sm2ref.Point) {
	r.Eval(1)
	if c.Op == "convert" {
		c15convert(r, c, pts)
		return
	}
	la, lb := new(big.Int).SetBytes(vx.UnHex(c.LA)), new(big.Int).SetBytes(vx.UnHex(c.LB))
	ra, rb := pts[c.A], pts[c.B]
	p1 := vxRep(ra, la)
	p2 := vxRep(rb, lb)
	q := NewSM2Point()
	switch c.Recv {
	case 1:
		enc5 := append(append([]byte{4}, sm2ref.Bytes32(sm2ref.BaseMul(big.NewInt(5)).X)...), sm2ref.Bytes32(sm2ref.BaseMul(big.NewInt(5)).Y)...)
		q.SetBytes(enc5)
		q.Bytes()
		q.GetAffineX()
	case 2:
		q = NewSM2Generator()
		q.Bytes_Unsafe()
	case 3:
		q.Add(NewSM2Generator(), vxRep(sm2ref.BaseMul(big.NewInt(9)), big.NewInt(3)))
		q.Bytes()
	case 4:
		q.Add(NewSM2Generator(), NewSM2Point().Negate(NewSM2Generator()))
		q.GetAffineX_Unsafe()
	}
	var want sm2ref.Point
	keep1x, keep1y, keep1z := vxCoords(p1)
	keep2x, keep2y, keep2z := vxCoords(p2)
	var ret *SM2Point
	kind, msg := vx.Try(func() {
		switch c.Op {
		case "add":
			want = sm2ref.Add(ra, rb)
			switch c.Alias {
			case 0:
				ret = q.Add(p1, p2)
			case 1:
				q = p1
				ret = q.Add(p1, p2)
			case 2:
				q = p2
				ret = q.Add(p1, p2)
			case 3:
				ret = q.Add(p1, p1)
				want = sm2ref.Add(ra, ra)
			case 4:
				q = p1
				ret = q.Add(p1, p1)
				want = sm2ref.Add(ra, ra)
			case 5:
				// the receiver is a shallow copy of the first operand (acc := *p): another SM2Point value, the same
				// coordinate storage - overlap that pointer comparison does not see
				cp := *p1
				q = &cp
				ret = q.Add(p1, p2)
			case 6:
				cp := *p2
				q = &cp
				ret = q.Add(p1, p2)
			}
		case "double":
			want = sm2ref.Add(ra, ra)
			if c.Alias == 1 {
				q = p1
			}
			ret = q.Double(p1)
		case "negate":
			want = sm2ref.Neg(ra)
			if c.Alias == 1 {
				q = p1
			}
			ret = q.Negate(p1)
		case "select":
			if c.Cond == 1 {
				want = ra
			} else {
				want = rb
			}
			switch c.Alias {
			case 1:
				q = p1
			case 2:
				q = p2
			}
			ret = q.Select(p1, p2, c.Cond)
		case "set":
			want = ra
			ret = q.Set(p1)
		}
	})
	key := "pt:" + c.Op
	if kind != "" {
		r.Violation(key+":panic", fmt.Sprintf("%s panicked: %s", c.Op, msg), c)
		return
	}
	if ret != q {
		r.Violation(key+":return", "method did not return its receiver", c)
	}
	if !vxOnCurveProj(q) {
		x, y, z := vxCoords(q)
		r.Violation(key+":offcurve", fmt.Sprintf("%s(%s,%s) result (%x:%x:%x) does not satisfy the curve equation", c.Op, c.A, c.B, x, y, z), c)
	} else if got := vxToRef(q); !got.Equal(want) {
		r.Violation(fmt.Sprintf("%s:wrong:alias%d", key, c.Alias), fmt.Sprintf("%s(%s,%s) alias=%d: wrong group element", c.Op, c.A, c.B, c.Alias), c)
	}
	// every conversion of the result agrees with the group element, whatever the receiver held (and had converted) before
	{
		var wenc []byte
		wx := new(big.Int)
		if want.Inf {
			wenc = []byte{0}
		} else {
			wenc = append(append([]byte{4}, sm2ref.Bytes32(want.X)...), sm2ref.Bytes32(want.Y)...)
			wx = want.X
		}
		if b1, b2 := q.Bytes(), q.Bytes_Unsafe(); !bytes.Equal(b1, wenc) || !bytes.Equal(b2, wenc) || q.GetAffineX().Cmp(wx) != 0 || q.GetAffineX_Unsafe().Cmp(wx) != 0 || (q.IsInfinity() == 1) != want.Inf {
			r.Violation(fmt.Sprintf("%s:conversion-of-result:recv%d", key, c.Recv), fmt.Sprintf("%s(%s,%s) into a receiver with earlier life %d: the coordinates are right but Bytes=%x Bytes_Unsafe=%x GetAffineX=%x, expected %x", c.Op, c.A, c.B, c.Recv, b1, b2, q.GetAffineX(), wenc), c)
		}
	}
	// operands that are not the receiver must be untouched
	if q != p1 && c.Alias != 5 {
		x, y, z := vxCoords(p1)
		if x.Cmp(keep1x) != 0 || y.Cmp(keep1y) != 0 || z.Cmp(keep1z) != 0 {
			r.Violation(key+":operand1-modified", "first operand was written", c)
		}
	}
	if q != p2 && c.Alias != 6 {
		x, y, z := vxCoords(p2)
		if x.Cmp(keep2x) != 0 || y.Cmp(keep2y) != 0 || z.Cmp(keep2z) != 0 {
			r.Violation(key+":operand2-modified", "second operand was written", c)
		}
	}
	// results must not share storage with their operands: mutate the result in place and look at the operands again
	if q != p1 && q != p2 && c.Alias < 5 {
		q.Double(q)
		x, y, z := vxCoords(p1)
		if x.Cmp(keep1x) != 0 || y.Cmp(keep1y) != 0 || z.Cmp(keep1z) != 0 {
			r.Violation(key+":result-aliases-operand1", fmt.Sprintf("after %s, changing the result in place (Double) changed the first operand: they share storage", c.Op), c)
		}
		x, y, z = vxCoords(p2)
		if x.Cmp(keep2x) != 0 || y.Cmp(keep2y) != 0 || z.Cmp(keep2z) != 0 {
			r.Violation(key+":result-aliases-operand2", fmt.Sprintf("after %s, changing the result in place (Double) changed the second operand: they share storage", c.Op), c)
		}
		if !vxToRef(q).Equal(sm2ref.Add(want, want)) {
			r.Violation(key+":followup-double-wrong", fmt.Sprintf("%s then Double in place gives a wrong point", c.Op), c)
		}
	}
	r.Shape(fmt.Sprintf("%s:%s:%s:%d:%d:%s:%s", c.Op, c.A, c.B, c.Alias, c.Cond, c.LA[:2], c.LB[:2]))
}

func TestVX_C15_Arith(t *testing.T) {
	r := vx.Begin("C15", "point-arith", "points A={O,+-G,+-2G,+-3G,S0,-S0,S1,S2} in projective representatives (lx:ly:l), l in {1,2,p-1,seeded} (O as (0:l:0)); Add over A x A x l^2 x aliasing {fresh, q=p1, q=p2, p1=p2, all same}; Double/Negate (fresh, aliased), Select(cond 0/1, aliased), Set; receivers with an earlier life (decoded and converted, generator, result of an addition, infinity) for every operation, with all conversions of the result checked; oracle = affine group law in sm2ref; every result must satisfy Y^2Z=X^3-3XZ^2+bZ^3; operands not written unless aliased; conversions Bytes/Bytes_Unsafe/GetAffineX/GetAffineX_Unsafe agree on every representative")
	defer r.End()
	defer vxSeamReport(r)
	names, pts := c15pts()
	if raw, ok := vx.Replay("point-arith"); ok {
		var c c15case
		json.Unmarshal(raw, &c)
		c15eval(r, c, pts)
		return
	}
	ls := c15lambdas()
	n := 0
	run := func(c c15case) {
		n++
		if !vx.MineIdx(n) {
			return
		}
		c15eval(r, c, pts)
		r.Sample(c)
	}
	// receivers with an earlier life, every operation
	for _, recv := range []int{1, 2, 3, 4} {
		for _, a := range []string{"O", "G", "-2G", "S1"} {
			for _, la := range []string{ls[1], ls[3]} {
				run(c15case{Op: "add", A: a, B: "3G", LA: la, LB: ls[1], Recv: recv})
				run(c15case{Op: "double", A: a, B: a, LA: la, LB: la, Recv: recv})
				run(c15case{Op: "negate", A: a, B: a, LA: la, LB: la, Recv: recv})
				run(c15case{Op: "set", A: a, B: a, LA: la, LB: la, Recv: recv})
				for cond := 0; cond <= 1; cond++ {
					run(c15case{Op: "select", A: a, B: "S2", LA: la, LB: ls[3], Cond: cond, Recv: recv})
				}
			}
		}
	}
	sls := c15structLambdas()
	for ai, a := range names {
		if !vx.Thorough() && ai%3 != 0 && a != "G" && a != "O" {
			continue
		}
		for _, la := range sls {
			run(c15case{Op: "double", A: a, B: a, LA: la, LB: la, Alias: 0})
			run(c15case{Op: "negate", A: a, B: a, LA: la, LB: la, Alias: 0})
			run(c15case{Op: "add", A: a, B: "G", LA: la, LB: ls[0], Alias: 0})
			run(c15case{Op: "add", A: "S1", B: a, LA: ls[1], LB: la, Alias: 0})
			run(c15case{Op: "convert", A: a, LA: la, B: a, LB: la})
		}
	}
	for _, a := range names {
		for _, b := range names {
			for _, la := range ls {
				for _, lb := range ls {
					for alias := 0; alias <= 2; alias++ {
						run(c15case{Op: "add", A: a, B: b, LA: la, LB: lb, Alias: alias})
					}
					if la == ls[0] || lb == ls[1] {
						run(c15case{Op: "add", A: a, B: b, LA: la, LB: lb, Alias: 5})
						run(c15case{Op: "add", A: a, B: b, LA: la, LB: lb, Alias: 6})
					}
				}
			}
		}
		for _, la := range ls {
			run(c15case{Op: "add", A: a, B: a, LA: la, LB: la, Alias: 3})
			run(c15case{Op: "add", A: a, B: a, LA: la, LB: la, Alias: 4})
			for alias := 0; alias <= 1; alias++ {
				run(c15case{Op: "double", A: a, B: a, LA: la, LB: la, Alias: alias})
				run(c15case{Op: "negate", A: a, B: a, LA: la, LB: la, Alias: alias})
			}
			run(c15case{Op: "set", A: a, B: a, LA: la, LB: la})
			for _, b := range []string{"O", "G", "S1"} {
				for cond := 0; cond <= 1; cond++ {
					for alias := 0; alias <= 2; alias++ {
						run(c15case{Op: "select", A: a, B: b, LA: la, LB: ls[1], Alias: alias, Cond: cond})
					}
				}
			}
			run(c15case{Op: "convert", A: a, LA: la, B: a, LB: la})
		}
	}
}

//go:build verif

package internal_test

import (
	"bytes"
	"encoding/json"
	"fmt"
	"math/big"
	"testing"

	"github.com/bilibili/smgo/sm2/internal"
	"verif/refs"
	"verif/refs/sm2ref"
	"verif/vx"
)

type c15dcase struct {
	B     string
	Shape string
}

// refDecode is the decoding rule of the statement: 1-byte 0x00 = infinity; 65 bytes 0x04||x||y with canonical on-curve coordinates.
func refDecode(b []byte) (sm2ref.Point, bool) {
	if len(b) == 1 && b[0] == 0 {
		return sm2ref.Infinity(), true
	}
	if len(b) == 65 && b[0] == 4 {
		x, y := new(big.Int).SetBytes(b[1:33]), new(big.Int).SetBytes(b[33:])
		if sm2ref.OnCurve(x, y) {
			return sm2ref.Point{X: x, Y: y}, true
		}
	}
	return sm2ref.Point{}, false
}

func c15decode(r *vx.R, c c15dcase) {
	r.Eval(1)
	b := vx.UnHex(c.B)
	keep := append([]byte{}, b...)
	recv := internal.NewSM2Generator()
	want, wok := refDecode(b)
	var got *internal.SM2Point
	var err error
	kind, msg := vx.Try(func() { got, err = recv.SetBytes(b) })
	if kind != "" {
		r.Violation("pt:decode:panic", fmt.Sprintf("SetBytes(%x) panicked: %s", b, msg), c)
		return
	}
	ok := err == nil && got != nil
	if ok != wok {
		r.Violation(fmt.Sprintf("pt:decode:accept=%v:len%d", ok, len(b)), fmt.Sprintf("SetBytes(%x): accepted=%v, strict decoding says %v", b, ok, wok), c)
	} else if ok {
		gr, bad := refPoint(got)
		if bad != "" || !gr.Equal(want) {
			r.Violation("pt:decode:value", fmt.Sprintf("SetBytes(%x) decoded to a different point", b), c)
		}
		if got != recv {
			r.Violation("pt:decode:return", "SetBytes did not return its receiver", c)
		}
	} else {
		// receiver unchanged on error
		gr, _ := refPoint(recv)
		if !gr.Equal(sm2ref.G()) {
			r.Violation("pt:decode:clobber", fmt.Sprintf("SetBytes(%x) failed but changed the receiver", b), c)
		}
	}
	if !bytes.Equal(keep, b) {
		r.Violation("pt:decode:input-modified", "SetBytes modified its input", c)
	}
	r.Shape("dec:" + c.Shape)
}

func TestVX_C15_Encoding(t *testing.T) {
	r := vx.Begin("C15", "point-encoding", "SM2Point.SetBytes on: every length 0..70 (zeros / seeded / prefix of a valid encoding), every first byte 0..255 at lengths 1, 33, 65 (with valid coordinates behind it), x or y in {p, p+1, 2^256-1, x+p where it fits}, every single-bit flip of valid 65-byte encodings (520 each), valid encodings of the point alphabet; oracle: strict decoding rule + curve equation in math/big; on error the receiver must be unchanged; plus public-API arithmetic on naturally arising representatives (results of Add/Double/ScalarMult) against the affine group law")
	defer r.End()
	defer implSeamReport(r)
	if err := refs.SelfCheck(false); err != nil {
		panic("reference self-check failed (harness broken): " + err.Error())
	}
	if raw, ok := vx.Replay("point-encoding"); ok {
		var c c15dcase
		json.Unmarshal(raw, &c)
		c15decode(r, c)
		return
	}
	n := 0
	run := func(b []byte, shape string) {
		n++
		if !vx.MineIdx(n) {
			return
		}
		c := c15dcase{vx.Hex(b), shape}
		c15decode(r, c)
		r.Sample(c)
	}
	pts := c14points()
	valid := [][]byte{}
	for _, name := range sortedPts(pts) {
		p := pts[name]
		e := encRef(p)
		run(e, "valid:"+name)
		if !p.Inf {
			valid = append(valid, e)
		}
	}
	g := encRef(sm2ref.G())
	for l := 0; l <= 70; l++ {
		run(make([]byte, l), fmt.Sprintf("len%d:zero", l))
		run(vx.Fill("declen", l), fmt.Sprintf("len%d:seeded", l))
		if l <= 65 {
			run(g[:l], fmt.Sprintf("len%d:prefix", l))
		} else {
			run(append(append([]byte{}, g...), make([]byte, l-65)...), fmt.Sprintf("len%d:extended", l))
		}
	}
	for fb := 0; fb < 256; fb++ {
		run([]byte{byte(fb)}, fmt.Sprintf("first%d:len1", fb))
		b33 := append([]byte{byte(fb)}, g[1:33]...)
		run(b33, fmt.Sprintf("first%d:len33", fb))
		b65 := append([]byte{byte(fb)}, g[1:]...)
		run(b65, fmt.Sprintf("first%d:len65", fb))
	}
	one := big.NewInt(1)
	max := new(big.Int).Sub(new(big.Int).Lsh(one, 256), one)
	for _, v := range valid[:3] {
		for ci, off := range []int{1, 33} {
			vals := map[string]*big.Int{"p": sm2ref.P, "p+1": new(big.Int).Add(sm2ref.P, one), "max": max}
			for _, vn := range []string{"p", "p+1", "max"} {
				val := vals[vn]
				b := append([]byte{}, v...)
				copy(b[off:off+32], sm2ref.Bytes32(val))
				run(b, fmt.Sprintf("coord%d=%s", ci, vn))
			}
		}
	}
	// non-canonical encodings of valid points: x+p or y+p where it still fits in 256 bits (x < 2^256-p)
	lim := new(big.Int).Sub(new(big.Int).Lsh(one, 256), sm2ref.P)
	found := 0
	for k := int64(1); k < 4000 && found < 2; k++ {
		p := sm2ref.BaseMul(big.NewInt(k))
		if p.X.Cmp(lim) < 0 || p.Y.Cmp(lim) < 0 {
			found++
			b := encRef(p)
			if p.X.Cmp(lim) < 0 {
				copy(b[1:33], sm2ref.Bytes32(new(big.Int).Add(p.X, sm2ref.P)))
			} else {
				copy(b[33:], sm2ref.Bytes32(new(big.Int).Add(p.Y, sm2ref.P)))
			}
			run(b, "noncanonical-plus-p")
		}
	}
	{
		xs, ys, names := sm2ref.NearCurvePoints(sm2ref.G())
		for i := range xs {
			run(encRef(sm2ref.Point{X: xs[i], Y: ys[i]}), "near:"+names[i])
		}
	}
	for pi, P := range sm2ref.SmallXPoints(6) {
		run(encRef(P), fmt.Sprintf("smallx%d:canonical", pi))
		b := encRef(P)
		copy(b[1:33], sm2ref.Bytes32(new(big.Int).Add(P.X, sm2ref.P)))
		run(b, fmt.Sprintf("smallx%d:x+p", pi))
		found++
	}
	r.Set("noncanonical_plus_p_points_found", found) // 2^256-p ~ 2^224: such points cannot be found by scanning; recorded, not required
	nv := 2
	if vx.Thorough() {
		nv = len(valid)
	}
	for vi, v := range valid[:nv] {
		for bit := 0; bit < 65*8; bit++ {
			b := append([]byte{}, v...)
			b[bit/8] ^= 1 << uint(bit%8)
			run(b, fmt.Sprintf("flip:v%d:bit%d", vi, bit))
		}
	}
}

type c15pcase struct {
	Op   string
	A, B string // point names
	RA   int    // representative generator index
	RB   int
}

// representatives of a point that arise naturally through the public API
func c15rep(p sm2ref.Point, how int) *internal.SM2Point {
	base := implPoint(p)
	switch how {
	case 1: // P + O through the complete formula
		return internal.NewSM2Point().Add(base, internal.NewSM2Point())
	case 2: // [1]P through ScalarMult
		q, _ := internal.ScalarMult(base, []byte{1})
		return q
	case 3: // (P + G) - G
		q := internal.NewSM2Point().Add(base, internal.NewSM2Generator())
		return q.Add(q, internal.NewSM2Point().Negate(internal.NewSM2Generator()))
	}
	return base
}

func c15peval(r *vx.R, c c15pcase, pts map[string]sm2ref.Point) {
	r.Eval(1)
	ra, rb := pts[c.A], pts[c.B]
	var got, p1, p2 *internal.SM2Point
	var want sm2ref.Point
	kind, msg := vx.Try(func() {
		p1, p2 = c15rep(ra, c.RA), c15rep(rb, c.RB)
		switch c.Op {
		case "add":
			got = internal.NewSM2Point().Add(p1, p2)
			want = sm2ref.Add(ra, rb)
		case "add-alias":
			got = p1.Add(p1, p2)
			want = sm2ref.Add(ra, rb)
		case "double":
			got = p1.Double(p1)
			want = sm2ref.Add(ra, ra)
		case "negate":
			got = internal.NewSM2Point().Negate(p1)
			want = sm2ref.Neg(ra)
		}
	})
	if kind != "" {
		r.Violation("pt:pub:"+c.Op+":panic", msg, c)
		return
	}
	gr, bad := refPoint(got)
	if bad != "" || !gr.Equal(want) {
		r.Violation("pt:pub:"+c.Op+":wrong", fmt.Sprintf("%s(%s,%s) reps (%d,%d): got %s want %s %s", c.Op, c.A, c.B, c.RA, c.RB, showRef(gr), showRef(want), bad), c)
	}
	bu := got.Bytes_Unsafe()
	if !bytes.Equal(bu, got.Bytes()) {
		r.Violation("pt:pub:Bytes-vs-Unsafe", "Bytes and Bytes_Unsafe disagree", c)
	}
	if got.GetAffineX().Cmp(got.GetAffineX_Unsafe()) != 0 {
		r.Violation("pt:pub:AffineX-vs-Unsafe", "GetAffineX and GetAffineX_Unsafe disagree", c)
	}
	// results must not share storage with operands: mutate the result in place (Double, then add G) and re-read the operands
	if got != p1 && got != p2 {
		kind, msg = vx.Try(func() {
			got.Double(got)
			got.Add(got, internal.NewSM2Generator())
		})
		if kind != "" {
			r.Violation("pt:pub:"+c.Op+":followup-panic", msg, c)
		} else {
			if g1, bad1 := refPoint(p1); c.Op != "add-alias" && c.Op != "double" && (bad1 != "" || !g1.Equal(ra)) {
				r.Violation("pt:pub:"+c.Op+":result-aliases-operand", fmt.Sprintf("after %s(%s,%s), changing the result in place changed the first operand (shared storage)", c.Op, c.A, c.B), c)
			}
			if g2, bad2 := refPoint(p2); bad2 != "" || !g2.Equal(rb) {
				if p2 != got {
					r.Violation("pt:pub:"+c.Op+":result-aliases-operand", fmt.Sprintf("after %s(%s,%s), changing the result in place changed the second operand (shared storage)", c.Op, c.A, c.B), c)
				}
			}
			w2 := sm2ref.Add(sm2ref.Add(want, want), sm2ref.G())
			if gq, badq := refPoint(got); badq != "" || !gq.Equal(w2) {
				r.Violation("pt:pub:"+c.Op+":followup-wrong", fmt.Sprintf("%s(%s,%s) then Double and Add G in place gives a wrong point", c.Op, c.A, c.B), c)
			}
		}
	}
	r.Shape(fmt.Sprintf("pub:%s:%s:%s:%d:%d", c.Op, c.A, c.B, c.RA, c.RB))
}

func TestVX_C15_PublicArith(t *testing.T) {
	r := vx.Begin("C15", "point-arith-public", "public-API twin of point-arith (kept when the in-package seam is lost): Add/Double/Negate over the point alphabet squared with representatives that arise naturally (decoded Z=1, P+O, [1]P via ScalarMult, (P+G)-G); oracle affine group law; Bytes==Bytes_Unsafe, GetAffineX==GetAffineX_Unsafe on every result")
	defer r.End()
	defer implSeamReport(r)
	pts := c14points()
	if raw, ok := vx.Replay("point-arith-public"); ok {
		var c c15pcase
		json.Unmarshal(raw, &c)
		c15peval(r, c, pts)
		return
	}
	names := sortedPts(pts)
	n := 0
	for _, a := range names {
		for _, b := range names {
			for ra := 0; ra < 4; ra++ {
				for rb := 0; rb < 4; rb++ {
					for _, op := range []string{"add", "add-alias"} {
						n++
						if vx.MineIdx(n) {
							c := c15pcase{op, a, b, ra, rb}
							c15peval(r, c, pts)
							r.Sample(c)
						}
					}
				}
			}
		}
		for ra := 0; ra < 4; ra++ {
			for _, op := range []string{"double", "negate"} {
				n++
				if vx.MineIdx(n) {
					c15peval(r, c15pcase{op, a, a, ra, ra}, pts)
				}
			}
		}
	}
}

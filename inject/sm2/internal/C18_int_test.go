//go:build verif

package internal

import (
	"bytes"
	"fmt"
	"math/big"
	"testing"

	"verif/refs/sm2ref"
	"verif/vx"
)

func c18mont(v *big.Int) [4]uint64 {
	m := new(big.Int).Lsh(v, 256)
	m.Mod(m, sm2ref.P)
	var out [4]uint64
	b := sm2ref.Bytes32(m)
	for i := 0; i < 4; i++ {
		for k := 0; k < 8; k++ {
			out[i] |= uint64(b[31-8*i-k]) << (8 * uint(k))
		}
	}
	return out
}

func TestVX_C18_SM2Tables(t *testing.T) {
	r := vx.Begin("C18", "sm2-tables", "every entry of the four SM2 comb schemes (4-2-32, 5-3-17(+1), 6-3-14(+15), 7-3-12(+15)): entry (j, i) must be the Montgomery form (v*2^256 mod p, little-endian limbs) of the affine coordinates of sum_{b in bits(i+1)} 2^(rem + j*iter + b*sub*iter) G, remainder entry i = [i+1]G, recomputed in sm2ref; plus the curve parameter block of GetZBytes, the CurveParams, sm2B and sm2G. Finite space enumerated completely")
	defer r.End()
	defer vxSeamReport(r)
	type sch struct {
		name            string
		first           [][][]*[4]uint64
		second          [][]*[4]uint64
		w, sub, it, rem int
	}
	schemes := []sch{
		{"4-2-32", sm2Precomputed_4_2_32, nil, 4, 2, 32, 0},
		{"5-3-17", sm2Precomputed_5_3_17, sm2Precomputed_5_3_17_Remainder, 5, 3, 17, 1},
		{"6-3-14", sm2Precomputed_6_3_14, sm2Precomputed_6_3_14_Remainder, 6, 3, 14, 4},
		{"7-3-12", sm2Precomputed_7_3_12, sm2Precomputed_7_3_12_Remainder, 7, 3, 12, 4},
	}
	// the tables must equal their derivation not only at start-up but after the library has been used: run a workload that
	// reads every table through every routine (all four comb schemes, the double-scalar routine incl. small and zero
	// scalars, variable-point multiplication) before the entries are checked
	{
		g := NewSM2Generator()
		for i := 0; i < 64; i++ {
			k := sm2ref.Bytes32(new(big.Int).SetBytes(vx.Fill(fmt.Sprintf("c18w%d", i), 32)))
			small := sm2ref.Bytes32(big.NewInt(int64(i)))
			scalarBaseMult_SkipBitExtraction_4_2_32(k)
			scalarBaseMult_SkipBitExtraction_5_3_17(k)
			scalarBaseMult_SkipBitExtraction_6_3_14(k)
			scalarBaseMult_SkipBitExtraction_7_3_12(k)
			ScalarMixedMult_Unsafe(k, g, small)
			ScalarMixedMult_Unsafe(small, g, k)
			ScalarMixedMult_Unsafe(k, NewSM2Generator().Double(g), sm2ref.Bytes32(big.NewInt(int64(1)<<uint(i%40))))
			ScalarMult(g, small)
			scalarBaseMult_SkipBitExtraction_6_3_14(small)
		}
		// points built from table entries by the package's own constructor are computed on in place (doubling, adding,
		// negating, selecting, overwriting): what a table point is made of must be the caller's, not a precomputed value
		for _, sc := range schemes {
			for j := range sc.first {
				if len(sc.first[j]) != 2 {
					continue
				}
				for i := 0; i < len(sc.first[j][0]) && i < len(sc.first[j][1]); i += 5 {
					if sc.first[j][0][i] == nil || sc.first[j][1][i] == nil {
						continue
					}
					vx.Try(func() {
						pt := NewFromXY(sc.first[j][0][i], sc.first[j][1][i])
						q := NewFromXY(sc.first[j][0][0], sc.first[j][1][0])
						pt.Double(pt)
						pt.Add(pt, q)
						pt.Negate(pt)
						pt.Select(pt, q, 1)
						q.Set(pt)
						q.Add(q, q)
					})
				}
			}
		}
		r.Set("workload_calls_before_table_check", 64*9)
	}
	idx := 0
	check := func(name string, j, i int, k *big.Int, x, y *[4]uint64) {
		idx++
		if !vx.MineIdx(idx) {
			return
		}
		r.Eval(1)
		pt := sm2ref.BaseMul(k)
		wx, wy := c18mont(pt.X), c18mont(pt.Y)
		c := map[string]interface{}{"table": name, "sub": j, "index": i, "multiple": k.Text(16)}
		if x == nil || y == nil || *x != wx || *y != wy {
			r.Violation(fmt.Sprintf("const:sm2table:%s:%d:%d", name, j, i), fmt.Sprintf("table %s sub-table %d entry %d is not the Montgomery form of [%x]G", name, j, i, k), c)
		}
		r.Shape(fmt.Sprintf("%s:%d:%d", name, j, i))
		r.Sample(c)
	}
	for _, s := range schemes {
		if len(s.first) != s.sub {
			r.Violation("const:sm2table:"+s.name+":shape", "wrong number of sub-tables", s.name)
			continue
		}
		for j := 0; j < s.sub; j++ {
			if len(s.first[j]) != 2 || len(s.first[j][0]) != 1<<uint(s.w)-1 || len(s.first[j][1]) != 1<<uint(s.w)-1 {
				r.Violation("const:sm2table:"+s.name+":shape", "wrong sub-table dimensions", s.name)
				continue
			}
			for i := 0; i < 1<<uint(s.w)-1; i++ {
				k := new(big.Int)
				for b := 0; b < s.w; b++ {
					if (i+1)>>uint(b)&1 == 1 {
						k.SetBit(k, s.rem+j*s.it+b*s.sub*s.it, 1)
					}
				}
				check(s.name, j, i, k, s.first[j][0][i], s.first[j][1][i])
			}
		}
		if s.rem > 0 {
			if len(s.second) != 2 || len(s.second[0]) != 1<<uint(s.rem)-1 || len(s.second[1]) != 1<<uint(s.rem)-1 {
				r.Violation("const:sm2table:"+s.name+":rem-shape", "wrong remainder table dimensions", s.name)
				continue
			}
			for i := 0; i < 1<<uint(s.rem)-1; i++ {
				check(s.name+"-rem", 0, i, big.NewInt(int64(i+1)), s.second[0][i], s.second[1][i])
			}
		}
	}
	if vx.MineIdx(0) {
		r.Eval(4)
		z := GetZBytes()
		want := append(append(append(sm2ref.Bytes32(sm2ref.A), sm2ref.Bytes32(sm2ref.B)...), sm2ref.Bytes32(sm2ref.Gx)...), sm2ref.Bytes32(sm2ref.Gy)...)
		if !bytes.Equal(z, want) {
			r.Violation("const:sm2:zbytes", "GetZBytes is not a||b||Gx||Gy", "zbytes")
		}
		r.Shape("zbytes")
		p := getCurve().Params()
		if p.P.Cmp(sm2ref.P) != 0 || p.N.Cmp(sm2ref.N) != 0 || p.B.Cmp(sm2ref.B) != 0 || p.Gx.Cmp(sm2ref.Gx) != 0 || p.Gy.Cmp(sm2ref.Gy) != 0 || p.BitSize != 256 {
			r.Violation("const:sm2:params", "curve parameters differ from GM/T 0003.5", "params")
		}
		r.Shape("params")
		if GetN().Cmp(sm2ref.N) != 0 {
			r.Violation("const:sm2:GetN", "GetN wrong", "GetN")
		}
		if sm2B.ToBigInt().Cmp(sm2ref.B) != 0 {
			r.Violation("const:sm2:b", "sm2B wrong", "sm2B")
		}
		r.Shape("sm2B")
		if !vxToRef(sm2G).Equal(sm2ref.G()) || !vxToRef(NewSM2Generator()).Equal(sm2ref.G()) {
			r.Violation("const:sm2:G", "generator wrong", "sm2G")
		}
		r.Shape("sm2G")
		if sm2ElementOne.ToBigInt().Cmp(big.NewInt(1)) != 0 {
			r.Violation("const:sm2:one", "sm2ElementOne wrong", "one")
		}
	}
}

//go:build verif

package internal_test

import (
	"fmt"
	"math/big"
	"testing"

	"github.com/bilibili/smgo/sm2/internal"
	"verif/refs/sm2ref"
	"verif/vx"
)

func intColdEntries() ([]vx.ColdEntry, map[string]string) {
	k := new(big.Int).SetBytes(vx.Fill("coldik", 32))
	k.Mod(k, sm2ref.N)
	P := sm2ref.BaseMul(big.NewInt(7))
	enc := encRef(P)
	show := func(p *internal.SM2Point, err error) string {
		if err != nil || p == nil {
			return fmt.Sprint("error ", err)
		}
		return fmt.Sprintf("%x", p.Bytes_Unsafe())
	}
	entries := []vx.ColdEntry{
		{"Double(decoded)", func() string {
			p, err := internal.NewSM2Point().SetBytes(enc)
			if err != nil {
				return err.Error()
			}
			return show(p.Double(p), nil)
		}},
		{"Double(NewSM2Point)", func() string { p := internal.NewSM2Point(); return show(p.Double(p), nil) }},
		{"Double(generator)", func() string { p := internal.NewSM2Generator(); return show(p.Double(p), nil) }},
		{"Add(decoded,generator)", func() string {
			p, _ := internal.NewSM2Point().SetBytes(enc)
			return show(internal.NewSM2Point().Add(p, internal.NewSM2Generator()), nil)
		}},
		{"Negate(decoded)", func() string {
			p, _ := internal.NewSM2Point().SetBytes(enc)
			return show(internal.NewSM2Point().Negate(p), nil)
		}},
		{"SetBytes+Bytes", func() string { p, err := internal.NewSM2Point().SetBytes(enc); return show(p, err) }},
		{"SetBytes(off-curve)", func() string {
			bad := append([]byte{}, enc...)
			bad[64] ^= 1
			_, err := internal.NewSM2Point().SetBytes(bad)
			return fmt.Sprint(err != nil)
		}},
		{"ScalarBaseMult", func() string { return show(internal.ScalarBaseMult(sm2ref.Bytes32(k))) }},
		{"ScalarMult", func() string { return show(internal.ScalarMult(implPoint(P), sm2ref.Bytes32(k))) }},
		{"ScalarMixedMult", func() string {
			return show(internal.ScalarMixedMult_Unsafe(sm2ref.Bytes32(k), implPoint(P), sm2ref.Bytes32(big.NewInt(12345))))
		}},
		{"GetAffineX(infinity)", func() string { return internal.NewSM2Point().GetAffineX().String() }},
	}
	r := func(p sm2ref.Point) string { return fmt.Sprintf("%x", encRef(p)) }
	want := map[string]string{
		"Double(decoded)":        r(sm2ref.Add(P, P)),
		"Double(NewSM2Point)":    "00",
		"Double(generator)":      r(sm2ref.BaseMul(big.NewInt(2))),
		"Add(decoded,generator)": r(sm2ref.Add(P, sm2ref.G())),
		"Negate(decoded)":        r(sm2ref.Neg(P)),
		"SetBytes+Bytes":         r(P),
		"SetBytes(off-curve)":    "true",
		"ScalarBaseMult":         r(sm2ref.BaseMul(k)),
		"ScalarMult":             r(sm2ref.Mul(k, P)),
		"ScalarMixedMult":        r(sm2ref.MulAdd(k, big.NewInt(12345), P)),
		"GetAffineX(infinity)":   "0",
	}
	return entries, want
}

// TestVX_C15Cold: every point operation as the first use of the curve code in a fresh process.
func TestVX_C15Cold(t *testing.T) {
	entries, want := intColdEntries()
	if vx.ColdChild(entries) {
		return
	}
	r := vx.Begin("C15", "cold-start", "each point operation (Double of a decoded point / of a fresh point / of the generator, Add, Negate, SetBytes+Bytes, SetBytes of an off-curve encoding, ScalarBaseMult, ScalarMult, ScalarMixedMult_Unsafe, GetAffineX of infinity) as the FIRST use of package sm2/internal in a fresh process, alone and by 8 goroutines released together in 10 (thorough 40) fresh processes; oracle sm2ref")
	defer r.End()
	defer implSeamReport(r)
	procs := 10
	if vx.Thorough() {
		procs = 40
	}
	vx.ColdCheck(r, "TestVX_C15Cold", entries, want, 8, procs)
}

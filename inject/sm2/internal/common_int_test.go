//go:build verif

package internal

import (
	"fmt"
	"math/big"

	"github.com/bilibili/smgo/sm2/internal/fiat"
	"verif/refs/sm2ref"
	"verif/vx"
)

// in-package seam: direct access to the projective coordinates of a point

// vxSeamRejected: canonical field elements (already reduced mod p) that the library's own decoder refused while the
// seam was building an operand. The drivers report them (a decoder that refuses a canonical coordinate breaks the
// round trip the property promises) and go on with the element built from its Montgomery image instead - a defective
// decoder must end in a VIOLATION line, not in a driver that cannot run.
var vxSeamRejected []string

func vxElem(v *big.Int) *fiat.SM2Element {
	c := new(big.Int).Mod(v, sm2ref.P)
	e, err := new(fiat.SM2Element).SetBytes(sm2ref.Bytes32(c))
	if err != nil {
		if len(vxSeamRejected) < 16 {
			vxSeamRejected = append(vxSeamRejected, fmt.Sprintf("%x: %v", sm2ref.Bytes32(c), err))
		}
		m := new(big.Int).Lsh(c, 256)
		m.Mod(m, sm2ref.P)
		var raw [4]uint64
		mask := new(big.Int).SetUint64(^uint64(0))
		for i := 0; i < 4; i++ {
			raw[i] = new(big.Int).And(new(big.Int).Rsh(m, uint(64*i)), mask).Uint64()
		}
		return new(fiat.SM2Element).SetRaw(raw)
	}
	return e
}

// vxSeamReport is deferred by every in-package driver (after `defer r.End()`, so that it runs first).
func vxSeamReport(r *vx.R) {
	for _, s := range vxSeamRejected {
		r.Violation("seam:SetBytes-rejects-canonical", "SM2Element.SetBytes refused a canonical field element (below p) while an operand was built: "+s, nil)
	}
}

// vxMake builds the projective representative (X:Y:Z) verbatim.
func vxMake(x, y, z *big.Int) *SM2Point {
	return &SM2Point{x: vxElem(x), y: vxElem(y), z: vxElem(z)}
}

func vxCoords(p *SM2Point) (x, y, z *big.Int) {
	return p.x.ToBigInt(), p.y.ToBigInt(), p.z.ToBigInt()
}

// vxRep returns the representative (lx:ly:l) of the reference point r, or (0:l:0) for infinity.
func vxRep(r sm2ref.Point, l *big.Int) *SM2Point {
	if r.Inf {
		return vxMake(new(big.Int), l, new(big.Int))
	}
	return vxMake(new(big.Int).Mul(r.X, l), new(big.Int).Mul(r.Y, l), l)
}

// vxToRef converts an implementation point to the reference representation using big.Int only.
func vxToRef(p *SM2Point) sm2ref.Point {
	x, y, z := vxCoords(p)
	if z.Sign() == 0 {
		return sm2ref.Infinity()
	}
	zi := new(big.Int).ModInverse(z, sm2ref.P)
	x.Mul(x, zi).Mod(x, sm2ref.P)
	y.Mul(y, zi).Mod(y, sm2ref.P)
	return sm2ref.Point{X: x, Y: y}
}

// vxOnCurveProj checks Y^2 Z = X^3 - 3 X Z^2 + b Z^3 (mod p); infinity must be (0:Y!=0:0).
func vxOnCurveProj(p *SM2Point) bool {
	x, y, z := vxCoords(p)
	P := sm2ref.P
	if z.Sign() == 0 {
		return x.Sign() == 0 && y.Sign() != 0
	}
	l := new(big.Int).Mul(y, y)
	l.Mul(l, z).Mod(l, P)
	r := new(big.Int).Exp(x, big.NewInt(3), P)
	t := new(big.Int).Mul(x, z)
	t.Mul(t, z).Mul(t, big.NewInt(3))
	r.Sub(r, t)
	t2 := new(big.Int).Exp(z, big.NewInt(3), P)
	t2.Mul(t2, sm2ref.B)
	r.Add(r, t2).Mod(r, P)
	return l.Cmp(r) == 0
}

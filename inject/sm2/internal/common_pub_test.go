//go:build verif

package internal_test

import (
	"fmt"
	"math/big"
	"sort"

	"github.com/bilibili/smgo/sm2/internal"
	"verif/refs/sm2ref"
	"verif/vx"
)

func encRef(r sm2ref.Point) []byte {
	if r.Inf {
		return []byte{0}
	}
	out := []byte{4}
	out = append(out, sm2ref.Bytes32(r.X)...)
	return append(out, sm2ref.Bytes32(r.Y)...)
}

// implPoint builds an implementation point from a reference point through the public decoder.
func implPoint(r sm2ref.Point) *internal.SM2Point {
	p, err := internal.NewSM2Point().SetBytes(encRef(r))
	if err != nil || p == nil {
		// a decoder that refuses a valid encoding is a finding of its own (reported by implSeamReport at the end of the
		// driver); the operand is built from the Montgomery images of the coordinates instead, so that the driver goes on
		// and ends in VIOLATION lines rather than in "harness could not run"
		if len(implRejected) < 16 {
			implRejected = append(implRejected, fmt.Sprintf("%x: %v", encRef(r), err))
		}
		if r.Inf {
			return internal.NewSM2Point()
		}
		mont := func(c *big.Int) *[4]uint64 {
			m := new(big.Int).Lsh(c, 256)
			m.Mod(m, sm2ref.P)
			var raw [4]uint64
			mask := new(big.Int).SetUint64(^uint64(0))
			for i := 0; i < 4; i++ {
				raw[i] = new(big.Int).And(new(big.Int).Rsh(m, uint(64*i)), mask).Uint64()
			}
			return &raw
		}
		return internal.NewFromXY(mont(r.X), mont(r.Y))
	}
	return p
}

var implRejected []string

// implSeamReport is deferred by the drivers after `defer r.End()`.
func implSeamReport(r *vx.R) {
	for _, s := range implRejected {
		r.Violation("seam:point-SetBytes-rejects-valid", "SM2Point.SetBytes refused the canonical encoding of a curve point while an operand was built: "+s, nil)
	}
}

// refPoint reads an implementation point back through the public (constant-time) encoder.
func refPoint(p *internal.SM2Point) (sm2ref.Point, string) {
	b := p.Bytes()
	switch {
	case len(b) == 1 && b[0] == 0:
		return sm2ref.Infinity(), ""
	case len(b) == 65 && b[0] == 4:
		return sm2ref.Point{X: new(big.Int).SetBytes(b[1:33]), Y: new(big.Int).SetBytes(b[33:])}, ""
	}
	return sm2ref.Point{}, fmt.Sprintf("malformed encoding %x", b)
}

func showRef(r sm2ref.Point) string {
	if r.Inf {
		return "O"
	}
	return fmt.Sprintf("(%x,%x)", r.X, r.Y)
}

func sortedPts(m map[string]sm2ref.Point) []string {
	var ks []string
	for k := range m {
		ks = append(ks, k)
	}
	sort.Strings(ks)
	return ks
}

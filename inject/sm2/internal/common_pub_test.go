//go:build verif

package internal_test

import (
	"fmt"
	"math/big"
	"sort"

	"github.com/bilibili/smgo/sm2/internal"
	"verif/refs/sm2ref"
)

func encRef(r sm2ref.Point) []byte {
	if r.Inf {
		return []byte{0}
	}
	out := []byte{4}
	out = append(out, sm2ref.Bytes32(r.X)...)
	return append(out, sm2ref.Bytes32(r.Y)...)
}

// implPoint builds an implementation point from a reference point through the public decoder.
func implPoint(r sm2ref.Point) *internal.SM2Point {
	p, err := internal.NewSM2Point().SetBytes(encRef(r))
	if err != nil || p == nil {
		panic(fmt.Sprintf("harness: SetBytes rejects a valid encoding: %v", err))
	}
	return p
}

// refPoint reads an implementation point back through the public (constant-time) encoder.
func refPoint(p *internal.SM2Point) (sm2ref.Point, string) {
	b := p.Bytes()
	switch {
	case len(b) == 1 && b[0] == 0:
		return sm2ref.Infinity(), ""
	case len(b) == 65 && b[0] == 4:
		return sm2ref.Point{X: new(big.Int).SetBytes(b[1:33]), Y: new(big.Int).SetBytes(b[33:])}, ""
	}
	return sm2ref.Point{}, fmt.Sprintf("malformed encoding %x", b)
}

func showRef(r sm2ref.Point) string {
	if r.Inf {
		return "O"
	}
	return fmt.Sprintf("(%x,%x)", r.X, r.Y)
}

func sortedPts(m map[string]sm2ref.Point) []string {
	var ks []string
	for k := range m {
		ks = append(ks, k)
	}
	sort.Strings(ks)
	return ks
}

//go:build verif

package fiat_test

import (
	"bytes"
	"encoding/json"
	"fmt"
	"math/big"
	"testing"

	"github.com/bilibili/smgo/sm2/internal/fiat"
	"verif/guard"
	"verif/refs/sm2ref"
	"verif/vx"
)

// elem abstracts the two field types behind one interface so that the same
// enumeration drives mod p and mod n.
type elem interface {
	setBytes(b []byte) bool
	bytes() []byte
	add(a, b elem)
	sub(a, b elem)
	mul(a, b elem)
	square(a elem)
	invert(a elem)
	sel(a, b elem, c int)
	isZero() int
	equal(a elem) int
	one()
	set(a elem)
}

type pe struct{ e fiat.SM2Element }
type ne struct{ e fiat.SM2ScalarElement }

func (x *pe) setBytes(b []byte) bool { _, err := x.e.SetBytes(b); return err == nil }
func (x *pe) bytes() []byte          { return x.e.Bytes() }
func (x *pe) add(a, b elem)          { x.e.Add(&a.(*pe).e, &b.(*pe).e) }
func (x *pe) sub(a, b elem)          { x.e.Sub(&a.(*pe).e, &b.(*pe).e) }
func (x *pe) mul(a, b elem)          { x.e.Mul(&a.(*pe).e, &b.(*pe).e) }
func (x *pe) square(a elem)          { x.e.Square(&a.(*pe).e) }
func (x *pe) invert(a elem)          { x.e.Invert(&a.(*pe).e) }
func (x *pe) sel(a, b elem, c int)   { x.e.Select(&a.(*pe).e, &b.(*pe).e, c) }
func (x *pe) isZero() int            { return x.e.IsZero() }
func (x *pe) equal(a elem) int       { return x.e.Equal(&a.(*pe).e) }
func (x *pe) one()                   { x.e.One() }
func (x *pe) set(a elem)             { x.e.Set(&a.(*pe).e) }

func (x *ne) setBytes(b []byte) bool { _, err := x.e.SetBytes(b); return err == nil }
func (x *ne) bytes() []byte          { return x.e.Bytes() }
func (x *ne) add(a, b elem)          { x.e.Add(&a.(*ne).e, &b.(*ne).e) }
func (x *ne) sub(a, b elem)          { x.e.Sub(&a.(*ne).e, &b.(*ne).e) }
func (x *ne) mul(a, b elem)          { x.e.Mul(&a.(*ne).e, &b.(*ne).e) }
func (x *ne) square(a elem)          { x.e.Square(&a.(*ne).e) }
func (x *ne) invert(a elem)          { x.e.Invert(&a.(*ne).e) }
func (x *ne) sel(a, b elem, c int)   { x.e.Select(&a.(*ne).e, &b.(*ne).e, c) }
func (x *ne) isZero() int            { return x.e.IsZero() }
func (x *ne) equal(a elem) int       { return x.e.Equal(&a.(*ne).e) }
func (x *ne) one()                   { x.e.One() }
func (x *ne) set(a elem)             { x.e.Set(&a.(*ne).e) }

func newElem(field string) elem {
	if field == "p" {
		return &pe{}
	}
	return &ne{}
}

func modulus(field string) *big.Int {
	if field == "p" {
		return sm2ref.P
	}
	return sm2ref.N
}

type c16case struct {
	Field string
	Op    string
	A, B  string
}

func limbsToBytes(l [4]uint64) []byte { // l[0] most significant
	b := make([]byte, 32)
	for i := 0; i < 4; i++ {
		for k := 0; k < 8; k++ {
			b[8*i+k] = byte(l[i] >> (56 - 8*uint(k)))
		}
	}
	return b
}

func limbAlphabet(n int) []uint64 {
	full := []uint64{0, 1, 2, 0xffffffff, 0x100000000, 1 << 63, 0x7fffffffffffffff, 0xfffffffffffffffe, 0xffffffffffffffff,
		0xffffffff00000000, 0xfffffffeffffffff, 0xffffffff00000001, 0xfffffffefffffffe, 0xfffffffeffffffff + 1, 0x7fffffff80000000,
		0x53BBF40939D54123, 0x7203DF6B21C6052B, 0x53BBF40939D54122, 0x53BBF40939D54124, 0x7203DF6B21C6052A, 0x7203DF6B21C6052C,
		0xfffffffffffffffe - 0xffffffff, 0x8000000000000001}
	if n > len(full) {
		n = len(full)
	}
	return full[:n]
}

func c16binary(r *vx.R, field, op string, ab, bb []byte) {
	m := modulus(field)
	a, b, o := newElem(field), newElem(field), newElem(field)
	if !a.setBytes(ab) || !b.setBytes(bb) {
		r.Violation("fe:"+field+":SetBytes-rejects-canonical", fmt.Sprintf("SetBytes rejected a canonical value %x / %x", ab, bb), c16case{field, op, vx.Hex(ab), vx.Hex(bb)})
		return
	}
	ai, bi := new(big.Int).SetBytes(ab), new(big.Int).SetBytes(bb)
	want := new(big.Int)
	r.Eval(1)
	switch op {
	case "add":
		o.add(a, b)
		want.Add(ai, bi)
	case "sub":
		o.sub(a, b)
		want.Sub(ai, bi)
	case "mul":
		o.mul(a, b)
		want.Mul(ai, bi)
	case "add-alias":
		o.set(a)
		o.add(o, b)
		want.Add(ai, bi)
	case "mul-alias":
		o.set(b)
		o.mul(a, o)
		want.Mul(ai, bi)
	case "sub-alias":
		o.set(b)
		o.sub(a, o)
		want.Sub(ai, bi)
	case "add-same": // both operands are the same object (b is ignored)
		o.add(a, a)
		want.Add(ai, ai)
	case "mul-same":
		o.mul(a, a)
		want.Mul(ai, ai)
	case "sub-same":
		o.sub(a, a)
	case "add-same-recv": // receiver and both operands are the same object
		o.set(a)
		o.add(o, o)
		want.Add(ai, ai)
	case "mul-same-recv":
		o.set(a)
		o.mul(o, o)
		want.Mul(ai, ai)
	}
	want.Mod(want, m)
	got := o.bytes()
	if !bytes.Equal(got, sm2ref.Bytes32(want)) {
		r.Violation("fe:"+field+":"+op, fmt.Sprintf("%s mod %s: %x op %x = %x, integers say %x", op, field, ab, bb, got, sm2ref.Bytes32(want)), c16case{field, op, vx.Hex(ab), vx.Hex(bb)})
	}
	// the result is used on: 0 - result must be the negative (a result whose limbs are not fully reduced encodes the
	// right bytes but computes wrongly afterwards)
	zero, neg := newElem(field), newElem(field)
	neg.sub(zero, o)
	wn := new(big.Int).Sub(m, want)
	wn.Mod(wn, m)
	if !bytes.Equal(neg.bytes(), sm2ref.Bytes32(wn)) {
		r.Violation("fe:"+field+":"+op+":then-negate", fmt.Sprintf("0 - (%x %s %x) = %x, integers say %x (the intermediate result is not fully reduced)", ab, op, bb, neg.bytes(), sm2ref.Bytes32(wn)), c16case{field, op, vx.Hex(ab), vx.Hex(bb)})
	}
	if !bytes.Equal(a.bytes(), ab) || !bytes.Equal(b.bytes(), bb) {
		r.Violation("fe:"+field+":"+op+":operand-modified", "an operand was modified", c16case{field, op, vx.Hex(ab), vx.Hex(bb)})
	}
}

func c16unary(r *vx.R, field string, ab []byte) {
	m := modulus(field)
	a := newElem(field)
	cs := func(op string) c16case { return c16case{field, op, vx.Hex(ab), ""} }
	if !a.setBytes(ab) {
		r.Violation("fe:"+field+":SetBytes-rejects-canonical", fmt.Sprintf("SetBytes rejected canonical %x", ab), cs("setbytes"))
		return
	}
	ai := new(big.Int).SetBytes(ab)
	r.Eval(6)
	if !bytes.Equal(a.bytes(), ab) {
		r.Violation("fe:"+field+":roundtrip", fmt.Sprintf("Bytes(SetBytes(%x)) = %x", ab, a.bytes()), cs("roundtrip"))
	}
	o := newElem(field)
	o.square(a)
	want := new(big.Int).Mul(ai, ai)
	want.Mod(want, m)
	if !bytes.Equal(o.bytes(), sm2ref.Bytes32(want)) {
		r.Violation("fe:"+field+":square", fmt.Sprintf("square(%x) = %x want %x", ab, o.bytes(), sm2ref.Bytes32(want)), cs("square"))
	}
	o.invert(a)
	inv := new(big.Int)
	if ai.Sign() != 0 {
		inv.ModInverse(ai, m)
	}
	if !bytes.Equal(o.bytes(), sm2ref.Bytes32(inv)) {
		r.Violation("fe:"+field+":invert", fmt.Sprintf("invert(%x) = %x want %x", ab, o.bytes(), sm2ref.Bytes32(inv)), cs("invert"))
	}
	// observation only (not demanded by the property, no caller in the library does it): z.Invert(z) with an
	// aliased receiver is not supported by the generated chains, which write z before their last use of x
	o2 := newElem(field)
	o2.set(a)
	o2.invert(o2)
	if o.equal(o2) != 1 {
		r.Add("observation_invert_aliased_receiver_differs", 1)
	}
	wz := 0
	if ai.Sign() == 0 {
		wz = 1
	}
	if a.isZero() != wz {
		r.Violation("fe:"+field+":iszero", fmt.Sprintf("IsZero(%x) = %d", ab, a.isZero()), cs("iszero"))
	}
	oneE := newElem(field)
	oneE.one()
	if !bytes.Equal(oneE.bytes(), sm2ref.Bytes32(big.NewInt(1))) {
		r.Violation("fe:"+field+":one", "One() is not 1", cs("one"))
	}
	s := newElem(field)
	s.sel(a, oneE, 1)
	if !bytes.Equal(s.bytes(), ab) {
		r.Violation("fe:"+field+":select1", "Select(a,b,1) != a", cs("select"))
	}
	s.sel(a, oneE, 0)
	if s.equal(oneE) != 1 {
		r.Violation("fe:"+field+":select0", "Select(a,b,0) != b", cs("select"))
	}
	we := 0
	if ai.Cmp(big.NewInt(1)) == 0 {
		we = 1
	}
	if a.equal(oneE) != we {
		r.Violation("fe:"+field+":equal", "Equal wrong", cs("equal"))
	}
	if pe1, ok := a.(*pe); ok {
		var o fiat.SM2Element
		o.Opp(&pe1.e)
		w := new(big.Int).Neg(ai)
		w.Mod(w, m)
		if !bytes.Equal(o.Bytes(), sm2ref.Bytes32(w)) {
			r.Violation("fe:p:opp", fmt.Sprintf("Opp(%x) = %x", ab, o.Bytes()), cs("opp"))
		}
		if bi := pe1.e.ToBigInt(); bi.Cmp(ai) != 0 {
			r.Violation("fe:p:tobigint", "ToBigInt wrong", cs("tobigint"))
		}
	} else {
		ne1 := a.(*ne)
		if bi := ne1.e.ToBigInt(); bi.Cmp(ai) != 0 {
			r.Violation("fe:n:tobigint", "ToBigInt wrong", cs("tobigint"))
		}
	}
}

var c16ro = guard.NewRO(1)

func c16decode(r *vx.R, field string, b []byte, shape string) {
	m := modulus(field)
	e := newElem(field)
	one := newElem(field)
	one.one()
	e.set(one)
	r.Eval(1)
	// the encoding lives in memory the process may not write: a decoder only reads its input
	c16ro.Reset()
	b = c16ro.Put(b)
	c16ro.Seal()
	defer c16ro.Reset()
	var ok bool
	kind, msg := vx.TryFault(func() { ok = e.setBytes(b) })
	if kind == "fault" {
		r.Violation("fe:"+field+":SetBytes-writes-input", fmt.Sprintf("SetBytes stored into its input (placed in read-only memory): %s", msg), c16case{field, "decode", vx.Hex(append([]byte{}, b...)), ""})
		return
	}
	if kind != "" {
		r.Violation("fe:"+field+":SetBytes-panic", fmt.Sprintf("SetBytes(%x) panicked: %s", b, msg), c16case{field, "decode", vx.Hex(b), ""})
		return
	}
	want := len(b) == 32 && new(big.Int).SetBytes(b).Cmp(m) < 0
	if ok != want {
		r.Violation(fmt.Sprintf("fe:%s:SetBytes-accept=%v", field, ok), fmt.Sprintf("SetBytes(%x) accepted=%v, canonical=%v", b, ok, want), c16case{field, "decode", vx.Hex(b), ""})
	}
	if !ok && e.equal(one) != 1 {
		r.Violation("fe:"+field+":SetBytes-clobbers-on-error", "receiver changed although SetBytes failed", c16case{field, "decode", vx.Hex(b), ""})
	}
	r.Shape("dec:" + field + ":" + shape)
}

func TestVX_C16(t *testing.T) {
	r := vx.Begin("C16", "field", "limb alphabet V (0,1,2,2^32-1,2^32,2^63,2^64-2,2^64-1, limbs of p and n and their +-1, ...); residues = V^4 filtered < m, each also read as a Montgomery form (value t*2^-256 mod m); unary ops (roundtrip,square,invert(+aliased),iszero,select,equal,opp,tobigint) on all residues; binary ops add/sub/mul (+aliased receiver) on R x R for a sub-alphabet, every result negated afterwards (catches results that are not fully reduced); add/mul/sub with both operands (and the receiver) being the same object on all residues; SetBytes on m-1,m,m+1,2^256-1, every 'm with byte i +-1', m-1 and m +- 2^k for every k and +- / xor half-word and word masks, lengths 0..40; oracle math/big mod m, canonical 32-byte results. Shape = (field, op, limb-index tuple)")
	defer r.End()
	if raw, ok := vx.Replay("field"); ok {
		var c c16case
		json.Unmarshal(raw, &c)
		switch c.Op {
		case "decode":
			c16decode(r, c.Field, vx.UnHex(c.A), "replay")
		case "add", "sub", "mul", "add-alias", "mul-alias", "sub-alias", "add-same", "mul-same", "sub-same", "add-same-recv", "mul-same-recv":
			c16binary(r, c.Field, c.Op, vx.UnHex(c.A), vx.UnHex(c.B))
		default:
			c16unary(r, c.Field, vx.UnHex(c.A))
		}
		return
	}
	nUn, nBin := 14, 5
	if vx.Thorough() {
		nUn, nBin = 22, 9
	}
	for _, field := range []string{"p", "n"} {
		m := modulus(field)
		// residues
		build := func(n int) [][]byte {
			al := limbAlphabet(n)
			if n < 10 { // binary sub-alphabet: the carry-critical extremes
				al = []uint64{0, 1, 0xffffffff, 0xffffffff00000000, 0xffffffffffffffff, 1 << 63, 0xfffffffeffffffff, 2, 0xfffffffffffffffe}[:n]
			}
			var out [][]byte
			for _, a := range al {
				for _, b := range al {
					for _, c := range al {
						for _, d := range al {
							bs := limbsToBytes([4]uint64{a, b, c, d})
							if new(big.Int).SetBytes(bs).Cmp(m) < 0 {
								out = append(out, bs)
							}
						}
					}
				}
			}
			// the same limb tuples as *Montgomery forms*: the value is t * 2^-256 mod m, so that the internal representation
			// (what the limb arithmetic actually sees) carries the carry-critical pattern
			rinv := new(big.Int).ModInverse(new(big.Int).Lsh(big.NewInt(1), 256), m)
			for _, bs := range append([][]byte{}, out...) {
				v := new(big.Int).Mul(new(big.Int).SetBytes(bs), rinv)
				v.Mod(v, m)
				out = append(out, sm2ref.Bytes32(v))
			}
			// always include m-1, m-2, (m-1)/2, (m+1)/2 and seeded values
			for _, d := range []int64{1, 2, 3} {
				out = append(out, sm2ref.Bytes32(new(big.Int).Sub(m, big.NewInt(d))))
			}
			h := new(big.Int).Rsh(m, 1)
			out = append(out, sm2ref.Bytes32(h), sm2ref.Bytes32(new(big.Int).Add(h, big.NewInt(1))))
			for i := 0; i < 16; i++ {
				v := new(big.Int).SetBytes(vx.Fill(fmt.Sprintf("fe%s%d", field, i), 32))
				v.Mod(v, m)
				out = append(out, sm2ref.Bytes32(v))
			}
			return out
		}
		un := build(nUn)
		for i, a := range un {
			if !vx.MineIdx(i) {
				continue
			}
			c16unary(r, field, a)
			for _, op := range []string{"add-same", "mul-same", "sub-same", "add-same-recv", "mul-same-recv"} {
				c16binary(r, field, op, a, a)
			}
			r.Shape(fmt.Sprintf("un:%s:%d", field, i))
			if i%97 == 0 {
				r.Sample(c16case{field, "unary", vx.Hex(a), ""})
			}
		}
		bin := build(nBin)
		r.Set("residues_unary_"+field, len(un))
		r.Set("residues_binary_"+field, len(bin))
		for i, a := range bin {
			if !vx.MineIdx(i) {
				continue
			}
			if r.Expired() {
				break
			}
			for j, b := range bin {
				for _, op := range []string{"add", "sub", "mul"} {
					c16binary(r, field, op, a, b)
				}
				if j%8 == 0 {
					for _, op := range []string{"add-alias", "sub-alias", "mul-alias"} {
						c16binary(r, field, op, a, b)
					}
				}
			}
			r.Shape(fmt.Sprintf("bin:%s:%d", field, i))
			r.Sample(c16case{field, "mul", vx.Hex(a), vx.Hex(bin[(i*7)%len(bin)])})
		}
		// decoding strictness
		if vx.MineIdx(0) {
			mb := sm2ref.Bytes32(m)
			c16decode(r, field, mb, "m")
			c16decode(r, field, sm2ref.Bytes32(new(big.Int).Sub(m, big.NewInt(1))), "m-1")
			c16decode(r, field, sm2ref.Bytes32(new(big.Int).Add(m, big.NewInt(1))), "m+1")
			c16decode(r, field, bytes.Repeat([]byte{0xff}, 32), "max")
			c16decode(r, field, make([]byte, 32), "zero")
			for i := 0; i < 32; i++ {
				for _, d := range []int{-1, 1} {
					for _, tail := range []int{0, 1, 2} {
						b := append([]byte{}, mb...)
						v := int(b[i]) + d
						if v < 0 || v > 255 {
							continue
						}
						b[i] = byte(v)
						for k := i + 1; k < 32; k++ {
							switch tail {
							case 1:
								b[k] = 0
							case 2:
								b[k] = 0xff
							}
						}
						c16decode(r, field, b, fmt.Sprintf("byte%d%+d:t%d", i, d, tail))
					}
				}
			}
			mm1 := new(big.Int).Sub(m, big.NewInt(1))
			lim := new(big.Int).Lsh(big.NewInt(1), 256)
			var masks []*big.Int
			for k := uint(0); k < 256; k++ {
				masks = append(masks, new(big.Int).Lsh(big.NewInt(1), k))
			}
			for w := uint(0); w < 8; w++ {
				masks = append(masks, new(big.Int).Lsh(big.NewInt(0xffff0000), 32*w), new(big.Int).Lsh(big.NewInt(0x0000ffff), 32*w), new(big.Int).Lsh(big.NewInt(0xffffffff), 32*w))
			}
			for mi, mk := range masks {
				for _, base := range []*big.Int{mm1, m} {
					for sgn := -1; sgn <= 1; sgn += 2 {
						v := new(big.Int).Add(base, new(big.Int).Mul(mk, big.NewInt(int64(sgn))))
						if v.Sign() >= 0 && v.Cmp(lim) < 0 {
							c16decode(r, field, sm2ref.Bytes32(v), fmt.Sprintf("perturb%d:%d", mi, sgn))
						}
						x := new(big.Int).Xor(base, mk)
						if x.Cmp(lim) < 0 {
							c16decode(r, field, sm2ref.Bytes32(x), fmt.Sprintf("xor%d", mi))
						}
					}
				}
			}
			for l := 0; l <= 40; l++ {
				if l != 32 {
					c16decode(r, field, make([]byte, l), fmt.Sprintf("len%d", l))
				}
			}
		}
	}
}

// TestVX_C16_Chain executes the two generated addition-chain programs of the
// current tree over the exponent algebra: the single path of each straight-line
// program must yield exactly m-2.
func TestVX_C16_Chain(t *testing.T) {
	r := vx.Begin("C16", "chain", "the text of the two addchain-generated inversion programs of the current tree is compiled with the element type replaced by an integer exponent (Square: e<-2e, Mul: e<-e1+e2) and executed once: the result must be exactly p-2 resp. n-2 (finite space: one path per program)")
	defer r.End()
	for _, c := range []struct {
		name string
		run  func(z, x *vxExpo)
		m    *big.Int
	}{{"scalar", vxScalarChain, sm2ref.N}, {"field", vxFieldChain, sm2ref.P}} {
		var z, x vxExpo
		x.v.SetInt64(1)
		kind, msg := vx.Try(func() { c.run(&z, &x) })
		r.Eval(1)
		if kind != "" {
			r.NotExhaustive("addition chain source of " + c.name + " could not be transformed: " + msg)
			continue
		}
		want := new(big.Int).Sub(c.m, big.NewInt(2))
		r.Shape("chain:" + c.name)
		r.Sample(map[string]string{"chain": c.name, "exponent": z.v.Text(16)})
		if z.v.Cmp(want) != 0 {
			r.Violation("chain:"+c.name, fmt.Sprintf("addition chain for %s inversion raises to %x, not m-2 = %x", c.name, &z.v, want), map[string]string{"chain": c.name})
		}
	}
}

// TestVX_C16_MultiSelect: the masked table selection returns exactly entry bits-1 (or the fallback) for every selector.
func TestVX_C16_MultiSelect(t *testing.T) {
	r := vx.Begin("C16", "multiselect", "SM2Element.MultiSelect for table widths {1,2,15,31,63,127,255} and every selector value 0..255: the result is entry bits-1 when 1<=bits<=width, the fallback element when the fallback condition is 0, else zero-or-entry exactly as the masked OR defines; table entries carry carry-critical limbs; the same selection into an element whose encoding / zero test / big-integer form had been used before (every view follows the new value); destination element backing an entry of the table itself (widths <= 31, every (destination, selector) pair). Finite space enumerated completely")
	defer r.End()
	for _, width := range []int{1, 2, 15, 31, 63, 127, 255} {
		tab := make([]*[4]uint64, width)
		for i := range tab {
			tab[i] = &[4]uint64{uint64(i+1) * 0x0101010101010101, ^uint64(i), uint64(i) << 32, 0xffffffffffffffff - uint64(i)}
		}
		for bits := 0; bits < 256; bits++ {
			for fbc := 0; fbc <= 1; fbc++ {
				r.Eval(1)
				var fb, out fiat.SM2Element
				fb.SetRaw([4]uint64{7, 8, 9, 10})
				out.MultiSelect(&tab, width, byte(bits), &fb, fbc)
				var want [4]uint64
				if fbc == 0 {
					want = [4]uint64{7, 8, 9, 10}
				}
				if bits >= 1 && bits <= width {
					for k := 0; k < 4; k++ {
						want[k] |= tab[bits-1][k]
					}
				}
				if *out.GetRaw() != want {
					r.Violation(fmt.Sprintf("fe:multiselect:width%d", width), fmt.Sprintf("MultiSelect(width %d, bits %d, fallbackCond %d) = %x, masked selection defines %x", width, bits, fbc, *out.GetRaw(), want), map[string]int{"width": width, "bits": bits, "fbc": fbc})
				}
				// the same selection into an element that has a past: it held another value whose encoding, zero test and
				// big-integer form were already asked for - every view of the element must follow the new value
				var used, fresh fiat.SM2Element
				used.SetRaw([4]uint64{0x1111, 0x2222, 0x3333, 0x4444})
				used.Bytes()
				used.IsZero()
				used.ToBigInt()
				used.Equal(&fb)
				used.MultiSelect(&tab, width, byte(bits), &fb, fbc)
				fresh.SetRaw(want)
				if !bytes.Equal(used.Bytes(), fresh.Bytes()) || used.IsZero() != fresh.IsZero() || used.ToBigInt().Cmp(fresh.ToBigInt()) != 0 || used.Equal(&fresh) != 1 {
					r.Violation("fe:multiselect:stale-view-after-select", fmt.Sprintf("after MultiSelect into an element whose Bytes/IsZero/ToBigInt/Equal had been used before, they still describe the old value (width %d, bits %d): Bytes %x, limbs encode %x", width, bits, used.Bytes(), fresh.Bytes()), map[string]int{"width": width, "bits": bits, "fbc": fbc})
				}
				r.Shape(fmt.Sprintf("ms:%d:%d:%d", width, bits, fbc))
			}
		}
		// the destination is itself a member of the table (a table of references into live elements, as the point-table
		// transformation builds them): selecting entry j into element j must leave it what it was, selecting entry i into
		// element j must make it entry i
		if width <= 31 {
			for j := 0; j < width; j++ {
				for i := 0; i < width; i++ {
					r.Eval(1)
					elems := make([]fiat.SM2Element, width)
					mt := make([]*[4]uint64, width)
					for k := range elems {
						elems[k].SetRaw(*tab[k])
						mt[k] = elems[k].GetRaw()
					}
					var fb fiat.SM2Element
					elems[j].MultiSelect(&mt, width, byte(i+1), &fb, 1)
					if *elems[j].GetRaw() != *tab[i] {
						r.Violation("fe:multiselect:destination-in-table", fmt.Sprintf("MultiSelect of entry %d into the element that backs entry %d of the same table (width %d) gives %x, entry is %x", i, j, width, *elems[j].GetRaw(), *tab[i]), map[string]int{"width": width, "dst": j, "bits": i + 1})
					}
				}
			}
			r.Shape(fmt.Sprintf("ms-self:%d", width))
		}
		r.Sample(map[string]int{"width": width})
	}
}

//go:build verif

package sm3_test

import (
	"bytes"
	"encoding/json"
	"fmt"
	"hash"
	"reflect"
	"testing"
	"unsafe"

	"github.com/bilibili/smgo/sm3"
	"verif/refs"
	"verif/refs/sm3ref"
	"verif/vx"
)

// An op of the SM3 history alphabet.
type c04op struct {
	K string // "W" write, "S" sum, "R" reset
	N int    // W: number of bytes; S: prefix variant 0..2
}

type c04case struct {
	Family string
	Ops    []c04op
}

// content of stream position i (since the last Reset) for a content family
func c04byte(fam string, i int, seeded []byte, epoch int) byte {
	switch fam {
	case "epoch": // constant within one epoch (= stretch between two Resets), different in consecutive epochs
		return []byte{0x11, 0x22}[epoch%2]
	case "zero":
		return 0
	case "ff":
		return 0xff
	case "a5":
		return 0xa5
	}
	return seeded[i]
}

func c04stream(fam string, n int, seeded []byte, epoch int) []byte {
	b := make([]byte, n)
	for i := range b {
		b[i] = c04byte(fam, i, seeded, epoch)
	}
	return b
}

func c04epoch(ops []c04op) int {
	e := 0
	for _, op := range ops {
		if op.K == "R" {
			e++
		}
	}
	return e
}

func pointerFree(t reflect.Type) bool {
	switch t.Kind() {
	case reflect.Bool, reflect.Int, reflect.Int8, reflect.Int16, reflect.Int32, reflect.Int64,
		reflect.Uint, reflect.Uint8, reflect.Uint16, reflect.Uint32, reflect.Uint64, reflect.Uintptr,
		reflect.Float32, reflect.Float64:
		return true
	case reflect.Array:
		return pointerFree(t.Elem())
	case reflect.Struct:
		for i := 0; i < t.NumField(); i++ {
			if !pointerFree(t.Field(i).Type) {
				return false
			}
		}
		return true
	}
	return false
}

// c04key is the dedup key: the full concrete memory of the live object when it
// is a pointer-free value (so merged states provably have the same futures),
// else the observable (length, digest) pair.
func c04key(h hash.Hash, n int, raw bool) string {
	if raw {
		if s, ok := h.(*sm3.SM3); ok {
			b := unsafe.Slice((*byte)(unsafe.Pointer(s)), unsafe.Sizeof(*s))
			return string(b)
		}
	}
	return fmt.Sprintf("%d:%x", n, h.Sum(nil))
}

type c04machine struct {
	r      *vx.R
	fam    string
	seeded []byte
	L      int
	raw    bool
}

// run replays ops on a fresh hash and returns it with the stream length since the last reset.
// check=true applies the per-op oracles to the *last* op only (earlier ops were checked when their state was discovered).
func (m *c04machine) run(ops []c04op, check bool) (hash.Hash, int) {
	h := sm3.New()
	n := 0
	epoch := 0
	for i, op := range ops {
		last := check && i == len(ops)-1
		switch op.K {
		case "W":
			data := make([]byte, op.N)
			for j := range data {
				data[j] = c04byte(m.fam, n+j, m.seeded, epoch)
			}
			keep := append([]byte{}, data...)
			got, err := h.Write(data)
			n += op.N
			if last {
				if got != op.N || err != nil {
					m.r.Violation("sm3:Write-return", fmt.Sprintf("Write of %d bytes returned (%d, %v); a hash must report (len, nil)", op.N, got, err), c04case{m.fam, ops})
				}
				if !bytes.Equal(keep, data) {
					m.r.Violation("sm3:Write-modifies-input", "Write changed its input slice", c04case{m.fam, ops})
				}
			}
			// the caller reuses its buffer as soon as Write has returned (the read-into-buffer / Write loop of io.Copy): a
			// Write must have consumed the bytes, not remembered where they were
			for j := range data {
				data[j] = ^data[j] ^ 0x5a
			}
		case "S":
			var p []byte
			switch op.N {
			case 1:
				p = []byte{1, 2, 3}
			case 2:
				p = make([]byte, 3, 64)
				copy(p, []byte{1, 2, 3})
			}
			var before string
			if last {
				before = c04key2(h, m.raw)
			}
			out := h.Sum(p)
			if last {
				want := sm3ref.Sum(c04stream(m.fam, n, m.seeded, epoch))
				if len(out) != len(p)+32 || !bytes.Equal(out[:len(p)], p) || (len(p) > 0 && !bytes.Equal(p, []byte{1, 2, 3})) {
					m.r.Violation("sm3:Sum-append", fmt.Sprintf("Sum(prefix variant %d) did not return prefix||digest (len %d)", op.N, len(out)), c04case{m.fam, ops})
				} else if !bytes.Equal(out[len(p):], want[:]) {
					m.r.Violation(fmt.Sprintf("sm3:digest:len%%64=%d", n%64), fmt.Sprintf("after %d bytes Sum = %x, GB/T 32905 digest is %x", n, out[len(p):], want), c04case{m.fam, ops})
				}
				if m.raw && c04key2(h, m.raw) != before {
					// not a violation by itself (a correct implementation may cache inside the object): the changed object is a
					// new state and every continuation from it is explored and digest-checked like any other
					m.r.Add("observation_Sum_changed_object_memory", 1)
				}
			}
		case "R":
			h.Reset()
			n = 0
			epoch++
		}
	}
	return h, n
}

func c04key2(h hash.Hash, raw bool) string {
	if raw {
		if s, ok := h.(*sm3.SM3); ok {
			return string(unsafe.Slice((*byte)(unsafe.Pointer(s)), unsafe.Sizeof(*s)))
		}
	}
	return ""
}

func TestVX_C04(t *testing.T) {
	r := vx.Begin("C04", "sm3-history", "explicit-state BFS over the real sm3 hash object: ops W(l) for every l with len+l<=L, S(prefix in {nil, 3 bytes cap 3, 3 bytes cap 64}), R; stream content is position-determined per family (ff, a5, zero constant; seeded positional; 'epoch': constant between two Resets, alternating 0x11/0x22 from one epoch to the next - every history of <=6 [thorough 8] ops over W{1,9,55,64,65}, S, R); dedup key = the full concrete memory of the live object; successor = replay of the shortest op path on a fresh object + 1 op; every state is digest-checked against sm3ref and SumSM3, every transition checks Write's return value, Sum's append contract; a Sum that changes the object's memory yields a new state whose continuations are explored like any other (recorded as an observation)")
	defer r.End()
	if err := refs.SelfCheck(false); err != nil {
		panic("reference self-check failed (harness broken): " + err.Error())
	}
	if raw, ok := vx.Replay("sm3-history"); ok {
		var c c04case
		json.Unmarshal(raw, &c)
		m := &c04machine{r: r, fam: c.Family, seeded: vx.Fill("sm3stream", 4096), L: 1 << 30, raw: true}
		m.run(c.Ops, true)
		// state-level oracles on the final state
		h, n := m.run(c.Ops, false)
		m.checkState(h, n, c.Ops)
		return
	}
	L := 200
	fams := []string{"ff", "seeded", "epoch"}
	if vx.Thorough() {
		L = 800
		fams = []string{"ff", "a5", "zero", "seeded", "epoch"}
	}
	_, raw := sm3.New().(*sm3.SM3)
	if raw {
		raw = pointerFree(reflect.TypeOf(sm3.SM3{}))
	}
	if !raw {
		r.NotExhaustive("sm3.SM3 is no longer a pointer-free value: states are merged on the observable (length, digest) key only")
	}
	r.Set("L", L)
	r.Set("raw_state_key", raw)
	digests := map[string]struct{}{}
	fi := 0
	for _, fam := range fams {
		fi++
		if !vx.MineIdx(fi) {
			continue
		}
		// constant-content families are explored on the full memory key (stale buffer bytes included: they are 0 or the
		// constant, so the space stays finite); the positional family would multiply states by its stale-byte history,
		// so it is merged on the observable (length, digest) key - sound because the constant families already visit
		// every (buffer fill, stale extent) combination
		famRaw := raw && fam != "seeded"
		famL := L
		if fam == "epoch" {
			// content alternates between two constants from one epoch to the next (so that nothing remembered across a Reset
			// can go unnoticed); the stale-byte layers multiply the raw-memory states, hence a shorter horizon
			famL = 200
		}
		m := &c04machine{r: r, fam: fam, seeded: vx.Fill("sm3stream", L+64), L: famL, raw: famRaw}
		type st struct {
			ops []c04op
			n   int
		}
		seen := map[string]struct{}{}
		var frontier []st
		h0 := sm3.New()
		seen[c04key(h0, 0, famRaw)] = struct{}{}
		frontier = append(frontier, st{nil, 0})
		m.checkState(h0, 0, nil)
		r.States(1)
		maxDepth := 0
		const stateCap = 400000
		capped := false
		for len(frontier) > 0 {
			cur := frontier[0]
			frontier = frontier[1:]
			if r.Expired() {
				break
			}
			var succ []c04op
			if fam == "epoch" {
				// every history of at most D operations over a small alphabet (the stale-byte layers of alternating content
				// make the raw-memory state space of the full alphabet exponential)
				D := 6
				if vx.Thorough() {
					D = 8
				}
				if len(cur.ops) >= D {
					continue
				}
				for _, l := range []int{1, 9, 55, 64, 65} {
					if cur.n+l <= famL {
						succ = append(succ, c04op{"W", l})
					}
				}
				succ = append(succ, c04op{"S", 0}, c04op{"R", 0})
			} else {
				for l := 0; cur.n+l <= famL; l++ {
					succ = append(succ, c04op{"W", l})
				}
				succ = append(succ, c04op{"S", 0}, c04op{"S", 1}, c04op{"S", 2}, c04op{"R", 0})
			}
			for _, op := range succ {
				ops := append(append([]c04op{}, cur.ops...), op)
				h, n := m.run(ops, true)
				r.Transitions(1)
				r.Validated(1)
				r.Eval(1)
				k := c04key(h, n, famRaw)
				if fam == "epoch" {
					k += fmt.Sprintf("|e%d", c04epoch(ops)%2) // the next bytes depend on the epoch's parity
				}
				if _, ok := seen[k]; ok {
					continue
				}
				if len(seen) >= stateCap {
					capped = true
					continue
				}
				seen[k] = struct{}{}
				r.States(1)
				r.Shape(fmt.Sprintf("%s:%x", fam, sha(k)))
				m.checkState(h, n, ops)
				digests[string(h.Sum(nil))] = struct{}{}
				if len(ops) > maxDepth {
					maxDepth = len(ops)
				}
				frontier = append(frontier, st{ops, n})
				r.Sample(c04case{fam, ops})
			}
		}
		if capped {
			r.NotExhaustive(fmt.Sprintf("state cap %d reached for family %s", stateCap, fam))
		}
		r.Set("states_"+fam, len(seen))
		r.Set("max_depth_"+fam, maxDepth)
	}
	r.Set("distinct_digests", len(digests))
}

func sha(s string) []byte {
	h := sm3ref.Sum([]byte(s))
	return h[:8]
}

// checkState applies the state-level oracles when a state is first discovered.
func (m *c04machine) checkState(h hash.Hash, n int, ops []c04op) {
	stream := c04stream(m.fam, n, m.seeded, c04epoch(ops))
	want := sm3ref.Sum(stream)
	got := h.Sum(nil)
	if !bytes.Equal(got, want[:]) {
		m.r.Violation(fmt.Sprintf("sm3:digest:len%%64=%d", n%64), fmt.Sprintf("after %d bytes Sum = %x, GB/T 32905 digest is %x", n, got, want), c04case{m.fam, ops})
	}
	one := sm3.SumSM3(stream)
	if one != want {
		m.r.Violation(fmt.Sprintf("sm3:SumSM3:len%%64=%d", n%64), fmt.Sprintf("SumSM3 of %d bytes = %x, GB/T 32905 digest is %x", n, one, want), c04case{m.fam, ops})
	}
	if h.Size() != 32 || h.BlockSize() != 64 {
		m.r.Violation("sm3:sizes", "Size/BlockSize wrong", c04case{m.fam, ops})
	}
	// differential: the same length written in one call on a fresh object must land in a state with the same digest
	f := sm3.New()
	f.Write(stream)
	if !bytes.Equal(f.Sum(nil), got) {
		m.r.Violation("sm3:split-dependence", fmt.Sprintf("digest after this history differs from a single Write of the same %d bytes", n), c04case{m.fam, ops})
	}
}

//go:build verif

package sm3_test

import (
	"bytes"
	"encoding/hex"
	"fmt"
	"strconv"
	"testing"

	"github.com/bilibili/smgo/sm3"
	"verif/refs/sm3ref"
	"verif/vx"
)

type c04hugeCase struct {
	Fill  string // byte value of the constant stream
	Chunk int    // bytes per Write
	Len   uint64 // total message length at this waypoint
}

// TestVX_C04Huge drives one live hash object past the lengths at which the message bit length crosses 2^32 (2^29
// bytes) - [thorough: and 2^35 (2^32 bytes)] - taking Sum at every waypoint around the boundary. The stream is constant
// so that neither side needs the message in memory; the oracle is the streaming form of sm3ref, anchored on three
// digests computed with OpenSSL.
func TestVX_C04Huge(t *testing.T) {
	r := vx.Begin("C04", "sm3-huge", "one live object per (fill byte, chunk size): Write in chunks up to each waypoint L in {2^29-65, 2^29-64, 2^29-56, 2^29-9, 2^29-1, 2^29, 2^29+1, 2^29+55, 2^29+64, 2^29+119} [thorough: the same offsets around 2^30 and 2^32], Sum at every waypoint (which must leave the object unchanged), Write's return value on every chunk; oracle: streaming sm3ref with the 64-bit length field, anchored on OpenSSL digests of 0xa5 x (2^29-1, 2^29, 2^29+3)")
	defer r.End()
	anchors := map[uint64]string{
		1<<29 - 1: "4c631865cf0b970ce4856d51d27fda7a6a5231cb793f9eb313a46e8afbb562f5",
		1 << 29:   "585d33aa552b70041daf932d044ee1068ba8bc5b98fabfdd01ae251a0a109c9b",
		1<<29 + 3: "dd793fb35c5dbb6d88eb42a8ebb2178eecfe6cd4a9ef85a34c7249ac53b8de90",
	}
	type cfg struct {
		fill  byte
		chunk int
	}
	cfgs := []cfg{{0xa5, 1 << 20}, {0x00, 1<<16 + 1}}
	if vx.Thorough() {
		cfgs = append(cfgs, cfg{0xff, 4096 + 7})
	}
	centres := []uint64{1 << 29}
	if vx.Thorough() {
		centres = append(centres, 1<<30, 1<<32)
	}
	for ci, cf := range cfgs {
		if !vx.MineIdx(ci) {
			continue
		}
		var ways []uint64
		for _, c := range centres {
			for _, o := range []int64{-65, -64, -56, -9, -1, 0, 1, 3, 55, 64, 119} {
				ways = append(ways, uint64(int64(c)+o))
			}
		}
		h := sm3.New()
		ref := sm3ref.NewStream()
		chunk := bytes.Repeat([]byte{cf.fill}, cf.chunk)
		var pos uint64
		for _, w := range ways {
			for pos < w {
				k := uint64(len(chunk))
				if w-pos < k {
					k = w - pos
				}
				n, err := h.Write(chunk[:k])
				if n != int(k) || err != nil {
					r.Violation("sm3:huge:Write-return", fmt.Sprintf("Write of %d bytes at offset %d returned (%d, %v)", k, pos, n, err), c04hugeCase{fmt.Sprintf("%02x", cf.fill), cf.chunk, pos})
				}
				ref.Write(chunk[:k])
				pos += k
			}
			r.Eval(1)
			cs := c04hugeCase{fmt.Sprintf("%02x", cf.fill), cf.chunk, w}
			want := ref.Sum()
			if a, ok := anchors[w]; ok && cf.fill == 0xa5 && hex.EncodeToString(want[:]) != a {
				panic("harness: streaming sm3ref disagrees with the OpenSSL anchor at length " + fmt.Sprint(w))
			}
			got := h.Sum(nil)
			again := h.Sum(nil)
			if !bytes.Equal(got, want[:]) {
				r.Violation(fmt.Sprintf("sm3:huge:digest:len=2^%d%+d", log2near(w), int64(w)-int64(uint64(1)<<uint(log2near(w)))), fmt.Sprintf("Sum after %d bytes of 0x%02x = %x, GB/T 32905 digest is %x", w, cf.fill, got, want), cs)
			}
			if !bytes.Equal(got, again) {
				r.Violation("sm3:huge:Sum-mutates", fmt.Sprintf("second Sum after %d bytes differs", w), cs)
			}
			r.Shape(fmt.Sprintf("%02x:%d:%d", cf.fill, cf.chunk, w))
			r.Sample(cs)
		}
	}
}

func log2near(w uint64) int {
	best := 0
	for i := 1; i < 64; i++ {
		d1 := int64(w) - int64(uint64(1)<<uint(i))
		d0 := int64(w) - int64(uint64(1)<<uint(best))
		if d1 < 0 {
			d1 = -d1
		}
		if d0 < 0 {
			d0 = -d0
		}
		if d1 < d0 {
			best = i
		}
	}
	return best
}

type c04singleCase struct {
	Len  int    // message length (all bytes zero)
	Mode string // oneshot | single-write | two-writes
}

// TestVX_C04Single gives messages of 2^28 bytes and more in ONE call: the one-shot function, a single Write, and two
// Writes that both exceed 2^27 bytes. These are the lengths at which a byte count turned into a bit count inside an int
// wraps on a 32-bit target (the w32 part runs this driver as a GOARCH=386 binary) and at which 32-bit block counters
// come into reach on any target. The message is untouched anonymous memory (all zero); the oracle is streaming sm3ref.
func TestVX_C04Single(t *testing.T) {
	r := vx.Begin("C04", "sm3-single-huge", "all-zero messages of length L in {2^28-1, 2^28, 2^28+1, 2^28+55, 2^28+64, 2^29-1, 2^29, 2^29+9; on 64-bit targets also 2^32+5, 2^32+64} given in one piece: SumSM3(m); New, one Write(m) (return value checked), Sum, Sum again; New, Write(m[:L/2+3]), Write(m[L/2+3:]), Sum. Oracle: streaming sm3ref with the 64-bit length field (anchored on OpenSSL digests in the sm3-huge part)")
	defer r.End()
	lens := []int{1<<28 - 1, 1 << 28, 1<<28 + 1, 1<<28 + 55, 1<<28 + 64, 1<<29 - 1, 1 << 29, 1<<29 + 9}
	if strconv.IntSize == 64 {
		// byte counts that no longer fit 32 bits, in one call and in two (the bit count then needs more than 35 bits)
		big := []int64{1<<32 + 5, 1<<32 + 64}
		for _, b := range big {
			lens = append(lens, int(b))
		}
	}
	zero := make([]byte, 1<<20)
	for li, L := range lens {
		if !vx.MineIdx(li) {
			continue
		}
		ref := sm3ref.NewStream()
		for left := L; left > 0; {
			c := len(zero)
			if c > left {
				c = left
			}
			ref.Write(zero[:c])
			left -= c
		}
		want := ref.Sum()
		msg := make([]byte, L) // fresh zero pages from the OS: costs no RAM until read
		for _, mode := range []string{"oneshot", "single-write", "two-writes"} {
			r.Eval(1)
			cs := c04singleCase{L, mode}
			var got, again []byte
			kind, pm := vx.Try(func() {
				switch mode {
				case "oneshot":
					d := sm3.SumSM3(msg)
					got = d[:]
					again = got
				case "single-write":
					h := sm3.New()
					n, err := h.Write(msg)
					if n != L || err != nil {
						r.Violation("sm3:single:Write-return", fmt.Sprintf("Write of %d bytes returned (%d, %v)", L, n, err), cs)
					}
					got = h.Sum(nil)
					again = h.Sum(nil)
				case "two-writes":
					h := sm3.New()
					h.Write(msg[:L/2+3])
					h.Write(msg[L/2+3:])
					got = h.Sum(nil)
					again = h.Sum(nil)
				}
			})
			if kind != "" {
				r.Violation("sm3:single:panic:"+mode, pm, cs)
				continue
			}
			if !bytes.Equal(got, want[:]) {
				r.Violation(fmt.Sprintf("sm3:single:digest:%s:len=2^%d%+d", mode, log2near(uint64(L)), int64(L)-int64(1)<<uint(log2near(uint64(L)))), fmt.Sprintf("%s of %d zero bytes = %x, GB/T 32905 digest is %x", mode, L, got, want), cs)
			}
			if !bytes.Equal(got, again) {
				r.Violation("sm3:single:Sum-differs", fmt.Sprintf("second Sum after %d bytes differs", L), cs)
			}
			r.Shape(fmt.Sprintf("%s:%d", mode, L))
			r.Sample(cs)
		}
	}
}

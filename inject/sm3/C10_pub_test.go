//go:build verif

package sm3_test

import (
	"bytes"
	"encoding/json"
	"fmt"
	"testing"

	"github.com/bilibili/smgo/sm3"
	"verif/refs/sm3ref"
	"verif/vx"
)

type c10sum struct {
	MsgLen, InLen, Spare int
	Nil                  bool
}

func c10sumEval(r *vx.R, c c10sum) {
	r.Eval(1)
	msg := vx.Fill("c10summsg", c.MsgLen)
	h := sm3.New()
	h.Write(msg[:c.MsgLen/2])
	h.Write(msg[c.MsgLen/2:])
	want := sm3ref.Sum(msg)
	var in, backing []byte
	prefix := vx.Fill("c10sumprefix", c.InLen)
	if !c.Nil {
		backing = bytes.Repeat([]byte{0xA5}, c.InLen+c.Spare)
		copy(backing, prefix)
		in = backing[:c.InLen]
	}
	var out, out2 []byte
	kind, m := vx.Try(func() { out = h.Sum(in); out2 = h.Sum(in) })
	if kind != "" {
		r.Violation("buf:Sum:panic", m, c)
		return
	}
	wantFull := append(append([]byte{}, prefix...), want[:]...)
	if c.Nil {
		wantFull = want[:]
	}
	if !bytes.Equal(out, wantFull) {
		r.Violation("buf:Sum:result", fmt.Sprintf("Sum(in) with len(in)=%d spare=%d is not in||digest", c.InLen, c.Spare), c)
	}
	if !bytes.Equal(out2, wantFull) {
		r.Violation("buf:Sum:repeat-differs", "second Sum on the same buffers differs", c)
	}
	if !c.Nil && !bytes.Equal(backing[:c.InLen], prefix) {
		r.Violation("buf:Sum:prefix-modified", "Sum changed the first len(in) bytes", c)
	}
	r.Shape(fmt.Sprintf("sum:msg%d:in%d:sp%d:nil%v", c.MsgLen, c.InLen, c.Spare, c.Nil))
}

func TestVX_C10_Sum(t *testing.T) {
	r := vx.Begin("C10", "buffers-sum", "Sum(in) for every (len(in) in {0,1,5,31,32,33}, spare capacity in {0,1,31,32,33,96}) and in=nil, in hash states after every message length 0..130; repeated; oracle in||sm3ref digest, prefix preserved")
	defer r.End()
	if raw, ok := vx.Replay("buffers-sum"); ok {
		var c c10sum
		json.Unmarshal(raw, &c)
		c10sumEval(r, c)
		return
	}
	for ml := 0; ml <= 130; ml++ {
		c10sumEval(r, c10sum{ml, 0, 0, true})
		for _, il := range []int{0, 1, 5, 31, 32, 33} {
			for _, sp := range []int{0, 1, 31, 32, 33, 96} {
				c := c10sum{ml, il, sp, false}
				c10sumEval(r, c)
				r.Sample(c)
			}
		}
	}
}

//go:build verif

package sm3

import (
	"fmt"
	"testing"

	"verif/refs/sm3ref"
	"verif/vx"
)

func TestVX_C18_SM3(t *testing.T) {
	r := vx.Begin("C18", "sm3-tt", "tt[j] = T_j <<< (j mod 32) for all 64 j; initial value constants = GB/T 32905 IV. Finite space enumerated completely")
	defer r.End()
	// the table must equal its derivation when the compression function reads it: a table filled on first use is read
	// here only after every entry point (one-shot, streaming with a block boundary, Sum, Reset) has run
	{
		msg := vx.Fill("c18w-sm3", 200)
		SumSM3(msg)
		h := New()
		h.Write(msg[:70])
		h.Sum(nil)
		h.Reset()
		h.Write(msg)
		h.Sum(nil)
		r.Set("workload_calls_before_table_check", 7)
	}
	for j := 0; j < 64; j++ {
		r.Eval(1)
		if tt[j] != sm3ref.T(j) {
			r.Violation(fmt.Sprintf("const:sm3:tt:%d", j), fmt.Sprintf("tt[%d]=%#x want %#x", j, tt[j], sm3ref.T(j)), j)
		}
		r.Shape(fmt.Sprintf("tt:%d", j))
	}
	want := [8]uint32{0x7380166f, 0x4914b2b9, 0x172442d7, 0xda8a0600, 0xa96f30bc, 0x163138aa, 0xe38dee4d, 0xb0fb0e4e}
	for i, v := range []uint32{iv0, iv1, iv2, iv3, iv4, iv5, iv6, iv7} {
		r.Eval(1)
		if v != want[i] {
			r.Violation(fmt.Sprintf("const:sm3:iv:%d", i), "IV constant wrong", i)
		}
		r.Shape(fmt.Sprintf("iv:%d", i))
	}
	r.Sample(map[string]interface{}{"tt[0]": tt[0], "tt[63]": tt[63]})
}

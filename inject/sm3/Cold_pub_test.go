//go:build verif

package sm3_test

import (
	"fmt"
	"testing"

	"github.com/bilibili/smgo/sm3"
	"verif/refs/sm3ref"
	"verif/vx"
)

func sm3ColdEntries() ([]vx.ColdEntry, map[string]string) {
	msg := vx.Fill("coldsm3", 119)
	want := sm3ref.Sum(msg)
	w := fmt.Sprintf("%x", want)
	entries := []vx.ColdEntry{
		{"SumSM3", func() string { d := sm3.SumSM3(msg); return fmt.Sprintf("%x", d) }},
		{"New+Write+Sum", func() string { h := sm3.New(); h.Write(msg); return fmt.Sprintf("%x", h.Sum(nil)) }},
		{"zero-value+Reset+Write+Sum", func() string { var s sm3.SM3; s.Reset(); s.Write(msg); return fmt.Sprintf("%x", s.Sum(nil)) }},
		{"New+Reset+Write(split)+Sum", func() string {
			h := sm3.New()
			h.Reset()
			h.Write(msg[:64])
			h.Write(msg[64:])
			return fmt.Sprintf("%x", h.Sum(nil))
		}},
	}
	wm := map[string]string{}
	for _, e := range entries {
		wm[e.Name] = w
	}
	return entries, wm
}

// TestVX_C04Cold: every way into the hash as the first use of the package in a fresh process, alone and from eight
// goroutines at once.
func TestVX_C04Cold(t *testing.T) {
	entries, want := sm3ColdEntries()
	if vx.ColdChild(entries) {
		return
	}
	r := vx.Begin("C04", "cold-start", "each entry point (SumSM3; New+Write+Sum; zero-value SM3 + Reset + Write + Sum; New+Reset+split Write+Sum) as the FIRST use of package sm3 in a fresh process: alone, and by 8 goroutines released together in 20 (thorough 60) fresh processes; oracle sm3ref")
	defer r.End()
	procs := 20
	if vx.Thorough() {
		procs = 60
	}
	vx.ColdCheck(r, "TestVX_C04Cold", entries, want, 8, procs)
}

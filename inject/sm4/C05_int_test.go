//go:build verif

package sm4

import (
	"bytes"
	"encoding/json"
	"fmt"
	"testing"

	"verif/refs"
	"verif/refs/sm4ref"
	"verif/vx"
)

type c05case struct {
	Key   string
	Path  string
	Dec   bool
	Alias bool
	In    string // W*16 bytes
}

func c05alphabet(th bool, role string) [][]byte {
	var out [][]byte
	z := make([]byte, 16)
	out = append(out, z, bytes.Repeat([]byte{0xff}, 16), vx.UnHex("0123456789abcdeffedcba9876543210"))
	for bit := 0; bit < 128; bit++ {
		b := make([]byte, 16)
		b[bit/8] = 1 << uint(7-bit%8)
		out = append(out, b)
	}
	if th {
		for pos := 0; pos < 16; pos++ {
			for v := 1; v < 256; v++ {
				b := make([]byte, 16)
				b[pos] = byte(v)
				out = append(out, b)
			}
		}
	}
	ns := 8
	if th {
		ns = 32
	}
	for i := 0; i < ns; i++ {
		out = append(out, vx.Fill(fmt.Sprintf("c05%s%d", role, i), 16))
	}
	if role == "key" {
		// keys solved so that single round keys (and windows of them) are all-zero / all-one words
		sk, _ := sm4ref.SpecialScheduleKeys(th)
		out = append(out, sk...)
	}
	return out
}

var c05widths = map[string]int{"go1": 1, "go2": 2, "asm1": 1, "asm2": 2, "asm4": 4, "asm8": 8, "asm16": 16, "Encrypt": 1, "EncryptGeneric": 1}

// c05call runs one kernel invocation on W blocks.
func c05call(path string, enc, dec *[32]uint32, useDec, alias bool, in []byte) []byte {
	rk := enc
	if useDec {
		rk = dec
	}
	src := append([]byte{}, in...)
	dst := make([]byte, len(in))
	if alias {
		dst = src
	}
	switch path {
	case "go1":
		cryptoBlock(src, dst, rk)
	case "go2":
		cryptoBlockX2(src, dst, rk)
	case "asm1":
		cryptoBlockAsm(&rk[0], &dst[0], &src[0])
	case "asm2":
		cryptoBlockAsmX2(&rk[0], &dst[0], &src[0])
	case "asm4":
		cryptoBlockAsmX4(&rk[0], &dst[0], &src[0])
	case "asm8":
		cryptoBlockAsmX8(&rk[0], &dst[0], &src[0])
	case "asm16":
		cryptoBlockAsmX16(&rk[0], &dst[0], &src[0])
	}
	if !alias && !bytes.Equal(src, in) {
		panic("c05: source modified") // converted into a violation by the caller's Try
	}
	return dst
}

func TestVX_C05_Paths(t *testing.T) {
	r := vx.Begin("C05", "block-paths", "keys K x blocks B (0^128, 1^128, standard sample, 128 one-hot, keys solved for rk[i]=0 (every i), rk[i]=0xffffffff and all-zero/all-one windows rk[0..3], rk[28..31], rk[1..2], rk[14..17], [thorough: 16x255 single-byte sweeps], seeded) through every implementation path: portable cryptoBlock / cryptoBlockX2, vector kernels of width 1,2,4,8,16 with the block list rotated so that every block visits every lane next to distinct neighbours, encrypt and decrypt key order, dst==src aliasing; both key schedules (expandKey, expandKeyAsm) compared word for word with sm4ref. Oracle sm4ref (algebraic S-box; validated on the GB/T 32907 vectors incl. the 10^6-fold iteration). Shape=(key index, path, direction, alias)")
	defer r.End()
	i0, _ := vx.Shard()
	if err := refs.SelfCheck(i0 == 0 && !vx.Replaying()); err != nil {
		panic("reference self-check failed (harness broken): " + err.Error())
	}
	if raw, ok := vx.Replay("block-paths"); ok {
		var c c05case
		json.Unmarshal(raw, &c)
		c05one(r, c)
		return
	}
	th := vx.Thorough()
	keys := c05alphabet(th, "key")
	blocks := c05alphabet(th, "blk")
	r.Set("keys", len(keys))
	r.Set("blocks", len(blocks))
	paths := []string{"go1", "go2"}
	if candoAsm {
		paths = append(paths, "asm1", "asm2", "asm4", "asm8", "asm16")
	} else {
		r.NotExhaustive("CPU lacks the accelerated path: vector kernels not executed")
	}
	for ki, key := range keys {
		if !vx.MineIdx(ki) {
			continue
		}
		if r.Expired() {
			break
		}
		ref := sm4ref.New(key)
		var enc, dec [32]uint32
		expandKey(key, &enc, &dec)
		r.Eval(1)
		okSched := true
		for i := 0; i < 32; i++ {
			if enc[i] != ref.RK[i] || dec[i] != ref.RK[31-i] {
				okSched = false
			}
		}
		if !okSched {
			r.Violation("sm4:expandKey", fmt.Sprintf("expandKey(%x) differs from the standard key schedule", key), c05case{Key: vx.Hex(key), Path: "expandKey"})
		}
		if candoAsm {
			var e2, d2 [32]uint32
			kc := append([]byte{}, key...)
			expandKeyAsm(&kc[0], &e2[0], &d2[0])
			r.Eval(1)
			if e2 != enc || d2 != dec || !okSched && false {
				for i := 0; i < 32; i++ {
					if e2[i] != ref.RK[i] || d2[i] != ref.RK[31-i] {
						r.Violation("sm4:expandKeyAsm", fmt.Sprintf("expandKeyAsm(%x) differs from the standard key schedule at word %d", key, i), c05case{Key: vx.Hex(key), Path: "expandKeyAsm"})
						break
					}
				}
			}
			if !bytes.Equal(kc, key) {
				r.Violation("sm4:expandKeyAsm:key-modified", "expandKeyAsm wrote to the key", c05case{Key: vx.Hex(key), Path: "expandKeyAsm"})
			}
		}
		// reference ciphertexts for this key (memoised per block)
		want := make([][16]byte, len(blocks))
		for bi, b := range blocks {
			want[bi] = ref.Encrypt(b)
		}
		// in quick mode the seeded/structured keys see the full block list on every path; one-hot keys see a slice
		for _, path := range paths {
			W := c05widths[path]
			for rot := 0; rot < W; rot++ {
				for start := 0; start < len(blocks); start += W {
					in := make([]byte, 0, 16*W)
					idx := make([]int, W)
					for l := 0; l < W; l++ {
						bi := (start + l + rot*((len(blocks)/W)|1)) % len(blocks)
						idx[l] = bi
						in = append(in, blocks[bi]...)
					}
					for _, alias := range []bool{false, true} {
						if alias && (start/W)%4 != 0 {
							continue
						}
						r.Eval(1)
						var out []byte
						kind, msg := vx.Try(func() { out = c05call(path, &ref.RK, &dec, false, alias, in) })
						// note: the round keys handed to the kernels come from the reference schedule (enc) so that a
						// key-schedule bug and a kernel bug are reported separately
						cs := c05case{vx.Hex(key), path, false, alias, vx.Hex(in)}
						if kind != "" {
							r.Violation("sm4:"+path+":panic", msg, cs)
							continue
						}
						for l := 0; l < W; l++ {
							if !bytes.Equal(out[16*l:16*l+16], want[idx[l]][:]) {
								r.Violation(fmt.Sprintf("sm4:%s:enc:lane%d", path, l), fmt.Sprintf("path %s lane %d: E_k(%x) = %x, GB/T 32907 gives %x", path, l, blocks[idx[l]], out[16*l:16*l+16], want[idx[l]]), cs)
								break
							}
						}
						// decrypt direction: feed the ciphertexts, expect the blocks back
						ct := make([]byte, 0, 16*W)
						for l := 0; l < W; l++ {
							ct = append(ct, want[idx[l]][:]...)
						}
						var rdec [32]uint32
						for i := range rdec {
							rdec[i] = ref.RK[31-i]
						}
						r.Eval(1)
						kind, msg = vx.Try(func() { out = c05call(path, &ref.RK, &rdec, true, alias, ct) })
						cs = c05case{vx.Hex(key), path, true, alias, vx.Hex(ct)}
						if kind != "" {
							r.Violation("sm4:"+path+":panic", msg, cs)
							continue
						}
						if !bytes.Equal(out, in) {
							r.Violation(fmt.Sprintf("sm4:%s:dec", path), fmt.Sprintf("path %s: decryption does not invert encryption", path), cs)
						}
					}
				}
			}
			r.Shape(fmt.Sprintf("k%d:%s", ki, path))
		}
		r.Sample(c05case{Key: vx.Hex(key), Path: "all", In: vx.Hex(blocks[ki%len(blocks)])})
	}
}

func c05one(r *vx.R, c c05case) {
	r.Eval(1)
	key := vx.UnHex(c.Key)
	ref := sm4ref.New(key)
	switch c.Path {
	case "expandKey", "expandKeyAsm":
		var enc, dec [32]uint32
		if c.Path == "expandKey" {
			expandKey(key, &enc, &dec)
		} else {
			expandKeyAsm(&key[0], &enc[0], &dec[0])
		}
		for i := 0; i < 32; i++ {
			if enc[i] != ref.RK[i] || dec[i] != ref.RK[31-i] {
				r.Violation("sm4:"+c.Path, "key schedule differs from the standard", c)
				return
			}
		}
		return
	}
	in := vx.UnHex(c.In)
	var rdec [32]uint32
	for i := range rdec {
		rdec[i] = ref.RK[31-i]
	}
	out := c05call(c.Path, &ref.RK, &rdec, c.Dec, c.Alias, in)
	for l := 0; l*16 < len(in); l++ {
		var w [16]byte
		if c.Dec {
			w = ref.Decrypt(in[16*l:])
		} else {
			w = ref.Encrypt(in[16*l:])
		}
		if !bytes.Equal(out[16*l:16*l+16], w[:]) {
			r.Violation(fmt.Sprintf("sm4:%s:replay:lane%d", c.Path, l), "kernel output differs from GB/T 32907", c)
		}
	}
}

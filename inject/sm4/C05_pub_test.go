//go:build verif

package sm4_test

import (
	"bytes"
	"crypto/cipher"
	"encoding/json"
	"fmt"
	"os"
	"testing"

	"github.com/bilibili/smgo/sm4"
	"verif/refs/sm4ref"
	"verif/vx"
)

type c05pcase struct {
	Op    string // crypt | keylen | keyindep
	Key   string
	Block string
	Mode  string
}

func c05pAlphabet(th bool, role string) [][]byte {
	var out [][]byte
	out = append(out, make([]byte, 16), bytes.Repeat([]byte{0xff}, 16), vx.UnHex("0123456789abcdeffedcba9876543210"))
	for bit := 0; bit < 128; bit++ {
		b := make([]byte, 16)
		b[bit/8] = 1 << uint(7-bit%8)
		out = append(out, b)
	}
	ns := 8
	if th {
		ns = 64
	}
	for i := 0; i < ns; i++ {
		out = append(out, vx.Fill(fmt.Sprintf("c05p%s%d", role, i), 16))
	}
	if role == "k" {
		// keys solved so that single round keys (and windows of them) are all-zero / all-one words
		sk, _ := sm4ref.SpecialScheduleKeys(th)
		out = append(out, sk...)
	}
	return out
}

func c05pEval(r *vx.R, c c05pcase) {
	r.Eval(1)
	key := vx.UnHex(c.Key)
	switch c.Op {
	case "keyreuse":
		return
	case "keylen":
		var err error
		var blk interface{}
		kind, msg := vx.Try(func() { blk, err = sm4.NewCipher(key) })
		if kind != "" {
			r.Violation("sm4:NewCipher:panic", fmt.Sprintf("NewCipher with a %d-byte key panicked: %s", len(key), msg), c)
			return
		}
		if (err == nil) != (len(key) == 16) {
			r.Violation(fmt.Sprintf("sm4:NewCipher:keylen%d:accepted=%v", len(key), err == nil), fmt.Sprintf("NewCipher(%d-byte key): err=%v", len(key), err), c)
		}
		_ = blk
		r.Shape(fmt.Sprintf("keylen:%d", len(key)))
		return
	}
	blk, err := sm4.NewCipher(key)
	if err != nil {
		r.Violation("sm4:NewCipher:error", err.Error(), c)
		return
	}
	ref := sm4ref.New(key)
	if c.Op == "arena" {
		// dst and src are slices of ONE buffer: every pair of 16-byte-aligned and unaligned offsets whose first blocks are
		// disjoint or identical (cipher.Block: "Dst and src must overlap entirely or not at all"), as open-ended slices
		// (running into each other beyond the first block) and as exact 16-byte slices
		in := vx.UnHex(c.Block)
		for _, dec := range []bool{false, true} {
			want := ref.Encrypt(in)
			if dec {
				want = ref.Decrypt(in)
			}
			for _, a := range []int{0, 3, 16, 19, 32, 48} {
				for _, b := range []int{0, 3, 16, 19, 32, 48} {
					if a != b && a-b < 16 && b-a < 16 {
						continue
					}
					for _, open := range []bool{true, false} {
						r.Eval(1)
						buf := vx.Fill("c05arena", 80)
						copy(buf[b:], in)
						before := append([]byte{}, buf...)
						dst, src := buf[a:], buf[b:]
						if !open {
							dst, src = buf[a:a+16], buf[b:b+16]
						}
						name := fmt.Sprintf("dec=%v:dst@%d:src@%d:open=%v", dec, a, b, open)
						kind, msg := vx.Try(func() {
							if dec {
								blk.Decrypt(dst, src)
							} else {
								blk.Encrypt(dst, src)
							}
						})
						if kind != "" {
							r.Violation("sm4:arena:panic", fmt.Sprintf("a legal call on two slices of one buffer panicked (%s): %s", name, msg), c)
							continue
						}
						if !bytes.Equal(buf[a:a+16], want[:]) {
							r.Violation("sm4:arena:wrong", fmt.Sprintf("%s: got %x want %x", name, buf[a:a+16], want), c)
						}
						copy(before[a:], want[:])
						if !bytes.Equal(buf, before) {
							r.Violation("sm4:arena:writes-outside-block", fmt.Sprintf("%s: bytes outside dst[:16] changed", name), c)
						}
					}
				}
			}
		}
		r.Shape("arena:" + c.Key[:8] + ":" + c.Block[:8])
		return
	}
	if c.Op == "keyindep" {
		// the cipher must not depend on the key slice after construction
		for i := range key {
			key[i] ^= 0xa5
		}
	}
	in := vx.UnHex(c.Block)
	want := ref.Encrypt(in)
	if blk.BlockSize() != 16 {
		r.Violation("sm4:BlockSize", "BlockSize != 16", c)
	}
	var src, dst []byte
	switch c.Mode {
	case "alias":
		src = append([]byte{}, in...)
		dst = src
	case "long": // longer slices: only the first block is processed, the rest untouched
		src = append(append([]byte{}, in...), vx.Fill("c05tail", 16)...)
		dst = bytes.Repeat([]byte{0xA5}, 32)
	default:
		src = append([]byte{}, in...)
		dst = make([]byte, 16)
	}
	kind, msg := vx.Try(func() { blk.Encrypt(dst, src) })
	if kind != "" {
		r.Violation("sm4:Encrypt:panic", msg, c)
		return
	}
	if !bytes.Equal(dst[:16], want[:]) {
		r.Violation("sm4:Encrypt:"+c.Op+":"+c.Mode, fmt.Sprintf("Encrypt_k(%x) = %x, GB/T 32907 gives %x", in, dst[:16], want), c)
	}
	if c.Mode == "long" && !bytes.Equal(dst[16:], bytes.Repeat([]byte{0xA5}, 16)) {
		r.Violation("sm4:Encrypt:writes-beyond-block", "Encrypt wrote past the first block of dst", c)
	}
	if c.Mode != "alias" && !bytes.Equal(src[:16], in) {
		r.Violation("sm4:Encrypt:src-modified", "Encrypt modified src", c)
	}
	// decrypt inverts
	back := make([]byte, 16)
	ct := append([]byte{}, want[:]...)
	if c.Mode == "alias" {
		back = ct
	}
	kind, msg = vx.Try(func() { blk.Decrypt(back, ct) })
	if kind != "" {
		r.Violation("sm4:Decrypt:panic", msg, c)
		return
	}
	if !bytes.Equal(back, in) {
		r.Violation("sm4:Decrypt:"+c.Op+":"+c.Mode, fmt.Sprintf("Decrypt_k(E_k(%x)) = %x", in, back), c)
	}
	r.Shape(c.Op + ":" + c.Mode + ":" + c.Key[:8] + ":" + c.Block[:8])
}

func TestVX_C05_Public(t *testing.T) {
	r := vx.Begin("C05", c05part(), "public Block API (whichever implementation NewCipher selects on this CPU): keys x blocks alphabet through Encrypt/Decrypt with dst!=src, dst==src and over-long slices; dst and src cut from one 80-byte buffer at every pair of offsets {0,3,16,19,32,48} with disjoint or identical first blocks, open-ended and exact, Encrypt and Decrypt, bytes outside dst[:16] unchanged; key slice overwritten after construction; NewCipher with every key length 0..64 (only 16 accepted). Oracle sm4ref")
	defer r.End()
	selfCheck()
	if raw, ok := vx.Replay(c05part()); ok {
		var c c05pcase
		json.Unmarshal(raw, &c)
		c05pEval(r, c)
		return
	}
	th := vx.Thorough()
	keys := c05pAlphabet(th, "k")
	blocks := c05pAlphabet(th, "b")
	n := 0
	for ki, k := range keys {
		for bi, b := range blocks {
			if !th && ki >= 3 && ki < 131 && bi >= 3 && bi < 131 && (ki+bi)%8 != 0 {
				continue // quick: one-hot x one-hot is thinned
			}
			n++
			if !vx.MineIdx(n) {
				continue
			}
			mode := []string{"plain", "alias", "long"}[(ki+bi)%3]
			c := c05pcase{"crypt", vx.Hex(k), vx.Hex(b), mode}
			c05pEval(r, c)
			r.Sample(c)
		}
		if vx.MineIdx(ki) {
			c05pEval(r, c05pcase{"keyindep", vx.Hex(k), vx.Hex(blocks[ki%len(blocks)]), "plain"})
		}
	}
	// dst and src cut from one buffer
	for ki := 0; ki < len(keys); ki += 9 {
		n++
		if vx.MineIdx(n) {
			c05pEval(r, c05pcase{"arena", vx.Hex(keys[ki]), vx.Hex(blocks[(ki+5)%len(blocks)]), "arena"})
		}
	}
	// sequences on one key buffer: the caller refills (or wipes) the slice it passed to NewCipher and builds another cipher
	if vx.MineIdx(0) {
		for i := 0; i+1 < len(keys); i += 7 {
			r.Eval(1)
			k1, k2 := keys[i], keys[(i+1)%len(keys)]
			buf := append([]byte{}, k1...)
			c1, err1 := sm4.NewCipher(buf)
			copy(buf, k2)
			c2, err2 := sm4.NewCipher(buf)
			for j := range buf {
				buf[j] = 0
			}
			c3, err3 := sm4.NewCipher(buf)
			c4, err4 := sm4.NewCipher(append([]byte{}, k1...))
			cs := c05pcase{Op: "keyreuse", Key: vx.Hex(k1), Block: vx.Hex(k2)}
			if err1 != nil || err2 != nil || err3 != nil || err4 != nil {
				r.Violation("sm4:NewCipher:error", "NewCipher failed in a key-buffer reuse sequence", cs)
				continue
			}
			blk := blocks[i%len(blocks)]
			for ci, pair := range []struct {
				c   cipher.Block
				key []byte
			}{{c1, k1}, {c2, k2}, {c3, make([]byte, 16)}, {c4, k1}} {
				out := make([]byte, 16)
				pair.c.Encrypt(out, blk)
				want := sm4ref.New(pair.key).Encrypt(blk)
				if !bytes.Equal(out, want[:]) {
					r.Violation("sm4:NewCipher:key-buffer-reuse", fmt.Sprintf("cipher #%d of the sequence NewCipher(buf=k1); refill buf=k2; NewCipher(buf); wipe buf; NewCipher(buf); NewCipher(copy of k1) does not encrypt under its own key", ci+1), cs)
				}
			}
			r.Shape(fmt.Sprintf("keyreuse:%d", i))
		}
	}
	if vx.MineIdx(0) {
		for l := 0; l <= 64; l++ {
			c05pEval(r, c05pcase{Op: "keylen", Key: vx.Hex(vx.Fill("c05keylen", l))})
		}
	}
}

func c05part() string {
	if p := os.Getenv("VX_PART"); p != "" {
		return p
	}
	return "block-public"
}

//go:build verif

package sm4_test

import (
	"bytes"
	"encoding/binary"
	"encoding/json"
	"fmt"
	"testing"

	"verif/guard"
	"verif/refs/gcmref"
	"verif/vx"
)

type c06case struct {
	Key    string // key name
	Nonce  string // hex (explicit) - empty means derived from NonceLen
	NLen   int
	PtLen  int
	AadLen int
	Tag    int
	Group  string
	// placement (group "placement"): the named argument ends Cross bytes after (negative: before) the boundary between
	// two accessible pages
	CrossArg string
	Cross    int
}

var c06arena *guard.Arena

func (c c06case) nonce() []byte {
	if c.Nonce != "" {
		return vx.UnHex(c.Nonce)
	}
	return fillLen("nonce", c.NLen)
}

func lenClass(n int) string {
	// which kernels of the 256/128/64/32/16 ladder run, and the tail length
	return fmt.Sprintf("x256:%d,x128:%d,x64:%d,x32:%d,x16:%d,tail:%d", n/256, n%256/128, n%128/64, n%64/32, n%32/16, n%16)
}

func c06eval(r *vx.R, c c06case) {
	key := keyByName(c.Key)
	nonce := c.nonce()
	pt := fillLen("pt", c.PtLen)
	aad := fillLen("aad", c.AadLen)
	a, path, err := newAEAD(key, len(nonce), c.Tag)
	if err != nil {
		r.Add("unsupported_on_this_path", 1)
		return
	}
	r.Eval(1)
	pollute()
	want := gcmref.Seal(refCipher(key), nonce, pt, aad, c.Tag)
	// every input is a slice of a larger record: non-zero bytes follow it inside its capacity (as when a nonce or a header
	// is cut out of a packet); they are not part of the input and must neither be used nor changed
	junk := func(b []byte, tag string) ([]byte, []byte) {
		rec := append(append([]byte{}, b...), vx.Fill("junk"+tag, 40)...)
		for i := len(b); i < len(rec); i++ {
			rec[i] |= 0x81
		}
		return rec[:len(b)], rec
	}
	var recN, recP, recA []byte
	nonce, recN = junk(nonce, "n")
	pt, recP = junk(pt, "p")
	aad, recA = junk(aad, "a")
	if c.CrossArg != "" {
		if c06arena == nil {
			c06arena = guard.New(2)
		}
		at := func(b []byte) []byte {
			if c.Cross == 1<<20 {
				return c06arena.Head(b)
			}
			if c.Cross == 1<<21 {
				return c06arena.Tail(b)
			}
			off := guard.Page + c.Cross - len(b)
			if off < 0 {
				off = 0
			}
			return c06arena.At(b, off)
		}
		switch c.CrossArg {
		case "aad":
			aad = at(aad)
		case "pt":
			pt = at(pt)
		case "nonce":
			nonce = at(nonce)
		}
	}
	keepRN, keepRP, keepRA := append([]byte{}, recN...), append([]byte{}, recP...), append([]byte{}, recA...)
	keepN, keepP, keepA := append([]byte{}, nonce...), append([]byte{}, pt...), append([]byte{}, aad...)
	var got []byte
	kind, msg := vx.TryFault(func() { got = a.Seal(nil, nonce, pt, aad) })
	if kind != "" {
		r.Violation("seal:panic:"+c.Group, fmt.Sprintf("Seal panicked (%s) pt=%d aad=%d nonce=%d tag=%d: %s", kind, c.PtLen, c.AadLen, len(nonce), c.Tag, msg), c)
		return
	}
	if !bytes.Equal(got, want) {
		what := "ciphertext"
		if len(got) == len(want) && bytes.Equal(got[:c.PtLen], want[:c.PtLen]) {
			what = "tag"
		} else if len(got) != len(want) {
			what = "length"
		}
		r.Violation(fmt.Sprintf("seal:wrong-%s:%s", what, c.Group), fmt.Sprintf("Seal(pt=%d [%s], aad=%d, nonce=%d, tag=%d, key=%s, path=%s) differs from SP 800-38D in the %s:\n got %x\nwant %x", c.PtLen, lenClass(c.PtLen), c.AadLen, len(nonce), c.Tag, c.Key, path, what, trunc(got), trunc(want)), c)
	}
	if !bytes.Equal(nonce, keepN) || !bytes.Equal(pt, keepP) || !bytes.Equal(aad, keepA) {
		r.Violation("seal:input-modified", "Seal modified nonce, plaintext or aad", c)
	}
	if !bytes.Equal(recN, keepRN) || !bytes.Equal(recP, keepRP) || !bytes.Equal(recA, keepRA) {
		r.Violation("seal:writes-behind-input", "Seal changed bytes that follow an input inside its capacity", c)
	}
	// the same message appended to a destination that already holds data and has no room (the result needs a new buffer,
	// into which those bytes are carried over): prefix lengths run through the residues of 64- and 128-byte copy loops
	if c.PtLen <= 4200 && (c.PtLen+2*c.AadLen)%5 == 0 {
		r.Eval(1)
		pl := []int{1, 17, 63, 65, 100, 127, 129, 193, 255, 257, 320, 449, 1000, 1025, 4097}[(c.PtLen/5+c.AadLen)%15]
		prefix := vx.Fill("c06prefix", pl)
		dst := append(make([]byte, 0, pl), prefix...)
		var got2 []byte
		kind, msg := vx.TryFault(func() { got2 = a.Seal(dst, nonce, pt, aad) })
		if kind != "" {
			r.Violation("seal:panic:append-to-full-dst", fmt.Sprintf("Seal panicked (%s) with a %d-byte destination without room: %s", kind, pl, msg), c)
		} else if len(got2) != pl+len(want) || !bytes.Equal(got2[:pl], prefix) || !bytes.Equal(got2[pl:], want) {
			what := "output"
			if len(got2) >= pl && !bytes.Equal(got2[:pl], prefix) {
				what = "prefix"
			}
			r.Violation("seal:append-to-full-dst:"+what, fmt.Sprintf("Seal(dst of %d bytes without room, pt=%d, aad=%d): the result is not dst followed by the SP 800-38D output (wrong %s) [%s]", pl, c.PtLen, c.AadLen, what, path), c)
		}
	}
	// the same message sealed the way a record layer does it: one buffer header|payload|room, dst = additional data =
	// header, payload encrypted in place behind it
	if c.AadLen > 0 && c.PtLen <= 4200 && (c.PtLen+c.AadLen)%3 == 0 {
		r.Eval(1)
		rec := make([]byte, c.AadLen+c.PtLen, c.AadLen+c.PtLen+c.Tag)
		copy(rec, aad)
		copy(rec[c.AadLen:], pt)
		var got2 []byte
		kind, msg := vx.TryFault(func() { got2 = a.Seal(rec[:c.AadLen], nonce, rec[c.AadLen:], rec[:c.AadLen]) })
		if kind != "" {
			r.Violation("seal:panic:record-layout", fmt.Sprintf("Seal(rec[:hdr], nonce, rec[hdr:], rec[:hdr]) panicked (%s) hdr=%d payload=%d: %s", kind, c.AadLen, c.PtLen, msg), c)
		} else if !bytes.Equal(got2, append(append([]byte{}, aad...), want...)) {
			r.Violation("seal:wrong:record-layout", fmt.Sprintf("Seal(rec[:hdr], nonce, rec[hdr:], rec[:hdr]) hdr=%d payload=%d path=%s is not header||SP 800-38D output", c.AadLen, c.PtLen, path), c)
		}
	}
	r.Shape(fmt.Sprintf("%s:%s:pt%d:aad%d:n%d:t%d:%s", c.Group, c.Key, c.PtLen, c.AadLen, len(nonce), c.Tag, path))
}

func trunc(b []byte) []byte {
	if len(b) > 80 {
		return b[len(b)-80:]
	}
	return b
}

var lenClasses = []int{0, 1, 15, 16, 17, 63, 64, 65, 127, 128, 129, 255, 1100}

func c06enumerate(emit func(c c06case)) {
	th := vx.Thorough()
	keys := []string{"std"}
	// (a) every plaintext length x aad classes; (b) every aad length x plaintext classes
	for l := 0; l <= 1100; l++ {
		for _, o := range lenClasses {
			k := keys[0]
			if (l+o)%5 == 0 {
				k = "zero"
			} else if (l+o)%5 == 1 {
				k = "s1"
			}
			emit(c06case{Key: k, NLen: 12, PtLen: l, AadLen: o, Tag: 16, Group: "ptlen"})
			emit(c06case{Key: k, NLen: 12, PtLen: o, AadLen: l, Tag: 16, Group: "aadlen"})
		}
	}
	// (c) thorough: the full square
	if th {
		for p := 0; p <= 1100; p++ {
			for a := 0; a <= 1100; a++ {
				emit(c06case{Key: "s2", NLen: 12, PtLen: p, AadLen: a, Tag: 16, Group: "square"})
			}
		}
	}
	// (d) nonce lengths
	for nl := 1; nl <= 300; nl++ {
		for _, p := range []int{0, 1, 16, 17, 255} {
			for _, a := range []int{0, 1, 16, 17, 255} {
				if !th && (p+a)%2 == 1 && nl > 40 && nl%16 > 1 {
					continue
				}
				emit(c06case{Key: "std", NLen: nl, PtLen: p, AadLen: a, Tag: 16, Group: "noncelen"})
			}
		}
	}
	// (e) tag sizes
	for tag := 12; tag <= 16; tag++ {
		for l := 0; l <= 1100; l++ {
			if !th && l > 300 && l%7 != 0 {
				continue
			}
			emit(c06case{Key: "s3", NLen: 12, PtLen: l, AadLen: l % 40, Tag: tag, Group: "tag"})
		}
		for _, nl := range []int{1, 13, 16, 128} {
			emit(c06case{Key: "s3", NLen: nl, PtLen: 33, AadLen: 5, Tag: tag, Group: "tag"})
		}
	}
	// (h) placement: the argument's end at every offset -15..16 around the boundary between two mapped pages (code that
	// treats "near a page boundary" specially), for every short length
	for _, arg := range []string{"aad", "pt", "nonce"} {
		for cross := -15; cross <= 16; cross++ {
			for l := 1; l <= 50; l++ {
				if !th && l > 34 && l%5 != 0 {
					continue
				}
				c := c06case{Key: "s6", NLen: 12, PtLen: 21, AadLen: 9, Tag: 16, Group: "placement:" + arg, CrossArg: arg, Cross: cross}
				switch arg {
				case "aad":
					c.AadLen = l
				case "pt":
					c.PtLen = l
				case "nonce":
					if l == 12 {
						continue
					}
					c.NLen = l
				}
				emit(c)
			}
		}
	}
	// (i) placement: the argument STARTS right behind an inaccessible page (Cross = 1<<20 marks it) or ends right in front
	// of one (Cross = 1<<21): a read in front of or behind the argument faults, for every short length
	for _, arg := range []string{"aad", "pt", "nonce"} {
		for _, edge := range []int{1 << 20, 1 << 21} {
			for l := 1; l <= 70; l++ {
				c := c06case{Key: "s6", NLen: 12, PtLen: 21, AadLen: 9, Tag: 16, Group: "placement-edge:" + arg, CrossArg: arg, Cross: edge}
				switch arg {
				case "aad":
					c.AadLen = l
				case "pt":
					c.PtLen = l
				case "nonce":
					if l == 12 {
						continue
					}
					c.NLen = l
				}
				emit(c)
				if arg == "pt" && l <= 20 {
					for _, tag := range []int{12, 13, 15} {
						c.Tag = tag
						emit(c)
					}
				}
			}
		}
	}
	// (g) large messages: lengths around 2^11, 2^12, 2^13, 2^16 (and 2^20 in the thorough tier), as plaintext and as aad
	large := []int{2047, 2048, 2049, 4095, 4096, 4097, 8192, 8192 + 255, 16384 + 5, 65535, 65536, 65537}
	if th {
		large = append(large, 1<<20-1, 1<<20, 1<<20+17)
	}
	for _, l := range large {
		for _, o := range []int{0, 13} {
			for _, nl := range []int{12, 16} {
				emit(c06case{Key: "s5", NLen: nl, PtLen: l, AadLen: o, Tag: 16, Group: "large-pt"})
				emit(c06case{Key: "s5", NLen: nl, PtLen: o + 20, AadLen: l, Tag: 16, Group: "large-aad"})
			}
		}
		emit(c06case{Key: "std", NLen: 12, PtLen: l, AadLen: l, Tag: 12, Group: "large-both"})
	}
	// (h) additional data / plaintext / nonce of every length 1..50 ending at every offset -15..16 around the boundary between two mapped pages; (f) counter wrap: solve the nonce so that J0 mod 2^32 = 2^32 - j
	for _, kn := range []string{"std", "s4"} {
		ref := refCipher(keyByName(kn))
		h := gcmref.H(ref)
		for _, nl := range []int{16, 17, 32, 128} {
			if !th && nl != 16 && nl != 128 {
				continue
			}
			for j := 0; j <= 40; j++ {
				var want gcmref.Block
				copy(want[:], vx.Fill(fmt.Sprintf("j0%d", nl), 12))
				binary.BigEndian.PutUint32(want[12:], uint32(0)-uint32(j))
				nonce := gcmref.SolveNonce(h, want, nl, vx.Fill("noncerest", nl-16))
				if gcmref.J0(h, nonce) != want {
					panic("harness: SolveNonce did not reach the wanted J0")
				}
				for _, p := range []int{16, 32, 64, 128, 256, 272, 512, 600, 1100} {
					if !th && j > 20 && p != 1100 && p != 272 {
						continue
					}
					emit(c06case{Key: kn, Nonce: vx.Hex(nonce), PtLen: p, AadLen: 3, Tag: 16, Group: fmt.Sprintf("wrap:j%d", j)})
				}
			}
		}
	}
}

func TestVX_C06(t *testing.T) {
	r := vx.Begin("C06", partName(), "Seal vs gcmref(sm4ref) (bit-serial GF(2^128), SP 800-38D algorithms 1-5): (a) every plaintext length 0..1100 x aad classes {0,1,15,16,17,63,64,65,127,128,129,255,1100}; (b) every aad length 0..1100 x the same plaintext classes; (c, thorough) the full 1101x1101 square; (d) nonce lengths 1..300 x {0,1,16,17,255}^2; (e) tag sizes 12..16; (g) large messages: plaintext resp. aad lengths {2047,2048,2049,4095,4096,4097,8192,8447,16389,65535,65536,65537} [thorough: also 2^20-1, 2^20, 2^20+17] x small other part x nonce {12,16}, and both large; (f) counter wrap: nonces of length 16/17/32/128 *solved* by field inversion so that J0 mod 2^32 = 2^32-j, j=0..40, x plaintext lengths that put the wrap inside every kernel width and the tail. Keys {standard sample, zero, seeded}. Every input is the head of a longer record whose following bytes are non-zero (capacity beyond length). A third of the cases with additional data is sealed a second time in the record layout (one buffer header|payload|room: dst = additional data = header, payload in place). Shape=(group, key, ptlen, aadlen, noncelen, tag, path)")
	defer r.End()
	selfCheck()
	if raw, ok := vx.Replay(partName()); ok {
		var c c06case
		json.Unmarshal(raw, &c)
		c06eval(r, c)
		return
	}
	n := 0
	c06enumerate(func(c c06case) {
		n++
		if !vx.MineIdx(n) {
			return
		}
		if r.Expired() {
			return
		}
		c06eval(r, c)
		r.Sample(c)
	})
	lifetimeCases(r, "seal", func() bool { n++; return vx.MineIdx(n) })
}

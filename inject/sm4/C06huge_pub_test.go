//go:build verif

package sm4_test

import (
	"bytes"
	"fmt"
	"syscall"
	"testing"

	"verif/refs/gcmref"
	"verif/vx"
)

type c06hugeCase struct {
	What   string
	AadLen uint64
	PtLen  uint64
	NLen   int
	Tag    int
}

// zeroPages maps n bytes of untouched anonymous memory: reading it never allocates (the kernel backs it with its zero
// page), so additional data of half a gigabyte costs no memory.
func zeroPages(n int) []byte {
	b, err := syscall.Mmap(-1, 0, n, syscall.PROT_READ, syscall.MAP_ANON|syscall.MAP_PRIVATE)
	if err != nil {
		panic("harness: mmap: " + err.Error())
	}
	return b
}

// TestVX_C06Huge: lengths at which the 64-bit bit counts of the GHASH length block cross 2^32.
func TestVX_C06Huge(t *testing.T) {
	r := vx.Begin("C06", partName(), "Seal and Open with additional data of L zero bytes, L in {2^29-1, 2^29, 2^29+17} [thorough: also 2^30, and a zero plaintext of 2^29 and 2^29+17 bytes], nonce 12 and 16 bytes, tags 16 and 12; oracle: gcmref with the zero-AAD shortcut (GHASH of all-zero blocks is zero; only the length block sees the AAD), [thorough, plaintext case] the standard library's generic GCM over sm4ref cross-checked against gcmref on a short prefix")
	defer r.End()
	selfCheck()
	key := keyByName("std")
	ls := []uint64{1<<29 - 1, 1 << 29, 1<<29 + 17}
	if vx.Thorough() {
		ls = append(ls, 1<<30)
	}
	n := 0
	for _, l := range ls {
		for _, nl := range []int{12, 16} {
			for _, tag := range []int{16, 12} {
				n++
				if !vx.MineIdx(n) {
					continue
				}
				if nl == 16 && tag == 12 {
					continue
				}
				cs := c06hugeCase{"zero-aad", l, 19, nl, tag}
				a, path, err := newAEAD(key, nl, tag)
				if err != nil {
					r.Add("unsupported_on_this_path", 1)
					continue
				}
				aad := zeroPages(int(l))
				nonce, pt := fillLen("nonce", nl), fillLen("pt", 19)
				want := gcmref.SealZeroAAD(refCipher(key), nonce, pt, l, tag)
				r.Eval(2)
				var got []byte
				kind, msg := vx.Try(func() { got = a.Seal(nil, nonce, pt, aad) })
				if kind != "" {
					r.Violation("seal:huge:panic", fmt.Sprintf("Seal panicked with %d bytes of additional data: %s", l, msg), cs)
				} else if !bytes.Equal(got, want) {
					r.Violation("seal:huge:wrong-tag:aad", fmt.Sprintf("Seal(pt=19, aad=%d zero bytes, nonce=%d, tag=%d, path=%s) = %x, SP 800-38D gives %x", l, nl, tag, path, got, want), cs)
				}
				var back []byte
				var oerr error
				kind, msg = vx.Try(func() { back, oerr = a.Open(nil, nonce, want, aad) })
				if kind != "" {
					r.Violation("open:huge:panic", fmt.Sprintf("Open panicked with %d bytes of additional data: %s", l, msg), cs)
				} else if oerr != nil || !bytes.Equal(back, pt) {
					r.Violation("open:huge:rejects-authentic:aad", fmt.Sprintf("Open rejected an authentic message with %d zero bytes of additional data (nonce=%d, tag=%d, path=%s): %v", l, nl, tag, path, oerr), cs)
				}
				syscall.Munmap(aad)
				r.Shape(fmt.Sprintf("aad:%d:n%d:t%d:%s", l, nl, tag, path))
				r.Sample(cs)
			}
		}
	}
	if vx.Thorough() {
		for _, l := range []uint64{1 << 29, 1<<29 + 17} {
			n++
			if !vx.MineIdx(n) {
				continue
			}
			cs := c06hugeCase{"zero-pt", 5, l, 12, 16}
			a, path, err := newAEAD(key, 12, 16)
			if err != nil {
				continue
			}
			fast := fastRef(key, 12, 16)
			nonce, aad := fillLen("nonce", 12), fillLen("aad", 5)
			// harness check: the fast reference agrees with gcmref on a prefix
			if !bytes.Equal(fast.Seal(nil, nonce, make([]byte, 1000), aad), gcmref.Seal(refCipher(key), nonce, make([]byte, 1000), aad, 16)) {
				panic("harness: fast reference disagrees with gcmref")
			}
			pt := zeroPages(int(l))
			want := fast.Seal(nil, nonce, pt, aad)
			r.Eval(2)
			var got []byte
			kind, msg := vx.Try(func() { got = a.Seal(nil, nonce, pt, aad) })
			if kind != "" {
				r.Violation("seal:huge:panic", fmt.Sprintf("Seal panicked with a %d-byte plaintext: %s", l, msg), cs)
			} else if !bytes.Equal(got, want) {
				where := "tag"
				if !bytes.Equal(got[:len(got)-16], want[:len(want)-16]) {
					where = "ciphertext"
				}
				r.Violation("seal:huge:wrong-"+where+":pt", fmt.Sprintf("Seal of a %d-byte zero plaintext (path=%s) differs from SP 800-38D in the %s", l, path, where), cs)
			}
			var oerr error
			kind, msg = vx.Try(func() { _, oerr = a.Open(got[:0], nonce, want, aad) })
			if kind != "" {
				r.Violation("open:huge:panic", msg, cs)
			} else if oerr != nil {
				r.Violation("open:huge:rejects-authentic:pt", fmt.Sprintf("Open rejected an authentic %d-byte message: %v", l, oerr), cs)
			}
			syscall.Munmap(pt)
			r.Shape(fmt.Sprintf("pt:%d:%s", l, path))
			r.Sample(cs)
		}
	}
}

type c07hugeCase struct {
	What string
	Len  uint64
	NLen int
	Tag  int
}

// TestVX_C07Huge: byte lengths of 2^32 and more - where a length kept in 32 bits wraps to a small number. Nothing is
// allocated: the long parts are untouched anonymous mappings (the kernel's zero page).
func TestVX_C07Huge(t *testing.T) {
	r := vx.Begin("C07", partName(), "Open with byte lengths beyond 2^32: (a) an authentic message ct||tag (plaintext 1, 33 [thorough: 0, 1, 16, 33] bytes) followed by 2^32 [thorough: and 2^33] zero bytes, given as one ciphertext - the tag is no longer at the end and the message must be rejected (accepting it needs a GHASH collision); (b) additional data of 2^32+5 zero bytes: the authentic message for that length (gcmref zero-AAD shortcut) is accepted, the authentic message for 5 zero bytes of additional data is rejected, and with 5 bytes of additional data the other way round. Nonce 12/16, tags 16/12")
	defer r.End()
	selfCheck()
	key := keyByName("std")
	n := 0
	extras := []uint64{1 << 32}
	if vx.Thorough() {
		extras = append(extras, 1<<33)
	}
	for _, extra := range extras {
		for _, pl := range []int{0, 1, 16, 33} {
			for _, par := range [][2]int{{12, 16}, {12, 12}, {16, 16}} {
				if !vx.Thorough() && (pl == 0 || pl == 16 || par[1] == 12) {
					continue
				}
				n++
				if !vx.MineIdx(n) {
					continue
				}
				nl, tag := par[0], par[1]
				a, path, err := newAEAD(key, nl, tag)
				if err != nil {
					r.Add("unsupported_on_this_path", 1)
					continue
				}
				r.Eval(1)
				cs := c07hugeCase{"authentic-message-plus-appended-zeros", extra + uint64(pl+tag), nl, tag}
				nonce, pt, aad := fillLen("nonce", nl), fillLen("pt", pl), fillLen("aad", 5)
				sealed := gcmref.Seal(refCipher(key), nonce, pt, aad, tag)
				big, err := syscall.Mmap(-1, 0, int(extra)+len(sealed), syscall.PROT_READ|syscall.PROT_WRITE, syscall.MAP_ANON|syscall.MAP_PRIVATE|syscall.MAP_NORESERVE)
				if err != nil {
					r.NotExhaustive(fmt.Sprintf("no address space for a %d-byte ciphertext", int(extra)+len(sealed)))
					continue
				}
				copy(big, sealed)
				var out []byte
				var oerr error
				kind, msg := vx.Try(func() { out, oerr = a.Open(nil, nonce, big, aad) })
				if kind != "" {
					r.Violation("open:huge:panic", fmt.Sprintf("Open panicked on a %d-byte ciphertext: %s", len(big), msg), cs)
				} else if oerr == nil {
					r.Violation("open:huge:accepts-appended-bytes", fmt.Sprintf("Open accepted an authentic %d-byte message with %d zero bytes appended (ciphertext length %d >= 2^32; nonce=%d, tag=%d, path=%s) and returned %d bytes", len(sealed), extra, len(big), nl, tag, path, len(out)), cs)
				}
				syscall.Munmap(big)
				r.Shape(fmt.Sprintf("appended:%d:pl%d:n%d:t%d:%s", extra, pl, nl, tag, path))
				r.Sample(cs)
			}
		}
	}
	// (c) additional data of 2^31+37, 2^32-16+3 and 2^32+21 bytes whose first block is not zero (all-zero additional data
	// keeps GHASH at zero however many blocks are skipped): the authentic message for it is accepted; the same message is
	// rejected when one bit of the first block of the additional data is flipped, and when the additional data is cut to
	// its length mod 2^32 or mod 2^31
	{
		var first gcmref.Block
		copy(first[:], vx.Fill("c07huge-first", 16))
		if !bytes.Equal(gcmref.SealSparseAAD(refCipher(key), make([]byte, 12), []byte("abc"), first, 100, 16), gcmref.Seal(refCipher(key), make([]byte, 12), []byte("abc"), append(append([]byte{}, first[:]...), make([]byte, 84)...), 16)) {
			panic("harness: sparse-AAD shortcut disagrees with gcmref")
		}
		for _, L := range []uint64{1<<31 + 37, 1<<32 - 16 + 3, 1<<32 + 21} {
			for _, par := range [][2]int{{12, 16}, {16, 12}} {
				n++
				if !vx.MineIdx(n) {
					continue
				}
				nl, tag := par[0], par[1]
				a, path, err := newAEAD(key, nl, tag)
				if err != nil {
					r.Add("unsupported_on_this_path", 1)
					continue
				}
				r.Eval(4)
				cs := c07hugeCase{"sparse-aad", L, nl, tag}
				nonce, pt := fillLen("nonce", nl), fillLen("pt", 19)
				sealed := gcmref.SealSparseAAD(refCipher(key), nonce, pt, first, L, tag)
				aad, err := syscall.Mmap(-1, 0, int(L), syscall.PROT_READ|syscall.PROT_WRITE, syscall.MAP_ANON|syscall.MAP_PRIVATE|syscall.MAP_NORESERVE)
				if err != nil {
					r.NotExhaustive(fmt.Sprintf("no address space for %d bytes of additional data", L))
					continue
				}
				copy(aad, first[:])
				try := func(name string, ad []byte, accept bool) {
					var back []byte
					var oerr error
					kind, msg := vx.Try(func() { back, oerr = a.Open(nil, nonce, sealed, ad) })
					switch {
					case kind != "":
						r.Violation("open:huge:panic", fmt.Sprintf("%s: %s", name, msg), cs)
					case accept && (oerr != nil || !bytes.Equal(back, pt)):
						r.Violation("open:huge:rejects-authentic:aad", fmt.Sprintf("%s (additional data %d bytes, nonce=%d, tag=%d, path=%s): authentic message rejected: %v", name, L, nl, tag, path, oerr), cs)
					case !accept && oerr == nil:
						r.Violation("open:huge:accepts-modified-aad", fmt.Sprintf("%s (additional data %d bytes, nonce=%d, tag=%d, path=%s): accepted", name, L, nl, tag, path), cs)
					}
				}
				try("authentic", aad, true)
				aad[3] ^= 0x40
				try("one bit of the first block of the additional data flipped", aad, false)
				aad[3] ^= 0x40
				for _, bits := range []uint{32, 31} {
					if cut := L & (1<<bits - 1); cut != L {
						try(fmt.Sprintf("additional data cut to its length mod 2^%d", bits), aad[:cut], false)
					}
				}
				syscall.Munmap(aad)
				r.Shape(fmt.Sprintf("sparse-aad:%d:n%d:t%d:%s", L, nl, tag, path))
				r.Sample(cs)
			}
		}
	}
	for _, par := range [][2]int{{12, 16}, {12, 12}, {16, 16}} {
		n++
		if !vx.MineIdx(n) {
			continue
		}
		nl, tag := par[0], par[1]
		a, path, err := newAEAD(key, nl, tag)
		if err != nil {
			r.Add("unsupported_on_this_path", 1)
			continue
		}
		r.Eval(4)
		L := uint64(1<<32 + 5)
		cs := c07hugeCase{"zero-aad", L, nl, tag}
		nonce, pt := fillLen("nonce", nl), fillLen("pt", 19)
		forLong := gcmref.SealZeroAAD(refCipher(key), nonce, pt, L, tag)
		forShort := gcmref.SealZeroAAD(refCipher(key), nonce, pt, 5, tag)
		if !bytes.Equal(forShort, gcmref.Seal(refCipher(key), nonce, pt, make([]byte, 5), tag)) {
			panic("harness: zero-AAD shortcut disagrees with gcmref")
		}
		long := zeroPages(int(L))
		short := make([]byte, 5)
		type tc struct {
			name   string
			ct     []byte
			aad    []byte
			accept bool
		}
		for _, c := range []tc{{"long-aad:own-message", forLong, long, true}, {"long-aad:message-for-5-bytes", forShort, long, false},
			{"short-aad:own-message", forShort, short, true}, {"short-aad:message-for-2^32+5-bytes", forLong, short, false}} {
			var back []byte
			var oerr error
			kind, msg := vx.Try(func() { back, oerr = a.Open(nil, nonce, c.ct, c.aad) })
			switch {
			case kind != "":
				r.Violation("open:huge:panic", fmt.Sprintf("%s: %s", c.name, msg), cs)
			case c.accept && (oerr != nil || !bytes.Equal(back, pt)):
				r.Violation("open:huge:rejects-authentic:aad", fmt.Sprintf("%s (nonce=%d, tag=%d, path=%s): authentic message rejected: %v", c.name, nl, tag, path, oerr), cs)
			case !c.accept && oerr == nil:
				r.Violation("open:huge:accepts-wrong-aad-length", fmt.Sprintf("%s (nonce=%d, tag=%d, path=%s): a message authenticated for additional data of another length (congruent mod 2^32) was accepted", c.name, nl, tag, path), cs)
			}
		}
		syscall.Munmap(long)
		r.Shape(fmt.Sprintf("aad:%d:n%d:t%d:%s", L, nl, tag, path))
		r.Sample(cs)
	}
}

//go:build verif

package sm4_test

import (
	"bytes"
	"crypto/cipher"
	"encoding/json"
	"fmt"
	"testing"

	"github.com/bilibili/smgo/sm4"
	"verif/guard"
	"verif/refs/gcmref"
	"verif/vx"
)

// refBlock adapts sm4ref to cipher.Block so that the standard library's generic GCM (trusted base, cross-checked
// against gcmref on every base message) can serve as the fast reference for the millions of mutated inputs.
// refOpen decides authenticity. fast may be nil (then gcmref is used).
func refOpen(fast cipher.AEAD, key, nonce, ct, aad []byte, tag int) ([]byte, bool) {
	if fast != nil && len(nonce) == fast.NonceSize() {
		pt, err := fast.Open(nil, nonce, ct, aad)
		return pt, err == nil
	}
	return gcmref.Open(refCipher(key), nonce, ct, aad, tag)
}

var c07arena *guard.Arena

type c07case struct {
	Key             string
	Nonce, CT, AAD  string // the (possibly mutated) inputs
	Tag             int
	Mut             string
	DstSpare        bool
	PlainForLeakChk string
}

func c07eval(r *vx.R, c c07case, fast cipher.AEAD) {
	key := keyByName(c.Key)
	nonce, ct, aad := vx.UnHex(c.Nonce), vx.UnHex(c.CT), vx.UnHex(c.AAD)
	if fast == nil {
		fast = fastRef(key, len(nonce), c.Tag)
	}
	a, path, err := newAEAD(key, len(nonce), c.Tag)
	if err != nil {
		r.Add("unsupported_on_this_path", 1)
		return
	}
	r.Eval(1)
	pollute()
	wantPt, wantOK := refOpen(fast, key, nonce, ct, aad, c.Tag)
	var dst []byte
	if c.DstSpare {
		dst = bytes.Repeat([]byte{0xA5}, len(ct)+32)[:0]
	}
	ctCopy := append([]byte{}, ct...)
	if len(ct) <= 8000 {
		// the ciphertext ends exactly at the end of mapped memory (the spare-capacity variants: starts right behind an
		// inaccessible page): reading a tag shorter than 16 bytes with a 16-byte load, or the ciphertext in whole blocks,
		// faults here and nowhere else
		if c07arena == nil {
			c07arena = guard.New(3)
		}
		if c.DstSpare {
			ctCopy = c07arena.Head(ct)
		} else {
			ctCopy = c07arena.Tail(ct)
		}
	}
	var got []byte
	var gerr error
	kind, msg := vx.TryFault(func() { got, gerr = a.Open(dst, nonce, ctCopy, aad) })
	mclass := c.Mut
	if i := bytes.IndexByte([]byte(mclass), ':'); i > 0 {
		mclass = mclass[:i]
	}
	if kind != "" {
		r.Violation(fmt.Sprintf("open:panic:%s", mclass), fmt.Sprintf("Open panicked (%s) on mutation %s (ct %d bytes, tag %d, nonce %d): %s", kind, c.Mut, len(ct), c.Tag, len(nonce), msg), c)
		return
	}
	if wantOK {
		if gerr != nil {
			r.Violation("open:rejects-authentic:"+mclass, fmt.Sprintf("Open rejected an authentic message (%s; ct %d, aad %d, nonce %d, tag %d, path %s): %v", c.Mut, len(ct), len(aad), len(nonce), c.Tag, path, gerr), c)
		} else if !bytes.Equal(got, wantPt) {
			r.Violation("open:wrong-plaintext:"+mclass, fmt.Sprintf("Open returned a wrong plaintext (%s; ct %d bytes [%s])", c.Mut, len(ct), lenClass(len(ct)-c.Tag)), c)
		}
	} else {
		if gerr == nil {
			r.Violation("open:accepts-forgery:"+mclass, fmt.Sprintf("Open accepted a non-authentic input (%s; ct %d, aad %d, nonce %d, tag %d, path %s) and released %d bytes", c.Mut, len(ct), len(aad), len(nonce), c.Tag, path, len(got)), c)
		} else {
			if got != nil {
				r.Violation("open:plaintext-with-error:"+mclass, "an error was returned together with a non-nil plaintext slice", c)
			}
			if c.DstSpare && c.PlainForLeakChk != "" {
				p := vx.UnHex(c.PlainForLeakChk)
				full := dst[:cap(dst)]
				if len(p) >= 8 && bytes.Contains(full, p[:8]) {
					r.Violation("open:leaks-plaintext-on-reject:"+mclass, "after a rejected Open the caller's destination buffer contains the decrypted plaintext", c)
				}
			}
		}
	}
	// record layout: one buffer header|ciphertext, dst = additional data = header, opened in place behind it - the
	// verdict must be the same, and after a rejection the header is intact
	if c.DstSpare && len(aad) > 0 && len(ct) <= 4200 {
		r.Eval(1)
		rec := append(append([]byte{}, aad...), ct...)
		var got2 []byte
		var gerr2 error
		kind, msg := vx.TryFault(func() { got2, gerr2 = a.Open(rec[:len(aad)], nonce, rec[len(aad):], rec[:len(aad)]) })
		switch {
		case kind != "":
			r.Violation("open:panic:record-layout", fmt.Sprintf("Open(rec[:hdr], nonce, rec[hdr:], rec[:hdr]) panicked (%s) on %s (hdr %d, ct %d): %s", kind, c.Mut, len(aad), len(ct), msg), c)
		case wantOK && (gerr2 != nil || !bytes.Equal(got2, append(append([]byte{}, aad...), wantPt...))):
			r.Violation("open:rejects-authentic:record-layout", fmt.Sprintf("in-place Open behind the header failed for an authentic message (%s): %v", c.Mut, gerr2), c)
		case !wantOK && gerr2 == nil:
			r.Violation("open:accepts-forgery:record-layout", fmt.Sprintf("in-place Open behind the header accepted a non-authentic input (%s)", c.Mut), c)
		case !bytes.Equal(rec[:len(aad)], aad):
			r.Violation("open:header-modified:record-layout", "the dst prefix / additional data was changed", c)
		}
	}
	r.Shape(fmt.Sprintf("%s:%s:ct%d:aad%d:n%d:t%d:%v:%s", c.Key, c.Mut, len(ct), len(aad), len(nonce), c.Tag, wantOK, path))
}

func TestVX_C07(t *testing.T) {
	r := vx.Begin("C07", gcmPart("open"), "valid messages over pt lengths {0,1,15,16,17,31,32,33,63,64,65,127,128,129,255,256,257,1100} x aad {0,1,16,17,129} x nonce length {1,12,13,16,128} x tag {12..16} (quick: a slice), plus large base messages (pt,aad) in {(2048,13),(4096,0),(4097,13),(65537,5),(33,4096),(20,65537),(8192,8192)} [thorough: also (2^20,3),(2^20+17,2^16+1),(16389,0)]: Open must return the plaintext; then every single-bit flip of ciphertext body, tag, nonce and aad (large messages: one bit in each byte at both ends, the middle and next to every kernel-width boundary), the same difference applied to every pair of tag bytes, to all tag bytes and to whole 4- and 8-byte words of the tag, removal of the last 1..tagSize bytes, removal of the first byte, one appended byte, the tag presented to an AEAD of every other tag size, every prefix shorter than the tag, all-zero tag. Oracle: reference GCM decides (standard library generic GCM over sm4ref, itself checked against gcmref on each base message; gcmref directly where the standard library cannot express the parameters); never panic; nil plaintext on error; no plaintext left in the caller's dst after a rejection; three AEADs built from one Block in every order of five (nonce,tag) parameter sets, each used after the others exist; the destination-with-spare variants are opened a second time in the record layout (one buffer header|ciphertext: dst = additional data = header, opened in place) with the same verdict required. Shape=(key, mutation, lengths, verdict, path)")
	defer r.End()
	selfCheck()
	if raw, ok := vx.Replay(gcmPart("open")); ok {
		var c c07case
		json.Unmarshal(raw, &c)
		c07eval(r, c, nil)
		return
	}
	th := vx.Thorough()
	pts := []int{0, 1, 15, 16, 17, 31, 32, 33, 63, 64, 65, 127, 128, 129, 255, 256, 257, 1100}
	aads := []int{0, 1, 16, 17, 129}
	nls := []int{1, 12, 13, 16, 128}
	n := 0
	doBase := func(kn string, pl, al, nl, tag int, sparse bool) {
		key := keyByName(kn)
		nonce, pt, aad := fillLen("nonce", nl), fillLen("pt", pl), fillLen("aad", al)
		ct := gcmref.Seal(refCipher(key), nonce, pt, aad, tag)
		fast := fastRef(key, nl, tag)
		if fast != nil {
			// cross-check the fast reference against gcmref on this base message (harness check)
			chk := fast.Seal(nil, nonce, pt, aad)
			if !bytes.Equal(chk, ct) {
				panic("harness: standard-library GCM over sm4ref disagrees with gcmref")
			}
		}
		emit := func(mut string, no, c, a []byte, tg int, spare bool) {
			cs := c07case{Key: kn, Nonce: vx.Hex(no), CT: vx.Hex(c), AAD: vx.Hex(a), Tag: tg, Mut: mut, DstSpare: spare}
			if spare {
				cs.PlainForLeakChk = vx.Hex(pt)
			}
			f := fast
			if tg != tag || len(no) != nl {
				f = nil
			}
			c07eval(r, cs, f)
			if !sparse {
				r.Sample(cs)
			}
		}
		emit("valid", nonce, ct, aad, tag, false)
		emit("valid-spare", nonce, ct, aad, tag, true)
		flip := func(b []byte, bit int) []byte {
			o := append([]byte{}, b...)
			o[bit/8] ^= 1 << uint(bit%8)
			return o
		}
		body := len(ct) - tag
		for bit := 0; bit < 8*len(ct); bit++ {
			region := "flip-body"
			if bit/8 >= body {
				region = "flip-tag"
			}
			if !th && region == "flip-body" && body > 64 && bit%8 != (bit/8)%8 {
				continue // quick: one bit per byte for long bodies
			}
			if sparse && region == "flip-body" && !(sparseAt(bit/8, body) && bit%8 == (bit/8)%8) {
				continue // large messages: one bit in each byte next to a kernel-width boundary, the ends and the middle
			}
			emit(fmt.Sprintf("%s:%d", region, bit), nonce, flip(ct, bit), aad, tag, bit%16 == 0)
		}
		// correlated changes of the tag: the same difference in two bytes (every pair), in every byte, and in the bytes of
		// one 4- or 8-byte word - a comparison that folds words together (xor instead of or) cancels them
		if !sparse || pl < 3000 {
			for _, dlt := range []byte{0x01, 0x80, 0xff} {
				for i := body; i < len(ct); i++ {
					for j := i + 1; j < len(ct); j++ {
						o := append([]byte{}, ct...)
						o[i] ^= dlt
						o[j] ^= dlt
						emit(fmt.Sprintf("tag-pair:%d:%d:%02x", i-body, j-body, dlt), nonce, o, aad, tag, false)
					}
				}
				all := append([]byte{}, ct...)
				for i := body; i < len(ct); i++ {
					all[i] ^= dlt
				}
				emit(fmt.Sprintf("tag-all-bytes:%02x", dlt), nonce, all, aad, tag, false)
				for _, w := range []int{4, 8} {
					for st := body; st+w <= len(ct); st += w {
						o := append([]byte{}, ct...)
						for i := st; i < st+w; i++ {
							o[i] ^= dlt
						}
						emit(fmt.Sprintf("tag-word%d:%d:%02x", w, st-body, dlt), nonce, o, aad, tag, false)
					}
				}
			}
		}
		for bit := 0; bit < 8*len(nonce); bit++ {
			emit(fmt.Sprintf("flip-nonce:%d", bit), flip(nonce, bit), ct, aad, tag, false)
		}
		for bit := 0; bit < 8*len(aad); bit++ {
			if sparse && !(sparseAt(bit/8, len(aad)) && bit%8 == (bit/8)%8) {
				continue
			}
			emit(fmt.Sprintf("flip-aad:%d", bit), nonce, ct, flip(aad, bit), tag, false)
		}
		for k := 1; k <= tag && k <= len(ct); k++ {
			emit(fmt.Sprintf("truncate:%d", k), nonce, ct[:len(ct)-k], aad, tag, k%2 == 0)
		}
		if len(ct) > 0 {
			emit("drop-first", nonce, ct[1:], aad, tag, true)
		}
		emit("append-byte", nonce, append(append([]byte{}, ct...), 0), aad, tag, true)
		emit("append-aad", nonce, ct, append(append([]byte{}, aad...), 0), tag, false)
		if al > 0 {
			emit("drop-aad", nonce, ct, aad[:al-1], tag, false)
		}
		zt := append([]byte{}, ct...)
		for i := body; i < len(zt); i++ {
			zt[i] = 0
		}
		emit("zero-tag", nonce, zt, aad, tag, true)
		for ot := 12; ot <= 16; ot++ {
			if ot != tag {
				emit(fmt.Sprintf("other-tagsize:%d", ot), nonce, ct, aad, ot, false)
			}
		}
		for l := 0; l < tag; l++ {
			emit(fmt.Sprintf("shorter-than-tag:%d", l), nonce, vx.Fill("shortct", l), aad, tag, l%2 == 0)
		}
	}
	for _, pl := range pts {
		for _, al := range aads {
			for _, nl := range nls {
				for tag := 12; tag <= 16; tag++ {
					n++
					if !th && !(n%9 == 0 || (al == 17 && nl == 12 && tag == 16) || (pl == 17 && al == 0 && tag == 12)) {
						continue
					}
					if !vx.MineIdx(n) {
						continue
					}
					if r.Expired() {
						return
					}
					doBase([]string{"std", "s1", "zero"}[n%3], pl, al, nl, tag, false)
				}
			}
		}
	}
	// several AEADs built from ONE Block, in every order of three out of five parameter sets: each must keep its own
	// nonce and tag size whatever was constructed after it (an older AEAD used after a newer one was made)
	type sib struct{ nl, tag int }
	sibs := []sib{{12, 16}, {12, 12}, {16, 16}, {12, 14}, {1, 16}}
	for i := range sibs {
		for j := range sibs {
			for k := range sibs {
				if i == j || j == k || i == k {
					continue
				}
				n++
				if !vx.MineIdx(n) {
					continue
				}
				key := keyByName("s1")
				blk, err := sm4.NewCipher(key)
				if err != nil {
					panic(err)
				}
				order := []sib{sibs[i], sibs[j], sibs[k]}
				var as []cipher.AEAD
				for _, o := range order {
					a, err := aeadFromBlock(blk, o.nl, o.tag)
					if err != nil {
						a = nil
					}
					as = append(as, a)
				}
				for round := 0; round < 2; round++ {
					for x, a := range as {
						if a == nil {
							continue
						}
						o := order[x]
						r.Eval(1)
						nonce, pt, aad := fillLen("nonce", o.nl), fillLen("pt", 37), fillLen("aad", 5)
						want := gcmref.Seal(refCipher(key), nonce, pt, aad, o.tag)
						cs := c07case{Key: "s1", Nonce: vx.Hex(nonce), CT: vx.Hex(want), AAD: vx.Hex(aad), Tag: o.tag, Mut: fmt.Sprintf("siblings:%v:use%d", order, x)}
						var got, back []byte
						var oerr, terr error
						kind, msg := vx.TryFault(func() {
							got = a.Seal(nil, nonce, pt, aad)
							back, oerr = a.Open(nil, nonce, want, aad)
							_, terr = a.Open(nil, nonce, want[:len(want)-1], aad)
						})
						switch {
						case kind != "":
							r.Violation("open:siblings:panic", fmt.Sprintf("AEAD #%d of %v built from one Block panicked: %s", x, order, msg), cs)
						case a.NonceSize() != o.nl || a.Overhead() != o.tag:
							r.Violation("open:siblings:parameters-changed", fmt.Sprintf("AEAD #%d of %v built from one Block now reports nonce size %d, overhead %d", x, order, a.NonceSize(), a.Overhead()), cs)
						case !bytes.Equal(got, want):
							r.Violation("open:siblings:seal-wrong", fmt.Sprintf("AEAD #%d of %v built from one Block seals differently from SP 800-38D with its own parameters", x, order), cs)
						case oerr != nil || !bytes.Equal(back, pt):
							r.Violation("open:siblings:rejects-authentic", fmt.Sprintf("AEAD #%d of %v built from one Block rejects an authentic message: %v", x, order, oerr), cs)
						case terr == nil:
							r.Violation("open:siblings:accepts-truncated-tag", fmt.Sprintf("AEAD #%d of %v built from one Block accepts a message whose tag was cut by one byte", x, order), cs)
						}
						r.Shape(fmt.Sprintf("siblings:%v:%d:%d", order, x, round))
					}
				}
			}
		}
	}
	lifetimeCases(r, "open", func() bool { n++; return vx.MineIdx(n) })
	// large messages (sparse single-bit flips: see sparseAt)
	type big struct{ pl, al, nl, tag int }
	bigs := []big{{2048, 13, 12, 16}, {4096, 0, 12, 16}, {4097, 13, 16, 16}, {65537, 5, 12, 12}, {33, 4096, 12, 16}, {20, 65537, 16, 16}, {8192, 8192, 12, 14}}
	if th {
		bigs = append(bigs, big{1 << 20, 3, 12, 16}, big{1<<20 + 17, 1<<16 + 1, 13, 16}, big{16384 + 5, 0, 128, 13})
	}
	for _, b := range bigs {
		n++
		if !vx.MineIdx(n) {
			continue
		}
		if r.Expired() {
			return
		}
		doBase("s5", b.pl, b.al, b.nl, b.tag, true)
	}
}

// sparseAt selects the byte positions of a long buffer that get a bit flip: both ends, the middle, and the bytes on
// either side of every multiple of 256 up to 1024 and of the last multiple of 16, 64 and 256.
func sparseAt(i, n int) bool {
	if i < 2 || i >= n-2 || i == n/2 {
		return true
	}
	for _, m := range []int{16, 64, 128, 256, 512, 768, 1024} {
		if i == m || i == m-1 {
			return true
		}
	}
	for _, w := range []int{16, 64, 256} {
		if last := n / w * w; i == last || i == last-1 {
			return true
		}
	}
	return false
}

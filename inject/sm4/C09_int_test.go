//go:build verif && amd64

package sm4

import (
	"crypto/sha256"
	"fmt"
	"os"
	"strconv"
	"testing"
	"unsafe"
)

// TestVX_C09_Target is the debuggee of tools/gdbtrace.py: it calls one assembly routine twice on the *same* buffers
// with two different fillings of every secret input (key schedule, nonce, aad, message). The tracer single-steps both
// calls and compares program-counter and effective-address traces.
func TestVX_C09_Target(t *testing.T) {
	fn := os.Getenv("VX_TRACE_FN")
	if fn == "" {
		t.Skip("debuggee only")
	}
	n, _ := strconv.Atoi(os.Getenv("VX_TRACE_LEN"))
	fill := func(tag string, b []byte, round int) {
		var ctr byte
		for off := 0; off < len(b); off += 32 {
			h := sha256.Sum256([]byte(fmt.Sprintf("%s/%d/%d", tag, round, ctr)))
			copy(b[off:], h[:])
			ctr++
		}
	}
	key := make([]byte, 16)
	var enc, dec [32]uint32
	nonce := make([]byte, 12)
	if fn == "seal13" || fn == "open13" {
		nonce = make([]byte, 13)
	}
	aad := make([]byte, 21)
	msg := make([]byte, n)
	out := make([]byte, n+16+256)
	ct := make([]byte, n+16)
	var temp [128]byte
	blocks := make([]byte, 256)
	bout := make([]byte, 256)
	var res int
	tag := 16
	if t, err := strconv.Atoi(os.Getenv("VX_TRACE_TAG")); err == nil && t >= 12 && t <= 16 {
		tag = t
	}
	// allowed write ranges of the traced call (for the footprint monitor): one line per invocation, "addr len" pairs
	var rf *os.File
	if p := os.Getenv("VX_TRACE_RANGES"); p != "" {
		rf, _ = os.Create(p)
		defer rf.Close()
	}
	allow := func(rs ...[]byte) {
		if rf == nil {
			return
		}
		for _, b := range rs {
			if len(b) > 0 {
				fmt.Fprintf(rf, "%d %d ", uintptr(unsafe.Pointer(&b[0])), len(b))
			}
		}
		fmt.Fprintln(rf)
	}
	for round := 0; round < 2; round++ {
		fill("key", key, round)
		fill("nonce", nonce, round)
		fill("aad", aad, round)
		fill("msg", msg, round)
		fill("blocks", blocks, round)
		expandKey(key, &enc, &dec)
		switch fn {
		case "seal", "seal13":
			allow(out[:n+tag], temp[:32])
			sealAsm(&enc[0], tag, &out[0], nonce, msg, aad, &temp[0])
		case "open", "open13":
			// produce an authentic ciphertext for this round first (untraced helper call), then trace Open
			vxTraceOff()
			sealAsm(&enc[0], tag, &ct[0], nonce, msg, aad, &temp[0])
			vxTraceOn()
			allow(out[:n], temp[:32])
			res += openAsm(&enc[0], tag, &out[0], nonce, ct[:n+tag], aad, &temp[0])
		case "block1":
			allow(bout[:16])
			cryptoBlockAsm(&enc[0], &bout[0], &blocks[0])
		case "block2":
			allow(bout[:32])
			cryptoBlockAsmX2(&enc[0], &bout[0], &blocks[0])
		case "block4":
			allow(bout[:64])
			cryptoBlockAsmX4(&enc[0], &bout[0], &blocks[0])
		case "block8":
			allow(bout[:128])
			cryptoBlockAsmX8(&enc[0], &bout[0], &blocks[0])
		case "block16":
			allow(bout[:256])
			cryptoBlockAsmX16(&enc[0], &bout[0], &blocks[0])
		case "expand":
			allow(unsafe.Slice((*byte)(unsafe.Pointer(&enc[0])), 128), unsafe.Slice((*byte)(unsafe.Pointer(&dec[0])), 128))
			expandKeyAsm(&key[0], &enc[0], &dec[0])
		case "ghash":
			if n >= 16 {
				allow(temp[:16])
				gHashBlocks(&key[0], &temp[0], &msg[0], n/16)
			}
		}
	}
	if (fn == "open" || fn == "open13") && res != 2 {
		t.Fatalf("debuggee: Open did not accept its own ciphertexts (%d)", res)
	}
}

//go:noinline
func vxTraceOff() {}

//go:noinline
func vxTraceOn() {}

//go:build verif && amd64

package sm4_test

import (
	"crypto/cipher"
	"fmt"
	"reflect"
	"strings"
	"testing"

	"github.com/bilibili/smgo/sm4"
	"verif/vx"
)

// TestVX_C09_Dispatch: on a CPU where the accelerated path is selected, every Block and every AEAD handed out through
// the public constructors must be the assembly-backed implementation - otherwise the data-independent assembly that the
// other C09 parts analyse is simply not what runs (the portable T-table cipher and the standard library's table-driven
// GHASH are not constant time).
func TestVX_C09_Dispatch(t *testing.T) {
	r := vx.Begin("C09", "asm-dispatch", "for every nonce size 1..64,96,128,300 and tag size 12..16 reachable through crypto/cipher.NewGCM, NewGCMWithNonceSize and NewGCMWithTagSize, and for the Block itself: the dynamic type must be defined in the sm4 package (the assembly-backed cipher / AEAD), not crypto/cipher's generic GCM and not the portable cipher. Finite space enumerated completely")
	defer r.End()
	blk, err := sm4.NewCipher(keyByName("std"))
	if err != nil {
		panic(err)
	}
	if _, accelerated := blk.(gcmAble); !accelerated {
		r.NotExhaustive("this CPU does not select the accelerated path; dispatch check not applicable")
		r.Eval(1)
		r.Shape("n/a-1")
		r.Shape("n/a-2")
		return
	}
	check := func(what string, x interface{}) {
		r.Eval(1)
		tp := reflect.TypeOf(x)
		for tp.Kind() == reflect.Ptr {
			tp = tp.Elem()
		}
		if !strings.HasSuffix(tp.PkgPath(), "smgo/sm4") {
			r.Violation("asm:dispatch:"+tp.PkgPath()+"."+tp.Name(), fmt.Sprintf("%s is served by %s.%s, not by the assembly-backed implementation of package sm4, although the CPU selects the accelerated path", what, tp.PkgPath(), tp.Name()), what)
		}
		r.Shape(what)
	}
	check("Block", blk)
	sizes := []int{96, 128, 300}
	for n := 1; n <= 64; n++ {
		sizes = append(sizes, n)
	}
	for _, n := range sizes {
		a, err := cipher.NewGCMWithNonceSize(blk, n)
		if err == nil {
			check(fmt.Sprintf("NewGCMWithNonceSize(%d)", n), a)
		}
	}
	for tag := 12; tag <= 16; tag++ {
		a, err := cipher.NewGCMWithTagSize(blk, tag)
		if err == nil {
			check(fmt.Sprintf("NewGCMWithTagSize(%d)", tag), a)
		}
	}
	a, err := cipher.NewGCM(blk)
	if err == nil {
		check("NewGCM", a)
	}
	r.Sample(map[string]string{"block": reflect.TypeOf(blk).String()})
}

//go:build verif

package sm4_test

import (
	"crypto/cipher"
	"encoding/json"
	"fmt"
	"os"
	"path/filepath"
	"sort"
	"testing"

	"github.com/bilibili/smgo/sm4"
	"verif/refs/gcmref"
	"verif/refs/sm4ref"
	"verif/trace"
	"verif/vx"
)

type glueSite struct {
	ID   uint32 `json:"id"`
	Kind string `json:"kind"`
	Loc  string `json:"loc"`
	Func string `json:"func"`
	Text string `json:"text"`
}

type glueCase struct {
	Group  string
	Secret string // what varies: "key:<name>" | "data:<name>"
	Other  string
}

var glueSites = map[uint32]glueSite{}

func glueLoad() bool {
	tree := os.Getenv("VX_TREE")
	if tree == "" {
		return false
	}
	b, err := os.ReadFile(filepath.Join(tree, "sm4", ".vx_trace_sites.json"))
	if err != nil {
		return false
	}
	var ss []glueSite
	json.Unmarshal(b, &ss)
	for _, s := range ss {
		glueSites[s.ID] = s
	}
	return len(glueSites) > 0
}

// one execution = one (key, data) pair of a group with fixed lengths and a fixed verdict
type glueRun struct {
	name string
	f    func()
}

func glueDiverge(a, b func()) string {
	rec := func(f func()) []uint64 {
		trace.StartSeq()
		vx.Try(f)
		return trace.StopSeq()
	}
	sa, sb := rec(a), rec(b)
	n := len(sa)
	if len(sb) < n {
		n = len(sb)
	}
	i := 0
	for i < n && sa[i] == sb[i] {
		i++
	}
	desc := func(seq []uint64, i int) string {
		if i >= len(seq) {
			return "end-of-trace"
		}
		ev := seq[i]
		if i > 0 && seq[i-1]>>40 == 2 && ev>>40 != 2 && ev>>40 != 1 {
			ev = seq[i-1]
		}
		st, ok := glueSites[uint32(ev&0xffffffff)]
		if !ok {
			return "unknown-site"
		}
		return fmt.Sprintf("%s@%s[%s]", st.Kind, st.Func, st.Text)
	}
	da, db := desc(sa, i), desc(sb, i)
	if da == db {
		return da
	}
	if da > db {
		da, db = db, da
	}
	return da + " | " + db
}

// TestVX_C09_Glue: the Go code around the assembly kernels (constructors, Encrypt/Decrypt, Seal/Open, ensureCapacity,
// counter and tail handling) on the accelerated path, under the block/short-circuit/index trace monitor: for fixed
// lengths and a fixed verdict, every key - including keys solved so that single round keys are zero or all-ones - and
// every data pattern must produce the identical trace.
// glueColdEntries: the trace of the very first cipher of a process (construction, one block, one Seal), one entry per
// key; the child records it before anything else has used package sm4.
func glueColdEntries() []vx.ColdEntry {
	keys := map[string][]byte{"std": keyByName("std"), "zero": make([]byte, 16), "ones": keyByName("ones"), "seeded": vx.Fill("gluecoldkey", 16)}
	sk, sn := sm4ref.SpecialScheduleKeys(false)
	for i := range sk {
		if sn[i] == "rk0=0" || sn[i] == "rk31=0" || sn[i] == "rk0..3=0" {
			keys[sn[i]] = sk[i]
		}
	}
	var names []string
	for k := range keys {
		names = append(names, k)
	}
	sort.Strings(names)
	var es []vx.ColdEntry
	for _, kn := range names {
		k := keys[kn]
		es = append(es, vx.ColdEntry{Name: "first-cipher:" + kn, Fn: func() string {
			kb, ib, ob := make([]byte, 16), make([]byte, 16), make([]byte, 16)
			nb, pb, outb := make([]byte, 12), make([]byte, 33), make([]byte, 0, 64)
			copy(kb, k)
			trace.Start(true)
			b, err := sm4.NewCipher(kb)
			if err != nil {
				return err.Error()
			}
			b.Encrypt(ob, ib)
			if g, ok := b.(gcmAble); ok {
				a, _ := g.NewGCM(12, 16)
				a.Seal(outb, nb, pb, nil)
			}
			res := trace.Stop()
			return fmt.Sprintf("%x:%d", res.Hash, res.Events)
		}})
	}
	return es
}

func TestVX_C09_Glue(t *testing.T) {
	coldEntries := glueColdEntries()
	if vx.ColdChild(coldEntries) {
		return
	}
	r := vx.Begin("C09", "glue-trace", "Go glue of the accelerated path under the trace monitor (every basic block, short-circuit operand and index / slice-bound value of package sm4's Go sources): groups = NewCipher+Encrypt+Decrypt; Encrypt/Decrypt with the destination shifted by -15..15 bytes against the source; the crypto/cipher mode constructors (CTR, CBC, CFB, OFB, NewGCM, NewGCMWithNonceSize) on the Block; NewGCM+Seal, Open of an authentic message and Open of a forged one for (plaintext, aad, nonce, tag) lengths in {0,1,16,17,64,300}x{0,5,16}x{12,16}x{16,12}; within a group the key ranges over {standard, zero, ones, seeded x4, keys solved for rk[i]=0 / 0xffffffff at every i and zero / all-one windows} and the data over {zero, ones, seeded} plaintext, nonce and aad; all traces of a group must be identical; plus the first cipher of a process (one fresh process per key: construction, one block, one Seal) - the traces of all keys must be equal")
	defer r.End()
	selfCheck()
	if !glueLoad() {
		r.NotExhaustive("trace site table of package sm4 not found (instrumenter seam lost)")
		return
	}
	probe, _ := sm4.NewCipher(keyByName("std"))
	if _, ok := probe.(gcmAble); !ok {
		r.NotExhaustive("the accelerated path is not selected on this CPU: the property makes no claim")
		return
	}
	// ---- the first cipher of a process: whatever is done lazily on first use (self-tests, table construction) must not
	// depend on that first key either. One fresh process per key; all traces equal.
	if vx.MineIdx(0) {
		first := ""
		for i, e := range coldEntries {
			r.Eval(1)
			res, _, fail := vx.ColdRun("TestVX_C09_Glue", e.Name, 1)
			cs := glueCase{"first-cipher-of-the-process", e.Name, coldEntries[0].Name}
			if fail != "" || len(res) != 1 {
				r.Violation("glue:cold:crash", fmt.Sprintf("%s as the first use of the library in a fresh process: %s", e.Name, fail), cs)
				continue
			}
			if i == 0 {
				first = res[0]
			} else if res[0] != first {
				r.Violation("glue:cold:trace-differs", fmt.Sprintf("the first cipher of a process: the Go code took a different path / touched different indexes for %s (trace %s) than for %s (trace %s) - work done lazily on first use depends on the key", e.Name, res[0], coldEntries[0].Name, first), cs)
			}
		}
		r.Shape("first-cipher-of-the-process")
	}
	keys := map[string][]byte{"std": keyByName("std"), "zero": make([]byte, 16), "ones": keyByName("ones")}
	for i := 0; i < 4; i++ {
		keys[fmt.Sprintf("seeded%d", i)] = vx.Fill(fmt.Sprintf("gluekey%d", i), 16)
	}
	sk, sn := sm4ref.SpecialScheduleKeys(vx.Thorough())
	for i := range sk {
		keys[sn[i]] = sk[i]
	}
	var knames []string
	for k := range keys {
		knames = append(knames, k)
	}
	sort.Strings(knames)
	pat := func(kind string, role string, n int) []byte {
		b := make([]byte, n)
		switch kind {
		case "ones":
			for i := range b {
				b[i] = 0xff
			}
		case "seeded":
			copy(b, vx.Fill("glue"+role, n))
		}
		return b
	}
	gi := 0
	group := func(name string, runs []glueRun) {
		gi++
		if !vx.MineIdx(gi) {
			return
		}
		var ref trace.Result
		distinct := map[uint64]bool{}
		record := func(f func()) (trace.Result, string, string) {
			trace.Start(true)
			kind, msg := vx.Try(f)
			return trace.Stop(), kind, msg
		}
		same := func(a, b trace.Result) bool { return a.Hash == b.Hash && a.Events == b.Events }
		// warm-up: whatever the first call of a process does differently (a pool's constructor, a lazily built table) is
		// history, not data
		record(runs[0].f)
		for i, rn := range runs {
			res, kind, msg := record(rn.f)
			r.Eval(1)
			cs := glueCase{name, rn.name, runs[0].name}
			if kind != "" {
				r.Violation("glue:panic:"+name, fmt.Sprintf("%s panicked for %s: %s", name, rn.name, msg), cs)
				continue
			}
			if i == 0 {
				ref = res
			}
			if !same(res, ref) {
				// data-dependent or history-dependent (pools emptied by the collector, caches)? The sequence A A B B A B is
				// recorded until two consecutive passes agree position by position: all equal = a history effect that died
				// out; otherwise the trace depends on the key / data (or on its repetition)
				verdict := "unstable"
				seqS := []func(){runs[0].f, runs[0].f, rn.f, rn.f, runs[0].f, rn.f}
				pass := func() []trace.Result {
					out := make([]trace.Result, len(seqS))
					for k, f := range seqS {
						out[k], _, _ = record(f)
					}
					return out
				}
				prev := pass()
				for try := 0; try < 4 && verdict == "unstable"; try++ {
					cur := pass()
					stable := true
					for k := range cur {
						stable = stable && same(cur[k], prev[k])
					}
					if stable {
						allEq := true
						for k := range cur {
							allEq = allEq && same(cur[k], cur[0])
						}
						if allEq {
							verdict, ref = "history", cur[0]
						} else {
							verdict = "data"
						}
					}
					prev = cur
				}
				switch verdict {
				case "data":
					where := glueDiverge(runs[0].f, rn.f)
					r.Violation("glue:trace-differs:"+where, fmt.Sprintf("%s: the Go code around the kernels took a different path / touched different indexes for %s than for %s (reproduced in alternating order); the traces first diverge at %s", name, rn.name, runs[0].name, where), cs)
				case "history":
					r.Add("observation_history_dependent_trace_differences", 1)
				default:
					r.Add("observation_unstable_traces", 1)
					r.NotExhaustive("traces of group " + name + " did not stabilise (history-dependent code such as pools): the group is not judged")
				}
			}
			distinct[res.Hash^res.Events<<48] = true
		}
		r.Shape(name)
		r.Sample(map[string]interface{}{"group": name, "runs": len(runs), "distinct_traces": len(distinct), "events": ref.Events})
	}
	// every run of a group works on the SAME buffers (contents copied in): code that compares buffer addresses (overlap
	// checks) then takes the same path in every run - addresses are not data
	// ---- block cipher
	{
		var runs []glueRun
		kb, ib, ob := make([]byte, 16), make([]byte, 16), make([]byte, 16)
		for _, kn := range knames {
			k := keys[kn]
			runs = append(runs, glueRun{"key:" + kn, func() {
				copy(kb, k)
				copy(ib, make([]byte, 16))
				b, _ := sm4.NewCipher(kb)
				b.Encrypt(ob, ib)
				b.Decrypt(ib, ob)
			}})
		}
		for _, dk := range []string{"zero", "ones", "seeded"} {
			in := pat(dk, "blk", 16)
			runs = append(runs, glueRun{"data:" + dk, func() {
				copy(kb, keys["std"])
				copy(ib, in)
				b, _ := sm4.NewCipher(kb)
				b.Encrypt(ob, ib)
				b.Decrypt(ib, ob)
			}})
		}
		group("block", runs)
	}
	// ---- block operations whose destination is the source shifted by 1..15 bytes in either direction (whatever the
	// library does with such a call - the kernels, a panic - it must be the same for every key and every data pattern)
	for _, shift := range []int{-15, -8, -3, -1, 1, 2, 7, 8, 9, 15} {
		var runs []glueRun
		kb, w := make([]byte, 16), make([]byte, 64)
		src, dst := w[24:40], w[24+shift:40+shift]
		mk := func(k, in []byte) func() {
			return func() {
				copy(kb, k)
				copy(src, in)
				b, _ := sm4.NewCipher(kb)
				vx.Try(func() { b.Encrypt(dst, src) })
				copy(src, in)
				vx.Try(func() { b.Decrypt(dst, src) })
			}
		}
		for _, kn := range knames {
			runs = append(runs, glueRun{"key:" + kn, mk(keys[kn], make([]byte, 16))})
		}
		for _, dk := range []string{"zero", "ones", "seeded"} {
			runs = append(runs, glueRun{"data:" + dk, mk(keys["std"], pat(dk, "blk", 16))})
		}
		group(fmt.Sprintf("block-shifted-dst:%+d", shift), runs)
	}
	// ---- every way the standard library drives a Block: the mode constructors of crypto/cipher look for optional methods
	// on the Block (and find those of embedded types too) before they fall back to Encrypt / Decrypt
	{
		var runs []glueRun
		kb, iv, in, out := make([]byte, 16), make([]byte, 16), make([]byte, 96), make([]byte, 96+16)
		mk := func(k, data []byte) func() {
			return func() {
				copy(kb, k)
				copy(in, data)
				copy(iv, data)
				b, _ := sm4.NewCipher(kb)
				vx.Try(func() { cipher.NewCTR(b, iv).XORKeyStream(out[:80], in[:80]) })
				vx.Try(func() { cipher.NewCBCEncrypter(b, iv).CryptBlocks(out[:64], in[:64]) })
				vx.Try(func() { cipher.NewCBCDecrypter(b, iv).CryptBlocks(out[:64], in[:64]) })
				vx.Try(func() { cipher.NewCFBEncrypter(b, iv).XORKeyStream(out[:37], in[:37]) })
				vx.Try(func() { cipher.NewCFBDecrypter(b, iv).XORKeyStream(out[:37], in[:37]) })
				vx.Try(func() { cipher.NewOFB(b, iv).XORKeyStream(out[:37], in[:37]) })
				vx.Try(func() {
					if a, err := cipher.NewGCM(b); err == nil {
						a.Seal(out[:0], iv[:12], in[:33], in[40:45])
					}
				})
				vx.Try(func() {
					if a, err := cipher.NewGCMWithNonceSize(b, 16); err == nil {
						a.Seal(out[:0], iv, in[:33], nil)
					}
				})
			}
		}
		for _, kn := range knames {
			runs = append(runs, glueRun{"key:" + kn, mk(keys[kn], make([]byte, 96))})
		}
		for _, dk := range []string{"zero", "ones", "seeded"} {
			runs = append(runs, glueRun{"data:" + dk, mk(keys["std"], pat(dk, "modes", 96))})
		}
		group("stdlib-modes", runs)
	}
	// ---- AEAD
	for _, pl := range []int{0, 1, 16, 17, 64, 300} {
		for _, al := range []int{0, 5, 16} {
			for _, nl := range []int{12, 16} {
				for _, tag := range []int{16, 12} {
					if (nl == 16 || tag == 12) && !(pl == 17 || pl == 300) {
						continue
					}
					type inst struct {
						name           string
						key            []byte
						nonce, pt, aad []byte
					}
					var insts []inst
					for _, kn := range knames {
						insts = append(insts, inst{"key:" + kn, keys[kn], pat("seeded", "n", nl), pat("seeded", "p", pl), pat("seeded", "a", al)})
					}
					for _, dk := range []string{"zero", "ones"} {
						insts = append(insts, inst{"data:pt-" + dk, keys["std"], pat("seeded", "n", nl), pat(dk, "p", pl), pat("seeded", "a", al)})
						insts = append(insts, inst{"data:nonce-" + dk, keys["std"], pat(dk, "n", nl), pat("seeded", "p", pl), pat("seeded", "a", al)})
						insts = append(insts, inst{"data:aad-" + dk, keys["std"], pat("seeded", "n", nl), pat("seeded", "p", pl), pat(dk, "a", al)})
					}
					var seal, open, forged []glueRun
					kb, nb, pb, ab, cb := make([]byte, 16), make([]byte, nl), make([]byte, pl), make([]byte, al), make([]byte, pl+tag)
					outb := make([]byte, 0, pl+tag+16)
					for _, in := range insts {
						in := in
						mk := func() cipher.AEAD {
							copy(kb, in.key)
							copy(nb, in.nonce)
							copy(pb, in.pt)
							copy(ab, in.aad)
							b, _ := sm4.NewCipher(kb)
							a, err := b.(gcmAble).NewGCM(nl, tag)
							if err != nil {
								panic(err)
							}
							return a
						}
						ct := gcmref.Seal(refCipher(in.key), in.nonce, in.pt, in.aad, tag)
						bad := append([]byte{}, ct...)
						bad[len(bad)-1] ^= 0x40
						seal = append(seal, glueRun{in.name, func() { mk().Seal(outb[:0], nb, pb, ab) }})
						open = append(open, glueRun{in.name, func() {
							a := mk()
							copy(cb, ct)
							if _, err := a.Open(outb[:0], nb, cb, ab); err != nil {
								panic("authentic message rejected")
							}
						}})
						forged = append(forged, glueRun{in.name, func() {
							a := mk()
							copy(cb, bad)
							if _, err := a.Open(outb[:0], nb, cb, ab); err == nil {
								panic("forged message accepted")
							}
						}})
					}
					tagn := fmt.Sprintf("pt%d:aad%d:n%d:t%d", pl, al, nl, tag)
					group("seal:"+tagn, seal)
					group("open-authentic:"+tagn, open)
					group("open-forged:"+tagn, forged)
				}
			}
		}
	}
}

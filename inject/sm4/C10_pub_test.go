//go:build verif

package sm4_test

import (
	"bytes"
	"encoding/json"
	"fmt"
	"testing"

	"verif/guard"
	"verif/refs/gcmref"
	"verif/vx"
)

type c10case struct {
	Op     string // seal | open
	PtLen  int
	AadLen int
	Tag    int
	NLen   int
	DstLen int
	Spare  string // "nil" | "empty" | "0" | "1" | "need-1" | "need" | "need+1" | "need+64" | "inplace"
	Repeat bool
}

var c10split = guard.NewSplit(2)

func c10eval(r *vx.R, c c10case) {
	key := keyByName("std")
	nonce := fillLen("nonce", c.NLen)
	pt := fillLen("pt", c.PtLen)
	aad := fillLen("aad", c.AadLen)
	a, path, err := newAEAD(key, c.NLen, c.Tag)
	if err != nil {
		r.Add("unsupported_on_this_path", 1)
		return
	}
	r.Eval(1)
	pollute()
	sealed := gcmref.Seal(refCipher(key), nonce, pt, aad, c.Tag)
	var input, wantOut []byte
	if c.Op == "seal" {
		input, wantOut = pt, sealed
	} else {
		input, wantOut = sealed, pt
	}
	need := len(wantOut)
	// build dst
	prefix := vx.Fill("dstprefix", c.DstLen)
	var dst []byte
	inbuf := append([]byte{}, input...)
	var backing []byte
	switch c.Spare {
	case "nil":
		dst = nil
	case "empty":
		dst = make([]byte, 0)
	case "inplace":
		// the documented idiom: dst is the zero-length prefix of the input buffer
		backing = make([]byte, len(input), len(input)+c.Tag+8)
		copy(backing, input)
		inbuf = backing
		dst = backing[:0]
	case "need+64ro":
		// enough capacity, and the 64 spare bytes behind the result lie in a read-only page: appending in place is fine,
		// a store behind the result (even one that is undone before the call returns) faults
		backing = c10split.Place(c.DstLen+need, 64, 0xA5)
		for i := range backing[:c.DstLen+need] {
			backing[i] = 0xA5
		}
		copy(backing, prefix)
		dst = backing[:c.DstLen]
	default:
		spare := map[string]int{"0": 0, "1": 1, "need-1": need - 1, "need": need, "need+1": need + 1, "need+64": need + 64}[c.Spare]
		if spare < 0 {
			return
		}
		backing = bytes.Repeat([]byte{0xA5}, c.DstLen+spare)
		copy(backing, prefix)
		dst = backing[:c.DstLen]
	}
	keepN, keepA, keepIn := append([]byte{}, nonce...), append([]byte{}, aad...), append([]byte{}, inbuf...)
	call := func() (out []byte, e error) {
		if c.Op == "seal" {
			return a.Seal(dst, nonce, inbuf, aad), nil
		}
		return a.Open(dst, nonce, inbuf, aad)
	}
	var out []byte
	var oerr error
	kind, msg := vx.TryFault(func() { out, oerr = call() })
	shape := fmt.Sprintf("%s:dst%d:%s", c.Op, c.DstLen, c.Spare)
	if kind != "" {
		r.Violation(fmt.Sprintf("buf:%s:panic:spare=%s", c.Op, spareClass(c.Spare)), fmt.Sprintf("%s panicked (%s) with len(dst)=%d spare=%s msg=%d bytes: %s", c.Op, kind, c.DstLen, c.Spare, len(input), msg), c)
		return
	}
	if oerr != nil {
		r.Violation(fmt.Sprintf("buf:%s:error:spare=%s", c.Op, spareClass(c.Spare)), fmt.Sprintf("Open of an authentic message failed with dst shape (%d,%s): %v", c.DstLen, c.Spare, oerr), c)
		return
	}
	wantFull := append(append([]byte{}, dst...), wantOut...)
	if c.Spare == "inplace" {
		wantFull = wantOut
	}
	if !bytes.Equal(out, wantFull) {
		r.Violation(fmt.Sprintf("buf:%s:result:spare=%s", c.Op, spareClass(c.Spare)), fmt.Sprintf("%s with len(dst)=%d spare=%s: result (len %d) is not dst||output (len %d)", c.Op, c.DstLen, c.Spare, len(out), len(wantFull)), c)
	}
	if c.Spare != "inplace" && c.Spare != "nil" && c.Spare != "empty" && !bytes.Equal(backing[:c.DstLen], prefix) {
		r.Violation("buf:"+c.Op+":dst-prefix-modified", "the first len(dst) bytes of the destination were changed", c)
	}
	// what lies behind the result inside the destination's capacity is the caller's: it still holds the fill pattern
	if c.Spare != "inplace" && c.Spare != "nil" && c.Spare != "empty" && len(out) <= len(backing) && len(out) > 0 && &out[0] == &backing[:1][0] {
		for i := len(out); i < len(backing); i++ {
			if backing[i] != 0xA5 {
				r.Violation(fmt.Sprintf("buf:%s:writes-behind-result:tag%d", c.Op, c.Tag), fmt.Sprintf("%s wrote behind its %d-byte result inside the destination's capacity (byte %d of %d) [%s]", c.Op, len(out), i, len(backing), path), c)
				break
			}
		}
	}
	if !bytes.Equal(nonce, keepN) || !bytes.Equal(aad, keepA) {
		r.Violation("buf:"+c.Op+":nonce-or-aad-modified", "nonce or additional data modified", c)
	}
	if c.Spare == "inplace" && c.Op == "open" && !bytes.Equal(inbuf[len(pt):], keepIn[len(pt):]) {
		// in place, only the plaintext-sized head of the ciphertext is the (exactly overlapping) destination: the tag behind it
		// is caller data
		r.Violation("buf:open:input-modified:tag-inplace", fmt.Sprintf("in-place Open changed ciphertext bytes behind the plaintext (the tag) [%s]", path), c)
	}
	if c.Spare != "inplace" && !bytes.Equal(inbuf, keepIn) {
		first := 0
		for first < len(inbuf) && inbuf[first] == keepIn[first] {
			first++
		}
		region := "body"
		if c.Op == "open" && first >= len(inbuf)-c.Tag {
			region = "tag"
		}
		r.Violation(fmt.Sprintf("buf:%s:input-modified:%s", c.Op, region), fmt.Sprintf("%s modified its input (first changed byte %d of %d, in the %s) [%s]", c.Op, first, len(inbuf), region, path), c)
	}
	if c.Op == "open" && c.Spare != "inplace" && len(inbuf) > 0 {
		// the same call on a forged message: error, and nothing the caller owns is touched - not the dst prefix, not
		// the additional data, not the ciphertext
		bad := append([]byte{}, inbuf...)
		bad[len(bad)-1] ^= 0x10
		keepBad := append([]byte{}, bad...)
		var pref []byte
		if backing != nil {
			pref = append([]byte{}, backing[:c.DstLen]...)
		}
		var ferr error
		var fout []byte
		kind, msg = vx.TryFault(func() { fout, ferr = a.Open(dst, nonce, bad, aad) })
		switch {
		case kind != "":
			r.Violation("buf:open:forged:panic", msg, c)
		case ferr == nil:
			r.Violation("buf:open:forged:accepted", "a message with a flipped tag bit was accepted", c)
		case fout != nil:
			r.Violation("buf:open:forged:output", "a rejected Open returned a non-nil slice", c)
		case backing != nil && !bytes.Equal(backing[:c.DstLen], pref):
			r.Violation("buf:open:forged:dst-prefix-modified", fmt.Sprintf("a rejected Open changed the %d bytes the caller already had in dst [%s]", c.DstLen, path), c)
		case !bytes.Equal(aad, keepA) || !bytes.Equal(nonce, keepN) || !bytes.Equal(bad, keepBad):
			r.Violation("buf:open:forged:input-modified", "a rejected Open changed nonce, additional data or ciphertext", c)
		}
	}
	if c.Repeat && c.Spare != "inplace" {
		// the same call on the same buffers must give the same answer
		var out2 []byte
		var err2 error
		kind, msg = vx.TryFault(func() { out2, err2 = call() })
		if kind != "" {
			r.Violation("buf:"+c.Op+":repeat-panic", msg, c)
		} else if err2 != nil || !bytes.Equal(out2, out) {
			r.Violation("buf:"+c.Op+":repeat-differs", fmt.Sprintf("repeating %s on the same buffers: first ok, second err=%v equal=%v", c.Op, err2, bytes.Equal(out2, out)), c)
		}
	}
	r.Shape(fmt.Sprintf("%s:pt%d:aad%d:t%d:n%d", shape, c.PtLen, c.AadLen, c.Tag, c.NLen))
}

type c10arena struct {
	Op     string
	Layout string
	Hdr    int
	PtLen  int
	AadLen int
	Tag    int
	NLen   int
}

// c10arenaEval: arguments that legally share one buffer. The AEAD contract forbids only an inexact overlap between the
// output (dst[len(dst):] up to the end of the result) and the input, and any overlap between the output and the
// additional data; everything else - additional data or nonce inside the dst prefix (the TLS record idiom), in-place
// operation behind a non-empty prefix, additional data identical to the input, all arguments adjacent - is legal.
func c10arenaEval(r *vx.R, c c10arena) {
	key := keyByName("std")
	a, path, err := newAEAD(key, c.NLen, c.Tag)
	if err != nil {
		r.Add("unsupported_on_this_path", 1)
		return
	}
	r.Eval(1)
	pt := fillLen("pt", c.PtLen)
	nonce := fillLen("nonce", c.NLen)
	aad := fillLen("aad", c.AadLen)
	hdr := vx.Fill("arenahdr", c.Hdr)
	inLen := c.PtLen
	if c.Op == "open" {
		inLen += c.Tag
	}
	rec := make([]byte, c.Hdr+c.PtLen+c.Tag+8)
	for i := range rec {
		rec[i] = 0x5A
	}
	copy(rec, hdr)
	dst := rec[:c.Hdr]
	inPlace := true
	var in []byte
	switch c.Layout {
	case "tls": // dst prefix = additional data = record header, payload sealed/opened in place behind it
		aad = rec[:c.Hdr]
	case "prefix-inplace":
	case "aad=prefix": // input elsewhere
		aad = rec[:c.Hdr]
		inPlace = false
	case "aad-in-prefix":
		aad = rec[1 : c.Hdr-1]
	case "nonce-in-prefix":
		nonce = rec[:c.NLen]
	case "aad=input": // dst nil, additional data is the very slice that is sealed/opened
		dst, inPlace = nil, false
	case "one-buffer": // nonce | aad | input adjacent in one allocation, dst nil
		dst, inPlace = nil, false
	}
	// the message that belongs to the final (nonce, aad)
	sealed := gcmref.Seal(refCipher(key), nonce, pt, aad, c.Tag)
	if c.Layout == "aad=input" {
		// aad is the input itself: seal -> aad = pt; open -> aad = ciphertext||tag, which depends on the aad: not constructible
		if c.Op == "open" {
			return
		}
		sealed = gcmref.Seal(refCipher(key), nonce, pt, pt, c.Tag)
	}
	input, wantOut := pt, sealed
	if c.Op == "open" {
		input, wantOut = sealed, pt
	}
	switch {
	case inPlace:
		copy(rec[c.Hdr:], input)
		in = rec[c.Hdr : c.Hdr+inLen]
	case c.Layout == "one-buffer":
		one := append(append(append([]byte{}, nonce...), aad...), input...)
		nonce, aad, in = one[:c.NLen], one[c.NLen:c.NLen+c.AadLen], one[c.NLen+c.AadLen:]
	default:
		in = append([]byte{}, input...)
	}
	if c.Layout == "aad=input" {
		aad = in
	}
	keepN, keepA, keepIn, keepRec := append([]byte{}, nonce...), append([]byte{}, aad...), append([]byte{}, in...), append([]byte{}, rec...)
	var out []byte
	var oerr error
	kind, msg := vx.TryFault(func() {
		if c.Op == "seal" {
			out = a.Seal(dst, nonce, in, aad)
		} else {
			out, oerr = a.Open(dst, nonce, in, aad)
		}
	})
	name := fmt.Sprintf("%s:%s", c.Op, c.Layout)
	if kind != "" {
		r.Violation("buf:arena:panic:"+name, fmt.Sprintf("%s panicked (%s) on a legal argument layout '%s' (hdr %d, msg %d, aad %d, tag %d, nonce %d) [%s]: %s", c.Op, kind, c.Layout, c.Hdr, c.PtLen, len(aad), c.Tag, c.NLen, path, msg), c)
		return
	}
	if oerr != nil {
		r.Violation("buf:arena:error:"+name, fmt.Sprintf("Open of an authentic message failed in layout '%s': %v [%s]", c.Layout, oerr, path), c)
		return
	}
	want := append(append([]byte{}, keepRec[:len(dst)]...), wantOut...)
	if !bytes.Equal(out, want) {
		r.Violation("buf:arena:result:"+name, fmt.Sprintf("layout '%s': result (len %d) is not dst||output (len %d) [%s]", c.Layout, len(out), len(want), path), c)
	}
	if !bytes.Equal(rec[:c.Hdr], keepRec[:c.Hdr]) {
		r.Violation("buf:arena:prefix-modified:"+name, "the dst prefix (record header) was changed", c)
	}
	if c.Layout != "nonce-in-prefix" && !bytes.Equal(nonce, keepN) {
		r.Violation("buf:arena:nonce-modified:"+name, "nonce modified", c)
	}
	if !inPlace && c.Layout != "aad=input" && !bytes.Equal(aad, keepA) || !inPlace && !bytes.Equal(in, keepIn) {
		r.Violation("buf:arena:input-modified:"+name, "additional data or input modified although nothing overlaps the output", c)
	}
	if inPlace && c.Op == "open" && !bytes.Equal(in[c.PtLen:], keepIn[c.PtLen:]) {
		r.Violation("buf:arena:tag-modified:"+name, fmt.Sprintf("in-place Open changed the tag bytes of the caller's ciphertext [%s]", path), c)
	}
	if c.Op == "open" && (c.Layout == "tls" || c.Layout == "aad=prefix") {
		// a forged record in the same layout: rejected, header (dst prefix = additional data) intact
		copy(rec, keepRec)
		if inPlace {
			copy(rec[c.Hdr:], input)
			rec[c.Hdr+inLen-1] ^= 0x20
		} else {
			in = append([]byte{}, input...)
			in[len(in)-1] ^= 0x20
		}
		var ferr error
		kind, msg = vx.TryFault(func() { _, ferr = a.Open(rec[:c.Hdr], nonce, in, rec[:c.Hdr]) })
		if kind != "" {
			r.Violation("buf:arena:forged:panic:"+name, msg, c)
		} else if ferr == nil {
			r.Violation("buf:arena:forged:accepted:"+name, "forged record accepted", c)
		} else if !bytes.Equal(rec[:c.Hdr], keepRec[:c.Hdr]) {
			r.Violation("buf:arena:forged:header-modified:"+name, fmt.Sprintf("a rejected Open changed the record header (dst prefix / additional data) [%s]", path), c)
		}
	}
	r.Shape(fmt.Sprintf("arena:%s:h%d:pt%d:aad%d:t%d:n%d", name, c.Hdr, c.PtLen, c.AadLen, c.Tag, c.NLen))
}

// c10overEval: layouts in which the output region lies over an argument the operation has finished with before its
// first output byte is written - legal under the crypto/cipher rules (which restrict the output only against the
// plaintext / ciphertext body and the additional data) and handled by the standard library's GCM:
//
//	out-over-tag     Open: ciphertext||tag = rec[:n+t], dst = rec[n:n], so the plaintext is written over the received tag
//	nonce-in-output  Seal / Open: dst = work[:0], the nonce lives at work[off:off+len(nonce)] inside the region the output
//	                 will occupy (Hdr is the offset; the input is elsewhere)
func c10overEval(r *vx.R, c c10arena) {
	key := keyByName("std")
	a, path, err := newAEAD(key, c.NLen, c.Tag)
	if err != nil {
		r.Add("unsupported_on_this_path", 1)
		return
	}
	r.Eval(1)
	pt, nonce0, aad := fillLen("pt", c.PtLen), fillLen("nonce", c.NLen), fillLen("aad", c.AadLen)
	sealed := gcmref.Seal(refCipher(key), nonce0, pt, aad, c.Tag)
	input, wantOut := pt, sealed
	if c.Op == "open" {
		input, wantOut = sealed, pt
	}
	work := bytes.Repeat([]byte{0x5A}, 2*len(sealed)+c.Hdr+c.NLen+32)
	var dst, in, nonce []byte
	switch c.Layout {
	case "out-over-tag":
		if c.Op != "open" || c.PtLen == 0 {
			return
		}
		copy(work, sealed)
		in, dst, nonce = work[:len(sealed)], work[c.PtLen:c.PtLen], append([]byte{}, nonce0...)
	case "nonce-in-output":
		if c.Hdr+c.NLen > len(wantOut) {
			return // the nonce would not lie inside the output region
		}
		copy(work[c.Hdr:], nonce0)
		in, dst, nonce = append([]byte{}, input...), work[:0], work[c.Hdr:c.Hdr+c.NLen]
	}
	keepIn := append([]byte{}, in...)
	var out []byte
	var oerr error
	kind, msg := vx.TryFault(func() {
		if c.Op == "seal" {
			out = a.Seal(dst, nonce, in, aad)
		} else {
			out, oerr = a.Open(dst, nonce, in, aad)
		}
	})
	name := fmt.Sprintf("%s:%s", c.Op, c.Layout)
	if kind != "" {
		r.Violation("buf:arena:panic:"+name, fmt.Sprintf("%s panicked (%s) on the legal argument layout '%s' (offset %d, msg %d, tag %d, nonce %d) [%s]: %s", c.Op, kind, c.Layout, c.Hdr, c.PtLen, c.Tag, c.NLen, path, msg), c)
		return
	}
	if oerr != nil {
		r.Violation("buf:arena:error:"+name, fmt.Sprintf("Open of an authentic message failed in layout '%s' (msg %d, tag %d, offset %d): %v [%s]", c.Layout, c.PtLen, c.Tag, c.Hdr, oerr, path), c)
		return
	}
	if !bytes.Equal(out, wantOut) {
		r.Violation("buf:arena:result:"+name, fmt.Sprintf("layout '%s' (msg %d, tag %d, nonce %d at offset %d): the result is not the output for these arguments [%s]", c.Layout, c.PtLen, c.Tag, c.NLen, c.Hdr, path), c)
	}
	if c.Layout == "out-over-tag" && !bytes.Equal(in[:c.PtLen], keepIn[:c.PtLen]) || c.Layout == "nonce-in-output" && !bytes.Equal(in, keepIn) {
		r.Violation("buf:arena:input-modified:"+name, "the input body was modified although the output does not overlap it", c)
	}
	r.Shape(fmt.Sprintf("arena:%s:o%d:pt%d:t%d:n%d", name, c.Hdr, c.PtLen, c.Tag, c.NLen))
}

func spareClass(s string) string {
	switch s {
	case "nil", "empty", "inplace":
		return s
	case "need", "need+1", "need+64", "need+64ro":
		return "enough"
	}
	return "short"
}

func TestVX_C10_GCM(t *testing.T) {
	r := vx.Begin("C10", gcmPart("buffers-gcm"), "Seal and Open with every destination shape: len(dst) in {0..9,11,15,16,17,31,39} x spare capacity in {0,1,need-1,need,need+1,need+64}, nil, non-nil empty, and the in-place idiom dst=input[:0] - x message lengths {0,1,15,16,17,64,255,256,257,1100} x aad {0,17} x tag {12,16} x nonce {12,16}; each call repeated on the same buffers; arguments sharing one buffer in every legal way: TLS record idiom (dst prefix = additional data, payload in place behind it), in place behind a prefix, additional data / nonce inside the prefix, additional data = input, nonce|aad|input adjacent - headers {1,5,13,16,17} x messages {0,1,3,4,15,16,17,20,33,64,255,256,257,1100}; in-place Open leaves the tag bytes of the caller's ciphertext alone; bytes behind the result inside the destination's capacity keep their fill; every Open is repeated on a forged message (error, nil result, dst prefix / header / inputs untouched). Oracle: result == dst||gcmref output, first len(dst) bytes unchanged, nonce/aad/input unchanged (except the exactly overlapping destination), second call == first call")
	defer r.End()
	selfCheck()
	if raw, ok := vx.Replay(gcmPart("buffers-gcm")); ok {
		var probe map[string]interface{}
		json.Unmarshal(raw, &probe)
		if _, ok := probe["Layout"]; ok {
			var c c10arena
			json.Unmarshal(raw, &c)
			if c.Layout == "out-over-tag" || c.Layout == "nonce-in-output" {
				c10overEval(r, c)
				return
			}
			c10arenaEval(r, c)
			return
		}
		var c c10case
		json.Unmarshal(raw, &c)
		c10eval(r, c)
		return
	}
	n := 0
	for _, op := range []string{"seal", "open"} {
		for _, pl := range []int{1, 3, 5, 12, 15, 16, 17, 20, 21, 33, 48, 64, 100, 255, 256, 257, 1000, 1100} {
			for _, tag := range []int{12, 16} {
				for _, nl := range []int{12, 16} {
					n++
					if !vx.MineIdx(n) {
						continue
					}
					c10overEval(r, c10arena{op, "out-over-tag", 0, pl, 17, tag, nl})
					for _, off := range []int{0, 1, 3, 4, 16, pl - nl, pl - nl + 4, pl + tag - nl} {
						if off >= 0 {
							c10overEval(r, c10arena{op, "nonce-in-output", off, pl, 17, tag, nl})
						}
					}
				}
			}
		}
	}
	for _, op := range []string{"seal", "open"} {
		for _, lay := range []string{"tls", "prefix-inplace", "aad=prefix", "aad-in-prefix", "nonce-in-prefix", "aad=input", "one-buffer"} {
			for _, hdr := range []int{1, 5, 13, 16, 17} {
				for _, pl := range []int{0, 1, 3, 4, 15, 16, 17, 20, 33, 64, 255, 256, 257, 1100} {
					for _, tag := range []int{12, 16} {
						for _, nl := range []int{12, 16} {
							if nl == 16 && pl%16 != 1 && lay != "nonce-in-prefix" {
								continue
							}
							if lay == "aad-in-prefix" && hdr < 3 || lay == "nonce-in-prefix" && hdr < nl {
								continue
							}
							if (lay == "aad=input" || lay == "one-buffer") && hdr != 5 {
								continue
							}
							n++
							if !vx.MineIdx(n) {
								continue
							}
							c10arenaEval(r, c10arena{op, lay, hdr, pl, 17, tag, nl})
						}
					}
				}
			}
		}
	}
	for _, op := range []string{"seal", "open"} {
		for _, pl := range []int{0, 1, 15, 16, 17, 64, 255, 256, 257, 1100} {
			for _, al := range []int{0, 17} {
				for _, tag := range []int{12, 16} {
					for _, nl := range []int{12, 16} {
						if nl == 16 && !(pl == 17 || pl == 256) {
							continue
						}
						for _, dl := range []int{0, 1, 2, 3, 4, 5, 6, 7, 8, 9, 11, 15, 16, 17, 31, 39, 63, 64, 65, 100, 127, 128, 129, 191, 193, 255, 256, 257, 300, 1000, 2049} {
							for _, sp := range []string{"nil", "empty", "0", "1", "need-1", "need", "need+1", "need+64", "need+64ro", "inplace"} {
								if (sp == "nil" || sp == "empty" || sp == "inplace") && dl != 0 {
									continue
								}
								n++
								if !vx.MineIdx(n) {
									continue
								}
								c := c10case{op, pl, al, tag, nl, dl, sp, true}
								c10eval(r, c)
								r.Sample(c)
							}
						}
					}
				}
			}
		}
	}
}

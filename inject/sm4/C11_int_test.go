//go:build verif && amd64

package sm4

import (
	"bytes"
	"encoding/json"
	"fmt"
	"testing"
	"unsafe"

	"verif/guard"
	"verif/refs/gcmref"
	"verif/refs/sm4ref"
	"verif/vx"
)

type c11icase struct {
	Fn   string
	Arg  string
	Side string
	N    int
}

var c11ia = map[string]*guard.Arena{}

func c11arena(name string) *guard.Arena {
	if a, ok := c11ia[name]; ok {
		return a
	}
	a := guard.New(3)
	c11ia[name] = a
	return a
}

// at places b flush against a guard page when arg == want, else on the heap
func at(c c11icase, want string, b []byte) []byte {
	if c.Arg != want {
		return append(make([]byte, 0, len(b)), b...)
	}
	if c.Side == "tail" {
		return c11arena(want).Tail(b)
	}
	return c11arena(want).Head(b)
}

func u32bytes(v []uint32) []byte {
	b := make([]byte, 4*len(v))
	for i, x := range v {
		b[4*i], b[4*i+1], b[4*i+2], b[4*i+3] = byte(x), byte(x>>8), byte(x>>16), byte(x>>24)
	}
	return b
}

func p8(b []byte) *byte {
	if len(b) == 0 {
		var z [1]byte
		return &z[0]
	}
	return &b[0]
}
func p32(b []byte) *uint32 { return (*uint32)(unsafe.Pointer(&b[0])) }

// c11proto: does the routine, called the way this driver calls it, still give the reference result when all its
// arguments are ordinary heap memory? The driver reaches past the exported API and binds to the internal calling
// protocol of the assembly routines (argument order, scratch size, which routine prepares what for which); a
// restructuring of the internals that changes the protocol is not a defect. A routine that fails this probe is not
// judged by this part (reported as a lost seam); the same code is still covered through the public API (guard-public).
var c11proto = map[string]bool{}

func c11probe(fn string, n int) bool {
	if v, ok := c11proto[fmt.Sprintf("%s/%d", fn, n)]; ok {
		return v
	}
	kind, _, bad := c11body(c11icase{fn, "none", "plain", n})
	ok := kind == "" && bad == ""
	c11proto[fmt.Sprintf("%s/%d", fn, n)] = ok
	return ok
}

func c11ieval(r *vx.R, c c11icase) {
	if !c11probe(c.Fn, c.N) {
		r.NotExhaustive("the in-package calling protocol of " + c.Fn + " no longer matches this driver (wrong result or fault on plain heap arguments): routine not judged here")
		return
	}
	r.Eval(1)
	kind, msg, bad := c11body(c)
	key2 := fmt.Sprintf("mem:asm:%s:%s-at-%s", c.Fn, c.Arg, c.Side)
	if kind == "fault" {
		r.Violation(key2+":fault", fmt.Sprintf("assembly routine %s accessed memory outside its %s argument (n=%d): %s", c.Fn, c.Arg, c.N, msg), c)
	} else if kind != "" {
		r.Violation(key2+":panic", msg, c)
	} else if bad != "" {
		r.Violation(key2+":result", bad, c)
	}
	r.Shape(fmt.Sprintf("%s:%s:%s:%d", c.Fn, c.Arg, c.Side, c.N))
}

func c11body(c c11icase) (kind, msg, bad string) {
	key := vx.UnHex("0123456789abcdeffedcba9876543210")
	ref := sm4ref.New(key)
	rkb := u32bytes(ref.RK[:])
	kind, msg = vx.TryFault(func() {
		switch c.Fn {
		case "block1", "block2", "block4", "block8", "block16":
			w := map[string]int{"block1": 1, "block2": 2, "block4": 4, "block8": 8, "block16": 16}[c.Fn]
			in := vx.Fill("c11iblk", 16*w)
			rk := at(c, "rk", rkb)
			src := at(c, "src", in)
			dst := at(c, "dst", make([]byte, 16*w))
			switch w {
			case 1:
				cryptoBlockAsm(p32(rk), &dst[0], &src[0])
			case 2:
				cryptoBlockAsmX2(p32(rk), &dst[0], &src[0])
			case 4:
				cryptoBlockAsmX4(p32(rk), &dst[0], &src[0])
			case 8:
				cryptoBlockAsmX8(p32(rk), &dst[0], &src[0])
			case 16:
				cryptoBlockAsmX16(p32(rk), &dst[0], &src[0])
			}
			for l := 0; l < w; l++ {
				want := ref.Encrypt(in[16*l:])
				if !bytes.Equal(dst[16*l:16*l+16], want[:]) {
					bad = "wrong ciphertext"
				}
			}
		case "expandKey":
			k := at(c, "key", key)
			enc := at(c, "enc", make([]byte, 128))
			dec := at(c, "dec", make([]byte, 128))
			expandKeyAsm(&k[0], p32(enc), p32(dec))
			if !bytes.Equal(enc, rkb) {
				bad = "wrong round keys"
			}
		case "ghash":
			h := at(c, "h", vx.Fill("c11ih", 16))
			tag := at(c, "tag", vx.Fill("c11it", 16))
			data := at(c, "data", vx.Fill("c11id", 16*c.N))
			var hb, tb gcmref.Block
			copy(hb[:], h)
			copy(tb[:], tag)
			// Y_i = (Y_{i-1} xor X_i) * H starting from Y_0 = tag
			y := tb
			for i := 0; i < c.N; i++ {
				for k := 0; k < 16; k++ {
					y[k] ^= data[16*i+k]
				}
				y = gcmref.Mul(y, hb)
			}
			if c.N > 0 {
				gHashBlocks(&h[0], &tag[0], &data[0], c.N)
				if !bytes.Equal(tag, y[:]) {
					bad = "wrong GHASH"
				}
			}
		case "copy":
			src := at(c, "src", vx.Fill("c11ic", c.N))
			dst := at(c, "dst", make([]byte, c.N))
			copyAsm(p8(dst), p8(src), c.N)
			if !bytes.Equal(dst, src) {
				bad = "wrong copy"
			}
		case "seal", "open":
			// round keys and the 128-byte scratch block flush against guard pages; data arguments on the heap
			rk := at(c, "rk", rkb)
			temp := at(c, "temp", make([]byte, 128))
			nonce, pt, aad := vx.Fill("c11in", 12), vx.Fill("c11ip", c.N), vx.Fill("c11iaad", 7)
			sealed := gcmref.Seal(ref, nonce, pt, aad, 16)
			if c.Fn == "seal" {
				out := make([]byte, c.N+16)
				sealAsm(p32(rk), 16, &out[0], nonce, pt, aad, &temp[0])
				if !bytes.Equal(out, sealed) {
					bad = "wrong sealed output"
				}
			} else {
				out := make([]byte, c.N+1)
				m := openAsm(p32(rk), 16, &out[0], nonce, append([]byte{}, sealed...), aad, &temp[0])
				if m != 1 || !bytes.Equal(out[:c.N], pt) {
					bad = "wrong opened output"
				}
			}
		}
	})
	return kind, msg, bad
}

func TestVX_C11_Asm(t *testing.T) {
	r := vx.Begin("C11", "guard-asm", "every pointer argument of every amd64 assembly routine placed flush against an inaccessible page before and after: cryptoBlockAsm{,X2,X4,X8,X16} (rk, dst, src), expandKeyAsm (key, enc, dec), gHashBlocks (H, tag, data; block counts 0..20), copyAsm (dst, src; lengths 0..40), sealAsm/openAsm (round keys, 128-byte scratch; message lengths 0..300). Oracle: no fault and the reference result")
	defer r.End()
	if !candoAsm {
		r.NotExhaustive("CPU lacks the accelerated path")
		return
	}
	if raw, ok := vx.Replay("guard-asm"); ok {
		var c c11icase
		json.Unmarshal(raw, &c)
		c11ieval(r, c)
		return
	}
	n := 0
	run := func(c c11icase) {
		n++
		if vx.MineIdx(n) {
			c11ieval(r, c)
			r.Sample(c)
		}
	}
	for _, side := range []string{"tail", "head"} {
		for _, fn := range []string{"block1", "block2", "block4", "block8", "block16"} {
			for _, arg := range []string{"rk", "dst", "src"} {
				run(c11icase{fn, arg, side, 0})
			}
		}
		for _, arg := range []string{"key", "enc", "dec"} {
			run(c11icase{"expandKey", arg, side, 0})
		}
		for cnt := 0; cnt <= 20; cnt++ {
			for _, arg := range []string{"h", "tag", "data"} {
				run(c11icase{"ghash", arg, side, cnt})
			}
		}
		for l := 0; l <= 40; l++ {
			for _, arg := range []string{"dst", "src"} {
				run(c11icase{"copy", arg, side, l})
			}
		}
		for l := 0; l <= 300; l++ {
			for _, arg := range []string{"rk", "temp"} {
				run(c11icase{"seal", arg, side, l})
				run(c11icase{"open", arg, side, l})
			}
		}
	}
}

//go:build verif

package sm4_test

import (
	"bytes"
	"encoding/json"
	"fmt"
	"testing"

	"github.com/bilibili/smgo/sm4"
	"verif/guard"
	"verif/refs/gcmref"
	"verif/vx"
)

type c11case struct {
	Op     string // seal | open | encrypt | decrypt | newcipher | short-encrypt | short-decrypt
	Arg    string // which argument is placed against a guard page: pt | aad | nonce | dst | ct | src | key
	Side   string // tail | head
	PtLen  int
	AadLen int
	NLen   int
	Tag    int
	SrcLen int // misuse: short src/dst lengths
	DstLen int
	// Forged (open): one bit of the tag is flipped before the ciphertext is placed. The rejecting path must stay inside
	// the same memory as the accepting one: no fault, nothing written behind the len(ciphertext)-tagSize bytes of output
	Forged bool
}

var c11arena = map[string]*guard.Arena{}

func arena(name string) *guard.Arena {
	if a, ok := c11arena[name]; ok {
		return a
	}
	a := guard.New(2)
	c11arena[name] = a
	return a
}

func place(name, arg, side string, want string, b []byte) []byte {
	if arg != want {
		// not the argument under test: ordinary heap copy
		return append(make([]byte, 0, len(b)), b...)
	}
	if side == "tail" {
		return arena(name).Tail(b)
	}
	var k int
	if n, _ := fmt.Sscanf(side, "gap%d", &k); n == 1 {
		// ends k bytes before the inaccessible page: an over-read of up to k bytes goes unnoticed, a longer one faults
		return arena(name).TailGap(b, k)
	}
	if n, _ := fmt.Sscanf(side, "cross%d", &k); n == 1 {
		// ends k bytes after (k < 0: before) the boundary between the two accessible pages of the arena
		off := guard.Page + k - len(b)
		if off < 0 {
			off = 0
		}
		return arena(name).At(b, off)
	}
	return arena(name).Head(b)
}

func c11eval(r *vx.R, c c11case) {
	r.Eval(1)
	key := keyByName("std")
	shape := fmt.Sprintf("%s:%s:%s", c.Op, c.Arg, c.Side)
	switch c.Op {
	case "seal", "open":
		nonce0, pt0, aad0 := fillLen("nonce", c.NLen), fillLen("pt", c.PtLen), fillLen("aad", c.AadLen)
		sealed := gcmref.Seal(refCipher(key), nonce0, pt0, aad0, c.Tag)
		a, _, err := newAEAD(key, c.NLen, c.Tag)
		if err != nil {
			r.Add("unsupported_on_this_path", 1)
			return
		}
		if c.Forged {
			sealed = append([]byte{}, sealed...)
			sealed[len(sealed)-1-(c.PtLen%c.Tag)] ^= 1 << uint(c.PtLen%8)
			shape += ":forged"
		}
		nonce := place("nonce", c.Arg, c.Side, "nonce", nonce0)
		aad := place("aad", c.Arg, c.Side, "aad", aad0)
		var in, want []byte
		if c.Op == "seal" {
			in, want = place("in", c.Arg, c.Side, "pt", pt0), sealed
		} else {
			in, want = place("in", c.Arg, c.Side, "ct", sealed), pt0
		}
		var dst []byte
		if c.Arg == "dst" {
			// destination with exactly the needed capacity, ending (tail) or starting (head) at a guard page
			d := make([]byte, len(want))
			dst = place("dst", "dst", c.Side, "dst", d)[:0]
		}
		var roomy []byte
		if c.Arg == "dstroomy" || (c.Forged && c.Arg != "dst") {
			// (a forged message always gets a destination with canaries behind the output area: an overrun of the rejecting
			// path is then seen in the canaries instead of damaging a neighbouring heap object of the driver)
			// destination with 48 bytes more capacity than needed: what lies behind the result stays the caller's
			roomy = bytes.Repeat([]byte{0xA5}, len(want)+48)
			dst = roomy[:0]
		}
		var out []byte
		var oerr error
		kind, msg := vx.TryFault(func() {
			if c.Op == "seal" {
				out = a.Seal(dst, nonce, in, aad)
			} else {
				out, oerr = a.Open(dst, nonce, in, aad)
			}
		})
		if kind == "fault" {
			cls := "whole-blocks"
			if c.PtLen%16 != 0 {
				cls = "partial-block"
			}
			r.Violation(fmt.Sprintf("mem:%s:fault:%s-at-%s:%s", c.Op, c.Arg, sideClass(c.Side), cls), fmt.Sprintf("%s touched memory outside its arguments: %s (pt/ct %d bytes, aad %d, nonce %d, tag %d; %s placed at the %s of mapped memory)", c.Op, msg, len(in), c.AadLen, c.NLen, c.Tag, c.Arg, c.Side), c)
			return
		}
		if kind != "" {
			r.Violation("mem:"+c.Op+":panic", fmt.Sprintf("%s panicked on a valid call: %s", c.Op, msg), c)
			return
		}
		if c.Forged {
			if oerr == nil {
				r.Violation("mem:open:forged-accepted", fmt.Sprintf("Open accepted a ciphertext whose tag has one bit flipped (%d bytes, tag %d)", c.PtLen, c.Tag), c)
			}
			if roomy != nil {
				for i := len(want); i < len(roomy); i++ {
					if roomy[i] != 0xA5 {
						r.Violation(fmt.Sprintf("mem:open:rejected-writes-behind-output:tag%d", c.Tag), fmt.Sprintf("a rejected Open wrote behind the %d bytes of its output area into the spare capacity of dst (first changed byte at offset %d, tag size %d)", len(want), i, c.Tag), c)
						break
					}
				}
			}
		} else if oerr != nil || !bytes.Equal(out, want) {
			r.Violation("mem:"+c.Op+":wrong-result", fmt.Sprintf("%s returned a wrong result with %s at the %s of mapped memory (err=%v)", c.Op, c.Arg, c.Side, oerr), c)
		}
		if roomy != nil && len(out) > 0 && &out[0] == &roomy[0] {
			for i := len(out); i < len(roomy); i++ {
				if roomy[i] != 0xA5 {
					r.Violation(fmt.Sprintf("mem:%s:writes-behind-result:tag%d", c.Op, c.Tag), fmt.Sprintf("%s wrote %d byte(s) behind its %d-byte result into the spare capacity of dst (tag size %d)", c.Op, i-len(out)+1, len(out), c.Tag), c)
					break
				}
			}
		}
		shape += fmt.Sprintf(":pt%d:aad%d:n%d:t%d", c.PtLen, c.AadLen, c.NLen, c.Tag)
	case "open-short":
		// misuse: a ciphertext shorter than its tag, flush against a guard page before (head) or after (tail), with a nil
		// and with a roomy destination: an error or a Go panic is fine, touching memory outside the ciphertext is not
		a, _, err := newAEAD(key, c.NLen, c.Tag)
		if err != nil {
			r.Add("unsupported_on_this_path", 1)
			return
		}
		nonce := fillLen("nonce", c.NLen)
		aad := fillLen("aad", c.AadLen)
		ct := place("in", "ct", c.Side, "ct", vx.Fill("c11shortct", c.SrcLen))
		for _, roomy := range []bool{false, true} {
			var dst []byte
			if roomy {
				dst = make([]byte, 3, 64)
			}
			var out []byte
			var oerr error
			kind, msg := vx.TryFault(func() { out, oerr = a.Open(dst, nonce, ct, aad) })
			if kind == "fault" {
				r.Violation(fmt.Sprintf("mem:open:fault:short-ciphertext-at-%s", c.Side), fmt.Sprintf("Open of a %d-byte ciphertext (tag size %d, roomy dst %v) touched memory outside it: %s", c.SrcLen, c.Tag, roomy, msg), c)
			} else if kind == "" && oerr == nil {
				r.Violation("mem:open:accepts-short-ciphertext", fmt.Sprintf("Open accepted a %d-byte ciphertext with a %d-byte tag and returned %d bytes", c.SrcLen, c.Tag, len(out)), c)
			}
		}
		shape += fmt.Sprintf(":ct%d:t%d", c.SrcLen, c.Tag)
	case "encrypt", "decrypt":
		blk, _ := sm4.NewCipher(key)
		src0 := vx.Fill("c11src", 16)
		want := refCipher(key).Encrypt(src0)
		if c.Op == "decrypt" {
			want = refCipher(key).Decrypt(src0)
		}
		src := place("src", c.Arg, c.Side, "src", src0)
		dst := place("dst", c.Arg, c.Side, "dst", make([]byte, 16))
		kind, msg := vx.TryFault(func() {
			if c.Op == "encrypt" {
				blk.Encrypt(dst, src)
			} else {
				blk.Decrypt(dst, src)
			}
		})
		if kind != "" {
			r.Violation(fmt.Sprintf("mem:%s:%s:%s-at-%s", c.Op, kind, c.Arg, c.Side), msg, c)
			return
		}
		if !bytes.Equal(dst, want[:]) {
			r.Violation("mem:"+c.Op+":wrong-result", "wrong block result", c)
		}
	case "newcipher":
		k := place("key", c.Arg, c.Side, "key", key)
		kind, msg := vx.TryFault(func() {
			blk, err := sm4.NewCipher(k)
			if err != nil {
				panic(err)
			}
			out := make([]byte, 16)
			blk.Encrypt(out, stdKey)
			if vx.Hex(out) != "681edf34d206965e86b3e94f536e4246" {
				panic("wrong ciphertext")
			}
		})
		if kind != "" {
			r.Violation(fmt.Sprintf("mem:newcipher:%s:key-at-%s", kind, c.Side), msg, c)
		}
	case "short-encrypt", "short-decrypt":
		// misuse: a source or destination shorter than one block must end in a Go panic (or be refused), never in a
		// silent out-of-range access. The short buffer sits flush against the trailing guard page (reads/writes past it
		// fault) and, separately, between canaries (silent writes are seen).
		blk, _ := sm4.NewCipher(key)
		for _, placement := range []string{"tail", "mid"} {
			srcData := vx.Fill("c11short", c.SrcLen)
			var src, dst []byte
			ad := arena("dst")
			ad.Fill(0xA5)
			if placement == "tail" {
				src = arena("src").Tail(srcData)
				dst = ad.Tail(make([]byte, c.DstLen))
				for i := range dst {
					dst[i] = 0xA5
				}
			} else {
				src = arena("src").Mid(srcData)
				dst = ad.Mid(bytes.Repeat([]byte{0xA5}, c.DstLen))
			}
			kind, msg := vx.TryFault(func() {
				if c.Op == "short-encrypt" {
					blk.Encrypt(dst, src)
				} else {
					blk.Decrypt(dst, src)
				}
			})
			which := "src"
			if c.SrcLen >= 16 {
				which = "dst"
			}
			switch {
			case kind == "fault":
				r.Violation(fmt.Sprintf("mem:%s:fault:short-%s", c.Op, which), fmt.Sprintf("%s with len(src)=%d len(dst)=%d accessed memory past the short buffer: %s", c.Op, c.SrcLen, c.DstLen, msg), c)
			case kind == "":
				r.Violation(fmt.Sprintf("mem:%s:silent:short-%s", c.Op, which), fmt.Sprintf("%s with len(src)=%d len(dst)=%d neither panicked nor failed: it silently read or wrote past a buffer shorter than one block (%s placement)", c.Op, c.SrcLen, c.DstLen, placement), c)
			}
			if !ad.CanaryIntact(dst, 0xA5) {
				r.Violation(fmt.Sprintf("mem:%s:overwrite:short-dst", c.Op), fmt.Sprintf("%s with len(dst)=%d wrote outside dst", c.Op, c.DstLen), c)
			}
		}
		shape += fmt.Sprintf(":src%d:dst%d", c.SrcLen, c.DstLen)
	}
	r.Shape(shape)
}

func b2i(b bool) int {
	if b {
		return 1
	}
	return 0
}

func TestVX_C11(t *testing.T) {
	r := vx.Begin("C11", gcmPart("guard-public"), "every slice argument of Seal/Open (plaintext/ciphertext, aad, nonce, dst) and of Encrypt/Decrypt/NewCipher placed so that it ends exactly at (tail) or starts exactly after (head) an inaccessible page (mmap + PROT_NONE, faults turned into panics carrying Addr()): plaintext/ciphertext lengths 0..1100, aad lengths 0..1100, nonce lengths 1..300, tags 12..16; the same arguments ending 1..16 bytes before the inaccessible page and -15..15 bytes around the boundary between two accessible pages (lengths 1..48, 63..65, 100, 257); misuse: Encrypt/Decrypt with len(src) or len(dst) in 0..15 flush against a guard page and between canaries; Open of every ciphertext shorter than the tag (tags 12..16) flush against a guard page before and after, with nil and roomy dst. a destination with 48 spare bytes keeps them; Oracle: no fault, no damaged canary; valid calls still equal the reference; misuse ends in a Go panic")
	defer r.End()
	selfCheck()
	if raw, ok := vx.Replay(gcmPart("guard-public")); ok {
		var c c11case
		json.Unmarshal(raw, &c)
		c11eval(r, c)
		return
	}
	n := 0
	run := func(c c11case) {
		n++
		if !vx.MineIdx(n) {
			return
		}
		if r.Expired() {
			return
		}
		c11eval(r, c)
		r.Sample(c)
		if c.Op == "open" {
			c.Forged = true
			c11eval(r, c)
		}
	}
	th := vx.Thorough()
	for _, side := range []string{"tail", "head"} {
		for l := 0; l <= 1100; l++ {
			tags := []int{16, 12}
			if th {
				tags = []int{12, 13, 14, 15, 16}
			}
			for _, tag := range tags {
				if !th && tag == 12 && l > 300 && l%16 > 4 {
					continue
				}
				run(c11case{Op: "seal", Arg: "pt", Side: side, PtLen: l, AadLen: 5, NLen: 12, Tag: tag})
				run(c11case{Op: "open", Arg: "ct", Side: side, PtLen: l, AadLen: 5, NLen: 12, Tag: tag})
				run(c11case{Op: "seal", Arg: "dst", Side: side, PtLen: l, AadLen: 5, NLen: 12, Tag: tag})
				run(c11case{Op: "open", Arg: "dst", Side: side, PtLen: l, AadLen: 5, NLen: 12, Tag: tag})
				if side == "tail" && (l <= 300 || th) {
					run(c11case{Op: "seal", Arg: "dstroomy", Side: side, PtLen: l, AadLen: 5, NLen: 12, Tag: tag})
					run(c11case{Op: "open", Arg: "dstroomy", Side: side, PtLen: l, AadLen: 5, NLen: 12, Tag: tag})
				}
			}
			run(c11case{Op: "seal", Arg: "aad", Side: side, PtLen: 33, AadLen: l, NLen: 12, Tag: 16})
			run(c11case{Op: "open", Arg: "aad", Side: side, PtLen: 33, AadLen: l, NLen: 12, Tag: 16})
		}
		for nl := 1; nl <= 300; nl++ {
			run(c11case{Op: "seal", Arg: "nonce", Side: side, PtLen: 17, AadLen: 3, NLen: nl, Tag: 16})
			run(c11case{Op: "open", Arg: "nonce", Side: side, PtLen: 17, AadLen: 3, NLen: nl, Tag: 16})
		}
		for _, op := range []string{"encrypt", "decrypt"} {
			run(c11case{Op: op, Arg: "src", Side: side})
			run(c11case{Op: op, Arg: "dst", Side: side})
		}
		run(c11case{Op: "newcipher", Arg: "key", Side: side})
	}
	// placements at every distance 1..16 from the inaccessible page, and across the boundary between two accessible pages
	// at every offset -15..15 (code that switches to a "safe" path next to a page boundary): short lengths, where partial
	// blocks and their staging live
	var sides []string
	for g := 1; g <= 16; g++ {
		sides = append(sides, fmt.Sprintf("gap%d", g))
	}
	for k := -15; k <= 15; k++ {
		sides = append(sides, fmt.Sprintf("cross%d", k))
	}
	lens := []int{}
	for l := 1; l <= 48; l++ {
		lens = append(lens, l)
	}
	lens = append(lens, 63, 64, 65, 100, 257)
	for _, side := range sides {
		for _, l := range lens {
			if !th && l > 34 && l < 48 {
				continue
			}
			for _, tag := range []int{16, 13} {
				run(c11case{Op: "seal", Arg: "pt", Side: side, PtLen: l, AadLen: 5, NLen: 12, Tag: tag})
				run(c11case{Op: "open", Arg: "ct", Side: side, PtLen: l, AadLen: 5, NLen: 12, Tag: tag})
				run(c11case{Op: "seal", Arg: "dst", Side: side, PtLen: l, AadLen: 5, NLen: 12, Tag: tag})
			}
			run(c11case{Op: "seal", Arg: "aad", Side: side, PtLen: 33, AadLen: l, NLen: 12, Tag: 16})
			run(c11case{Op: "open", Arg: "aad", Side: side, PtLen: 20, AadLen: l, NLen: 12, Tag: 16})
			if l <= 48 && l != 12 {
				run(c11case{Op: "seal", Arg: "nonce", Side: side, PtLen: 17, AadLen: 3, NLen: l, Tag: 16})
			}
		}
	}
	for tag := 12; tag <= 16; tag++ {
		for l := 0; l < tag; l++ {
			for _, side := range []string{"head", "tail"} {
				run(c11case{Op: "open-short", Arg: "ct", Side: side, SrcLen: l, Tag: tag, NLen: 12, AadLen: 3})
			}
		}
	}
	for l := 0; l <= 15; l++ {
		for _, op := range []string{"short-encrypt", "short-decrypt"} {
			run(c11case{Op: op, SrcLen: l, DstLen: 16})
			run(c11case{Op: op, SrcLen: 16, DstLen: l})
			run(c11case{Op: op, SrcLen: l, DstLen: l})
		}
	}
}

// sideClass drops the distance from a gapN / crossK placement (violation keys are per placement class).
func sideClass(s string) string {
	for i, ch := range s {
		if ch == '-' || (ch >= '0' && ch <= '9') {
			return s[:i]
		}
	}
	return s
}

//go:build verif

package sm4_test

import (
	"crypto/cipher"
	"encoding/json"
	"fmt"
	"os"
	"reflect"
	"testing"
	"time"
	"unsafe"

	"github.com/bilibili/smgo/sm3"
	"github.com/bilibili/smgo/sm4"
	"verif/refs/gcmref"
	"verif/sched"
	"verif/vx"
)

func shareObj(e *sched.Exec, name string, x interface{}) {
	if e == nil {
		return
	}
	v := reflect.ValueOf(x)
	if v.Kind() == reflect.Ptr && !v.IsNil() {
		e.ShareMem(name, unsafe.Pointer(v.Pointer()), int(v.Type().Elem().Size()))
	}
}

func share(e *sched.Exec, name string, b []byte) {
	if e != nil {
		e.Share(name, b, true)
	}
}

func c17Scenarios() []*sched.Scenario {
	key := keyByName("std")
	mk := func(nonceLen, tag int) cipher.AEAD {
		a, _, err := newAEAD(key, nonceLen, tag)
		if err != nil {
			panic(err)
		}
		return a
	}
	res := func(b []byte, err error) string { return fmt.Sprintf("%x|%v", b, err) }
	var out []*sched.Scenario
	for _, pl := range []int{17, 300} {
		pl := pl
		// S1: concurrent Opens of the *same* ciphertext buffer on one AEAD
		out = append(out, &sched.Scenario{Name: fmt.Sprintf("S1-open-open-len%d", pl), Build: func(e *sched.Exec) [][]sched.Op {
			a := mk(12, 16)
			nonce, aad, pt := fillLen("nonce", 12), fillLen("aad", 21), fillLen("pt", pl)
			ct := gcmref.Seal(refCipher(key), nonce, pt, aad, 16)
			share(e, "ciphertext", ct)
			share(e, "nonce", nonce)
			share(e, "aad", aad)
			shareObj(e, "aead", a)
			op := func() string { return res(a.Open(nil, nonce, ct, aad)) }
			return [][]sched.Op{{{"Open", op}}, {{"Open", op}, {"Open", op}}}
		}})
		// S2: Seal || Open || Seal sharing key schedule, nonce and aad buffers
		out = append(out, &sched.Scenario{Name: fmt.Sprintf("S2-seal-open-seal-len%d", pl), Build: func(e *sched.Exec) [][]sched.Op {
			a := mk(12, 16)
			nonce, aad, pt := fillLen("nonce", 12), fillLen("aad", 21), fillLen("pt", pl)
			pt2 := fillLen("pt2", pl+5)
			ct := gcmref.Seal(refCipher(key), nonce, pt, aad, 16)
			share(e, "ciphertext", ct)
			share(e, "plaintext", pt)
			share(e, "plaintext2", pt2)
			share(e, "nonce", nonce)
			share(e, "aad", aad)
			shareObj(e, "aead", a)
			return [][]sched.Op{
				{{"Seal", func() string { return res(a.Seal(nil, nonce, pt, aad), nil) }}},
				{{"Open", func() string { return res(a.Open(nil, nonce, ct, aad)) }}},
				{{"Seal2", func() string { return res(a.Seal(nil, nonce, pt2, aad), nil) }}, {"Seal", func() string { return res(a.Seal(nil, nonce, pt, nil), nil) }}},
			}
		}})
	}
	// S3: three goroutines on one Block with a shared source block
	out = append(out, &sched.Scenario{Name: "S3-block", Build: func(e *sched.Exec) [][]sched.Op {
		b, err := sm4.NewCipher(key)
		if err != nil {
			panic(err)
		}
		src := vx.Fill("c17src", 16)
		ctb := refCipher(key).Encrypt(src)
		ct := ctb[:]
		share(e, "src", src)
		share(e, "ct", ct)
		shareObj(e, "block", b)
		enc := func() string { d := make([]byte, 16); b.Encrypt(d, src); return fmt.Sprintf("%x", d) }
		dec := func() string { d := make([]byte, 16); b.Decrypt(d, ct); return fmt.Sprintf("%x", d) }
		return [][]sched.Op{{{"Encrypt", enc}, {"Decrypt", dec}}, {{"Decrypt", dec}}, {{"Encrypt", enc}, {"Encrypt", enc}}}
	}})
	// S6: first use - constructors racing with each other and with an independent hash
	out = append(out, &sched.Scenario{Name: "S6-first-use", Build: func(e *sched.Exec) [][]sched.Op {
		k1, k2 := keyByName("std"), keyByName("s1")
		share(e, "key1", k1)
		share(e, "key2", k2)
		blk := vx.Fill("c17blk", 16)
		share(e, "blk", blk)
		nc := func(k []byte) func() string {
			return func() string {
				b, err := sm4.NewCipher(k)
				if err != nil {
					return err.Error()
				}
				d := make([]byte, 16)
				b.Encrypt(d, blk)
				g, err := cipher.NewGCM(b)
				if err != nil {
					return err.Error()
				}
				return fmt.Sprintf("%x|%x", d, g.Seal(nil, make([]byte, 12), blk, nil))
			}
		}
		h := func() string { x := sm3.New(); x.Write(blk); x.Write(k1); return fmt.Sprintf("%x", x.Sum(nil)) }
		return [][]sched.Op{{{"NewCipher1", nc(k1)}}, {{"NewCipher2", nc(k2)}, {"NewCipher1", nc(k1)}}, {{"sm3", h}}}
	}})
	return out
}

type c17case struct {
	Scenario string
	Schedule []int
	Finding  string
}

func runScenarios(r *vx.R, part string, scs []*sched.Scenario) {
	secs := 100.0
	if vx.Thorough() {
		secs = 1200
	}
	sched.Deadline = time.Now().Add(time.Duration(secs * float64(time.Second)))
	bound, capS := 2, 60000
	if vx.Thorough() {
		bound, capS = 3, 1500000
	}
	if raw, ok := vx.Replay(part); ok {
		var c c17case
		json.Unmarshal(raw, &c)
		for _, s := range scs {
			if s.Name == c.Scenario {
				rep := s.Explore(bound, capS)
				report(r, rep)
			}
		}
		return
	}
	for i, s := range scs {
		if !vx.MineIdx(i) {
			continue
		}
		rep := s.Explore(bound, capS)
		report(r, rep)
	}
}

func report(r *vx.R, rep *sched.Report) {
	st := rep.Stats
	r.Eval(st.Schedules)
	r.States(st.Points)
	r.Transitions(st.Points)
	r.Validated(rep.Replayed)
	for o := range st.Outcomes {
		r.Shape(rep.Scenario + ":" + o)
	}
	r.Set("scenario_"+rep.Scenario, map[string]interface{}{"schedules": st.Schedules, "points": st.Points, "max_points_per_schedule": st.MaxPoints,
		"preemption_bound_completed": st.BoundDone, "distinct_outcomes": len(st.Outcomes), "threads": rep.Threads, "ops": rep.Ops, "truncated": st.Truncated,
		"schedules_replayed_twice": rep.Replayed})
	if st.Truncated {
		r.NotExhaustive(fmt.Sprintf("schedule cap reached in %s (bound completed: %d)", rep.Scenario, st.BoundDone))
	}
	for _, f := range rep.Findings {
		r.Violation("conc:"+f.Key, fmt.Sprintf("[%s] %s (schedule %v)", rep.Scenario, f.What, f.Schedule), c17case{rep.Scenario, f.Schedule, f.Key})
	}
	r.Sample(map[string]interface{}{"scenario": rep.Scenario, "schedules": st.Schedules, "outcomes": len(st.Outcomes), "bound": st.BoundDone})
}

const c17rule = "controlled cooperative scheduler over the instrumented tree: scheduling points at every call of an assembly routine, at every access to a package-level variable or shared-receiver field that is not statically frozen, at shimmed sync/atomic operations and at the start of each operation; DFS over all schedules with <= B preemptions (B=2 quick, 3 thorough), iterated B=0,1,..; oracle per schedule: every call returns what it returns when run alone on a fresh instance, shared read-only buffers and objects bit-identical (write-footprint monitor around assembly calls and at every point), no happens-before race (vector clocks), no unmodelled change of package-level state (deep hash of every package-level variable); the default schedule and every violating schedule are replayed twice and must repeat"

func TestVX_C17_SM4(t *testing.T) {
	part := os.Getenv("VX_PART")
	if part == "" {
		part = "sched-sm4"
	}
	r := vx.Begin("C17", part, c17rule)
	defer r.End()
	selfCheck()
	r.Set("instrumented_globals_registered", len(sched.Globals()))
	runScenarios(r, part, c17Scenarios())
}

// TestVX_C17_SM4_Race runs the same scenario bodies free (real goroutines, no scheduler) under the race detector.
func TestVX_C17_SM4_Race(t *testing.T) {
	r := vx.Begin("C17", "race-sm4", "the scenario bodies run free-running (real goroutines, 16 at a time, no cooperative scheduler whose hand-offs would hide races) under `go test -race`; result mismatches against the solo results are violations, and so is any report of the race detector")
	defer r.End()
	iters := 200
	if vx.Thorough() {
		iters = 2000
	}
	for _, s := range c17Scenarios() {
		bad := s.FreeRun(iters)
		r.Eval(iters)
		r.Shape(s.Name)
		for _, b := range bad {
			r.Violation("conc:free-run:result-differs", "["+s.Name+"] "+b, c17case{Scenario: s.Name})
		}
		r.Sample(map[string]interface{}{"scenario": s.Name, "iterations": iters})
	}
}

//go:build verif

package sm4

import (
	"fmt"
	"testing"

	"verif/refs"
	"verif/refs/sm4ref"
	"verif/vx"
)

func TestVX_C18_SM4Go(t *testing.T) {
	r := vx.Begin("C18", "sm4-go-tables", "sbox[x] = algebraic S-box for all 256 x; s0..s3[x] = L(sbox[x] << 24/16/8/0) for all x; ck[i] bytes = 7*(4i+j) mod 256; fk0..3 = standard literals. Finite space enumerated completely")
	defer r.End()
	if err := refs.SelfCheck(true); err != nil {
		panic("reference self-check failed (harness broken): " + err.Error())
	}
	// the tables must equal their derivation when the cipher reads them: tables filled on first use are read here only
	// after key expansion, both directions of the Go fallback and the exported block entry points have run
	{
		key := vx.Fill("c18w-sm4k", 16)
		blk := vx.Fill("c18w-sm4b", 16)
		out := make([]byte, 16)
		if c, err := newCipherGeneric(key); err == nil {
			c.Encrypt(out, blk)
			c.Decrypt(out, out)
		}
		if c, err := NewCipher(key); err == nil {
			c.Encrypt(out, blk)
			c.Decrypt(out, out)
		}
		r.Set("workload_calls_before_table_check", 6)
	}
	for x := 0; x < 256; x++ {
		r.Eval(5)
		if sbox[x] != sm4ref.Sbox(byte(x)) {
			r.Violation(fmt.Sprintf("const:sm4:sbox:%d", x), fmt.Sprintf("sbox[%#x]=%#x, algebraic S-box gives %#x", x, sbox[x], sm4ref.Sbox(byte(x))), x)
		}
		s := uint32(sm4ref.Sbox(byte(x)))
		for ti, tab := range []*[256]uint32{&s0, &s1, &s2, &s3} {
			want := sm4ref.L(s << uint(24-8*ti))
			if tab[x] != want {
				r.Violation(fmt.Sprintf("const:sm4:s%d:%d", ti, x), fmt.Sprintf("s%d[%#x]=%#x, L(sbox<<%d) gives %#x", ti, x, tab[x], 24-8*ti, want), x)
			}
			r.Shape(fmt.Sprintf("s%d:%d", ti, x))
		}
		r.Shape(fmt.Sprintf("sbox:%d", x))
	}
	for i := 0; i < 32; i++ {
		r.Eval(1)
		if ck[i] != sm4ref.CK(i) {
			r.Violation(fmt.Sprintf("const:sm4:ck:%d", i), fmt.Sprintf("ck[%d]=%#x want %#x", i, ck[i], sm4ref.CK(i)), i)
		}
		r.Shape(fmt.Sprintf("ck:%d", i))
	}
	for i, v := range []uint32{fk0, fk1, fk2, fk3} {
		r.Eval(1)
		if v != sm4ref.FK[i] {
			r.Violation(fmt.Sprintf("const:sm4:fk:%d", i), "fk constant wrong", i)
		}
		r.Shape(fmt.Sprintf("fk:%d", i))
	}
	r.Sample(map[string]interface{}{"sbox[0]": sbox[0], "s0[0]": s0[0], "ck[31]": ck[31]})
}

//go:build verif

package sm4_test

import (
	"fmt"
	"os"
	"path/filepath"
	"regexp"
	"strconv"
	"strings"
	"testing"

	"verif/refs/sm4ref"
	"verif/vx"
)

// asmData parses the DATA directives of one assembly file: name -> byte image.
func asmData(path string) (map[string][]byte, map[string]string, error) {
	raw, err := os.ReadFile(path)
	if err != nil {
		return nil, nil, err
	}
	data := map[string][]byte{}
	defs := map[string]string{}
	reData := regexp.MustCompile(`^\s*DATA\s+([A-Za-z0-9_]+)<>\+(0x[0-9a-fA-F]+|\d+)\(SB\)/(\d+),\s*\$(0x[0-9a-fA-F]+|0b[01]+|\d+)`)
	reDef := regexp.MustCompile(`^\s*#define\s+([A-Za-z0-9_]+)\s+(0x[0-9a-fA-F]+|0b[01]+|\d+)\s*$`)
	for _, line := range strings.Split(string(raw), "\n") {
		if i := strings.Index(line, "//"); i >= 0 {
			line = line[:i]
		}
		if m := reData.FindStringSubmatch(line); m != nil {
			off, _ := strconv.ParseUint(m[2], 0, 64)
			size, _ := strconv.Atoi(m[3])
			val, err := strconv.ParseUint(m[4], 0, 64)
			if err != nil {
				return nil, nil, fmt.Errorf("bad DATA value in %q", line)
			}
			b := data[m[1]]
			for len(b) < int(off)+size {
				b = append(b, 0)
			}
			for k := 0; k < size; k++ {
				b[int(off)+k] = byte(val >> (8 * uint(k)))
			}
			data[m[1]] = b
		} else if m := reDef.FindStringSubmatch(line); m != nil {
			defs[m[1]] = m[2]
		}
	}
	return data, defs, nil
}

func aesInv(x byte) byte {
	if x == 0 {
		return 0
	}
	mul := func(a, b int) int {
		r := 0
		for b != 0 {
			if b&1 != 0 {
				r ^= a
			}
			a <<= 1
			if a&0x100 != 0 {
				a ^= 0x11B
			}
			b >>= 1
		}
		return r
	}
	r := 1
	for i := 0; i < 254; i++ {
		r = mul(r, int(x))
	}
	return byte(r)
}

func parity8(x byte) byte {
	x ^= x >> 4
	x ^= x >> 2
	x ^= x >> 1
	return x & 1
}

// gf2p8affine emulates one byte of (V)GF2P8AFFINEQB per the Intel SDM: bit i of the result is
// parity(matrix.byte[7-i] AND x) XOR imm8.bit[i].
func gf2p8affine(matrix []byte, x, imm byte) byte {
	var out byte
	for i := uint(0); i < 8; i++ {
		out |= (parity8(matrix[7-i]&x) ^ (imm >> i & 1)) << i
	}
	return out
}

func TestVX_C18_Asm(t *testing.T) {
	r := vx.Begin("C18", "asm-data", "DATA blocks and #define constants parsed from the current tree's assembly files: FK, CK (amd64, arm64) = standard values; arm64 SBox = algebraic S-box; Pre/PostAffineMatrix + Pre/PostAffineConstant: GF2P8AFFINEQB / GF2P8AFFINEINVQB emulated per the Intel SDM over all 256 inputs, composition must equal the algebraic S-box; Shuffle* byte permutations, Counter_Add1/2/3 lane increments, AND_MASK/LOWER_MASK nibble bit-reversal, lane-merge index vectors (on the positions their masks use), GCM_POLY = 0x87 (the arm64 reduction constant is an instruction immediate: its spelling is recognised for coverage reporting only). Finite space enumerated completely")
	defer r.End()
	root := os.Getenv("VX_REPO_COPY")
	if root == "" {
		panic("VX_REPO_COPY not set")
	}
	dir := filepath.Join(root, "sm4")
	type file struct {
		data map[string][]byte
		defs map[string]string
	}
	files := map[string]file{}
	for _, f := range []string{"asm_amd64.s", "com_amd64.s", "gcm_amd64.s", "asm_arm64.s", "gcm_arm64.s", "helper_amd64.s"} {
		d, defs, err := asmData(filepath.Join(dir, f))
		if err != nil {
			r.NotExhaustive("cannot read " + f + ": " + err.Error())
			continue
		}
		files[f] = file{d, defs}
	}
	expectBytes := func(f, name string, want []byte, care []bool) {
		got, ok := files[f].data[name]
		if !ok {
			r.NotExhaustive(fmt.Sprintf("%s: data block %s not found (renamed?)", f, name))
			return
		}
		if len(got) != len(want) {
			r.Eval(1)
			r.Violation(fmt.Sprintf("const:asm:%s:%s:size", f, name), fmt.Sprintf("%s %s has %d bytes, want %d", f, name, len(got), len(want)), name)
			return
		}
		for i := range want {
			if care != nil && !care[i] {
				continue
			}
			r.Eval(1)
			if got[i] != want[i] {
				r.Violation(fmt.Sprintf("const:asm:%s:%s:%d", f, name, i), fmt.Sprintf("%s %s byte %d = %#x, derivation gives %#x", f, name, i, got[i], want[i]), map[string]interface{}{"file": f, "name": name, "byte": i})
			}
			r.Shape(fmt.Sprintf("%s:%s:%d", f, name, i))
		}
	}
	le32 := func(vals []uint32) []byte {
		var b []byte
		for _, v := range vals {
			b = append(b, byte(v), byte(v>>8), byte(v>>16), byte(v>>24))
		}
		return b
	}
	var cks []uint32
	for i := 0; i < 32; i++ {
		cks = append(cks, sm4ref.CK(i))
	}
	for _, f := range []string{"asm_amd64.s", "asm_arm64.s"} {
		expectBytes(f, "FK", le32(sm4ref.FK[:]), nil)
		expectBytes(f, "CK", le32(cks), nil)
	}
	var sb []byte
	for x := 0; x < 256; x++ {
		sb = append(sb, sm4ref.Sbox(byte(x)))
	}
	expectBytes("asm_arm64.s", "SBox", sb, nil)
	// byte shuffles
	var rev32, rev64x2, rev128 []byte
	for i := 0; i < 16; i++ {
		rev32 = append(rev32, byte(i/4*4+3-i%4))
		rev64x2 = append(rev64x2, byte(i/8*8+7-i%8))
		rev128 = append(rev128, byte(15-i))
	}
	expectBytes("com_amd64.s", "Shuffle", rev32, nil)
	expectBytes("gcm_amd64.s", "Shuffle1", rev64x2, nil)
	expectBytes("gcm_amd64.s", "Shuffle2", rev128, nil)
	// counter increments: per 128-bit lane the (byte-swapped) 32-bit block counter is dword 3
	ctr := func(incs [4]uint32) []byte {
		var v []uint32
		for l := 0; l < 4; l++ {
			v = append(v, 0, 0, 0, incs[l])
		}
		return le32(v)
	}
	expectBytes("gcm_amd64.s", "Counter_Add1", ctr([4]uint32{1, 2, 3, 4}), nil)
	expectBytes("gcm_amd64.s", "Counter_Add2", ctr([4]uint32{4, 4, 4, 4}), nil)
	expectBytes("gcm_amd64.s", "Counter_Add3", ctr([4]uint32{2, 2, 2, 2}), nil)
	var and, lower []byte
	for i := 0; i < 16; i++ {
		and = append(and, 0x0f)
		rv := byte(0)
		for b := uint(0); b < 4; b++ {
			rv |= byte(i) >> b & 1 << (3 - b)
		}
		lower = append(lower, rv)
	}
	expectBytes("gcm_amd64.s", "AND_MASK", and, nil)
	expectBytes("gcm_amd64.s", "LOWER_MASK", lower, nil)
	poly := make([]byte, 16)
	poly[0] = 0x87
	expectBytes("gcm_amd64.s", "GCM_POLY", poly, nil)
	// lane merge index vectors: only the positions selected by their write masks are determined by their use
	q := func(vals []uint64) []byte {
		var b []byte
		for _, v := range vals {
			for k := 0; k < 8; k++ {
				b = append(b, byte(v>>(8*uint(k))))
			}
		}
		return b
	}
	careQ := func(mask []bool) []bool {
		var c []bool
		for _, m := range mask {
			for k := 0; k < 8; k++ {
				c = append(c, m)
			}
		}
		return c
	}
	// MERGE_H01 used with mask 0b00001100: qwords 2,3 <- source qwords 0,1
	expectBytes("gcm_amd64.s", "MERGE_H01", q([]uint64{0, 0, 0, 1}), careQ([]bool{false, false, true, true}))
	// MERGE_H23 used with mask 0b11110000: qwords 4..7 <- source qwords 0..3
	expectBytes("gcm_amd64.s", "MERGE_H23", q([]uint64{0, 0, 0, 0, 0, 1, 2, 3}), careQ([]bool{false, false, false, false, true, true, true, true}))
	// SHUFFLE_X_LANES: only lane 0 of the permuted vector is consumed; it must come from lane 3 or lane 2 (both hold 2^3)
	if got, ok := files["gcm_amd64.s"].data["SHUFFLE_X_LANES"]; ok && len(got) == 64 {
		r.Eval(1)
		lo, hi := got[0], got[8]
		if !((lo == 6 && hi == 7) || (lo == 4 && hi == 5)) {
			r.Violation("const:asm:gcm_amd64.s:SHUFFLE_X_LANES", fmt.Sprintf("lane 0 selects qwords (%d,%d); the fold needs the (2^3) lane, i.e. (6,7) or (4,5)", lo, hi), "SHUFFLE_X_LANES")
		}
		r.Shape("gcm_amd64.s:SHUFFLE_X_LANES")
	} else {
		r.NotExhaustive("SHUFFLE_X_LANES not found")
	}
	// affine matrices realising the S-box with GFNI
	com := files["com_amd64.s"]
	pre, okp := com.data["PreAffineMatrix"]
	post, okq := com.data["PostAffineMatrix"]
	pcs, okc := com.defs["PreAffineConstant"]
	qcs, okd := com.defs["PostAffineConstant"]
	if okp && okq && okc && okd && len(pre) == 8 && len(post) == 8 {
		pc, _ := strconv.ParseUint(pcs, 0, 8)
		qc, _ := strconv.ParseUint(qcs, 0, 8)
		for x := 0; x < 256; x++ {
			r.Eval(1)
			y := gf2p8affine(pre, byte(x), byte(pc))
			z := gf2p8affine(post, aesInv(y), byte(qc))
			if z != sm4ref.Sbox(byte(x)) {
				r.Violation(fmt.Sprintf("const:asm:gfni-sbox:%d", x), fmt.Sprintf("GFNI affine composition maps %#x to %#x, algebraic S-box gives %#x", x, z, sm4ref.Sbox(byte(x))), x)
			}
			r.Shape(fmt.Sprintf("gfni:%d", x))
		}
		r.Sample(map[string]interface{}{"pre": fmt.Sprintf("%x", pre), "post": fmt.Sprintf("%x", post), "pre_const": pc, "post_const": qc})
	} else {
		r.NotExhaustive("GFNI affine matrices/constants not found in com_amd64.s")
	}
	// arm64 GHASH reduction constant appears as an immediate
	if raw, err := os.ReadFile(filepath.Join(dir, "gcm_arm64.s")); err == nil {
		r.Eval(1)
		// Only the spelling is recognised (MOVD / MOVW / MOV of $0x87 or $135 into a general register that is then
		// duplicated into the lanes): arm64 code cannot be executed here, so a constant that is built in another way is
		// not judged - reported as not covered, never as a violation.
		if regexp.MustCompile(`MOV[DW]?\s+\$(0x0*87|135)\s*,`).Match(raw) {
			r.Shape("gcm_arm64.s:poly")
		} else {
			r.NotExhaustive("gcm_arm64.s does not load the GHASH reduction constant by the recognised idiom (MOVD $0x87, Rn): constants built from other instruction immediates on arm64 are outside this part's reach")
		}
	}
}

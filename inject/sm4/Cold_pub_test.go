//go:build verif

package sm4_test

import (
	"crypto/cipher"
	"fmt"
	"os"
	"testing"

	"github.com/bilibili/smgo/sm4"
	"verif/refs/gcmref"
	"verif/refs/sm4ref"
	"verif/vx"
)

// sm4ColdEntries must not touch package sm4 itself unless parent is set (the child has to stay cold until the entry
// runs); only the reference models are used to prepare inputs.
func sm4ColdEntries(parent bool) ([]vx.ColdEntry, map[string]string) {
	key := vx.Fill("coldsm4key", 16)
	blk := vx.Fill("coldsm4blk", 16)
	ref := sm4ref.New(key)
	ct := ref.Encrypt(blk)
	nonce, pt, aad := vx.Fill("coldn", 12), vx.Fill("coldp", 45), vx.Fill("colda", 7)
	sealed := gcmref.Seal(ref, nonce, pt, aad, 16)
	nonce2 := vx.Fill("coldn2", 16)
	sealed2 := gcmref.Seal(ref, nonce2, pt, aad, 12)
	entries := []vx.ColdEntry{
		{"NewCipher+Encrypt", func() string {
			b, err := sm4.NewCipher(key)
			if err != nil {
				return err.Error()
			}
			o := make([]byte, 16)
			b.Encrypt(o, blk)
			return fmt.Sprintf("%x", o)
		}},
		{"NewCipher+Decrypt", func() string {
			b, err := sm4.NewCipher(key)
			if err != nil {
				return err.Error()
			}
			o := make([]byte, 16)
			b.Decrypt(o, ct[:])
			return fmt.Sprintf("%x", o)
		}},
		{"NewGCM+Seal", func() string {
			b, _ := sm4.NewCipher(key)
			a, err := cipher.NewGCM(b)
			if err != nil {
				return err.Error()
			}
			return fmt.Sprintf("%x", a.Seal(nil, nonce, pt, aad))
		}},
		{"NewGCM+Open", func() string {
			b, _ := sm4.NewCipher(key)
			a, err := cipher.NewGCM(b)
			if err != nil {
				return err.Error()
			}
			p, err := a.Open(nil, nonce, sealed, aad)
			return fmt.Sprintf("%x %v", p, err)
		}},
		{"NewGCM(16,12)+Seal+Open", func() string {
			a, _, err := newAEAD(key, 16, 12)
			if err != nil {
				return "unsupported"
			}
			s := a.Seal(nil, nonce2, pt, aad)
			p, err := a.Open(nil, nonce2, s, aad)
			return fmt.Sprintf("%x %x %v", s, p, err)
		}},
		{"NewGCM-then-Block.Decrypt", func() string {
			b, _ := sm4.NewCipher(key)
			cipher.NewGCM(b)
			cipher.NewGCMWithNonceSize(b, 16)
			cipher.NewGCMWithTagSize(b, 12)
			o, e := make([]byte, 16), make([]byte, 16)
			b.Decrypt(o, ct[:])
			b.Encrypt(e, blk)
			return fmt.Sprintf("%x %x", o, e)
		}},
	}
	want := map[string]string{
		"NewCipher+Encrypt":         fmt.Sprintf("%x", ct),
		"NewCipher+Decrypt":         fmt.Sprintf("%x", blk),
		"NewGCM+Seal":               fmt.Sprintf("%x", sealed),
		"NewGCM+Open":               fmt.Sprintf("%x %v", pt, nil),
		"NewGCM(16,12)+Seal+Open":   fmt.Sprintf("%x %x %v", sealed2, pt, nil),
		"NewGCM-then-Block.Decrypt": fmt.Sprintf("%x %x", blk, ct),
	}
	if parent {
		if _, _, err := newAEAD(key, 16, 12); err != nil {
			want["NewGCM(16,12)+Seal+Open"] = "unsupported"
		}
	}
	return entries, want
}

// TestVX_C05Cold: every way into the cipher as the first use of package sm4 in a fresh process, alone and concurrently.
func TestVX_C05Cold(t *testing.T) {
	entries, _ := sm4ColdEntries(false)
	if vx.ColdChild(entries) {
		return
	}
	entries, want := sm4ColdEntries(true)
	part := "cold-start"
	if p := os.Getenv("VX_PART"); p != "" {
		part = p
	}
	r := vx.Begin("C05", part, "each entry point (NewCipher+Encrypt, NewCipher+Decrypt, NewGCM+Seal, NewGCM+Open, NewGCM(16,12)+Seal+Open, the three AEAD constructors followed by Block.Decrypt/Encrypt) as the FIRST use of package sm4 in a fresh process: alone, and by 8 goroutines released together in 30 (thorough 100) fresh processes; on the accelerated and on the portable build; oracles sm4ref / gcmref")
	defer r.End()
	selfCheck()
	procs := 30
	if vx.Thorough() {
		procs = 100
	}
	vx.ColdCheck(r, "TestVX_C05Cold", entries, want, 8, procs)
}

//go:build verif

package sm4_test

import (
	"bytes"
	"crypto/cipher"
	"fmt"
	"os"
	"runtime"
	"sync"
	"sync/atomic"
	"testing"
	"time"

	"github.com/bilibili/smgo/sm4"
	"verif/refs/gcmref"
	"verif/vx"
)

type freshCase struct {
	Op    string
	Round int
}

// TestVX_FreshShared: the FIRST operations on a freshly constructed object, made by eight goroutines at the same moment
// (spin barrier), repeated on thousands of fresh objects in a warm process: whatever an object derives lazily on first
// use (a second key schedule, a hash subkey, per-AEAD tables) is derived under contention every time. Free-running
// pass (the interleavings are the scheduler's); every result is compared with the reference.
func TestVX_FreshShared(t *testing.T) {
	prop := os.Getenv("VX_FRESH_PROP")
	if prop == "" {
		prop = "C17"
	}
	r := vx.Begin(prop, partNameOr("fresh-shared"), "per round a fresh Block (fresh key) shared by 8 goroutines that leave a spin barrier together and make its first calls: {Decrypt x8; Encrypt x4 + Decrypt x4; NewGCM+Seal x8 (12-byte and 16-byte nonces); NewGCM+Open x4 + Decrypt x4}; 3000 rounds per mix [thorough 20000]; every result compared with sm4ref / gcmref. Free-running pass: schedules are the scheduler's, the oracle is exact")
	defer r.End()
	selfCheck()
	runtime.GOMAXPROCS(16)
	rounds := 3000
	if vx.Thorough() {
		rounds = 20000
	}
	const W = 8
	mixes := []string{"decrypt", "encrypt+decrypt", "newgcm-seal", "newgcm-open+decrypt"}
	for mi, mix := range mixes {
		if !vx.MineIdx(mi) {
			continue
		}
		bad := map[string]freshCase{}
		what := map[string]string{}
		var mu sync.Mutex
		type keyCase struct{ key, ct, sealed12, sealed16 []byte }
		cache := map[int]*keyCase{}
		pt := vx.Fill("fresh-pt", 16)
		nonce12, nonce16, aad, msg := vx.Fill("fresh-n", 12), vx.Fill("fresh-n16", 16), vx.Fill("fresh-aad", 7), vx.Fill("fresh-msg", 37)
		t0 := time.Now()
		done := 0
		for round := 0; round < rounds && len(bad) == 0; round++ {
			if round >= 500 && time.Since(t0) > 15*time.Second {
				break // a loaded machine: the pass is free-running anyway, the number of rounds made is reported
			}
			done++
			kc := cache[round%64]
			if kc == nil {
				kc = &keyCase{key: vx.Fill(fmt.Sprintf("fresh-%s-%d", mix, round%64), 16), ct: make([]byte, 16)}
				refBlock{refCipher(kc.key)}.Encrypt(kc.ct, pt)
				kc.sealed12 = gcmref.Seal(refCipher(kc.key), nonce12, msg, aad, 16)
				kc.sealed16 = gcmref.Seal(refCipher(kc.key), nonce16, msg, aad, 16)
				cache[round%64] = kc
			}
			key, ct, sealed12, sealed16 := kc.key, kc.ct, kc.sealed12, kc.sealed16
			blk, err := sm4.NewCipher(key)
			if err != nil {
				panic(err)
			}
			var ready, goFlag int32
			var wg sync.WaitGroup
			fail := func(op, m string) {
				mu.Lock()
				if _, ok := bad[op]; !ok {
					bad[op], what[op] = freshCase{op, round}, m
				}
				mu.Unlock()
			}
			for w := 0; w < W; w++ {
				wg.Add(1)
				go func(w int) {
					defer wg.Done()
					atomic.AddInt32(&ready, 1)
					for atomic.LoadInt32(&goFlag) == 0 {
					}
					kind, pm := vx.Try(func() {
						out := make([]byte, 16)
						dec := func() {
							blk.Decrypt(out, ct)
							if !bytes.Equal(out, pt) {
								fail("Decrypt", fmt.Sprintf("first Decrypt calls on a fresh shared Block: got %x want %x", out, pt))
							}
						}
						enc := func() {
							blk.Encrypt(out, pt)
							if !bytes.Equal(out, ct) {
								fail("Encrypt", fmt.Sprintf("first Encrypt calls on a fresh shared Block: got %x want %x", out, ct))
							}
						}
						mkAEAD := func() (cipher.AEAD, []byte, []byte) {
							if w%2 == 0 {
								a, _ := aeadFromBlock(blk, 12, 16)
								return a, nonce12, sealed12
							}
							a, _ := aeadFromBlock(blk, 16, 16)
							return a, nonce16, sealed16
						}
						switch mix {
						case "decrypt":
							dec()
						case "encrypt+decrypt":
							if w%2 == 0 {
								enc()
							} else {
								dec()
							}
						case "newgcm-seal":
							if a, n, want := mkAEAD(); a != nil {
								if got := a.Seal(nil, n, msg, aad); !bytes.Equal(got, want) {
									fail("NewGCM+Seal", "first NewGCM+Seal calls on a fresh shared Block: result differs from SP 800-38D")
								}
							}
						case "newgcm-open+decrypt":
							if w < 4 {
								if a, n, want := mkAEAD(); a != nil {
									if back, err := a.Open(nil, n, want, aad); err != nil || !bytes.Equal(back, msg) {
										fail("NewGCM+Open", fmt.Sprintf("first NewGCM+Open calls on a fresh shared Block: authentic message rejected: %v", err))
									}
								}
							} else {
								dec()
							}
						}
					})
					if kind != "" {
						fail("panic", pm)
					}
				}(w)
			}
			for atomic.LoadInt32(&ready) < W {
				runtime.Gosched()
			}
			atomic.StoreInt32(&goFlag, 1)
			wg.Wait()
			// the object must also be right afterwards (a lost race may have left it damaged for good)
			out := make([]byte, 16)
			blk.Decrypt(out, ct)
			if !bytes.Equal(out, pt) {
				fail("Decrypt:afterwards", "Decrypt on the Block after the concurrent first calls is wrong")
			}
			if a, _ := aeadFromBlock(blk, 12, 16); a != nil && sealed12 != nil {
				if got := a.Seal(nil, nonce12, msg, aad); !bytes.Equal(got, sealed12) {
					fail("Seal:afterwards", "Seal on the Block after the concurrent first calls differs from SP 800-38D")
				}
			}
			r.Eval(W)
		}
		for op, cs := range bad {
			r.Violation("conc:fresh-object:"+mix+":"+op, what[op], cs)
		}
		r.Add("fresh_object_rounds", int64(done))
		r.Shape("fresh:" + mix)
		r.Sample(freshCase{mix, rounds})
	}
}

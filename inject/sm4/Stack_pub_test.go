//go:build verif

package sm4_test

import (
	"bytes"
	"crypto/cipher"
	"fmt"
	"os"
	"runtime/debug"
	"strings"
	"testing"

	"github.com/bilibili/smgo/sm4"
	"verif/refs/gcmref"
	"verif/vx"
)

type stackCase struct {
	Op    string // seal-nil | seal-roomy | open-nil | open-forged | encrypt | decrypt | new-seal
	Len   int
	Tag   int
	NLen  int
	Depth int
}

//go:noinline
func stackDescend(n int, f func()) {
	if n == 0 {
		f()
		return
	}
	stackDescend(n-1, f)
}

// TestVX_StackSweep calls every operation from a fresh goroutine at every call depth 0..1500 (a frame of the descent is
// a few dozen bytes, so the free stack below the call takes every value down to zero before each of the 2, 4, 8, 16, 32
// and 64 KiB stack sizes): for some depths the runtime has to move the goroutine's stack while the operation is running.
// The process runs with GODEBUG=efence=1, which makes the runtime unmap a stack segment as soon as it is abandoned (and
// never reuse an address): code that kept an address into the old segment (an address held in a uintptr across a call
// is not adjusted when the stack is copied) faults instead of silently writing into memory that now belongs to somebody
// else. Faults are turned into panics carrying the address.
func TestVX_StackSweep(t *testing.T) {
	prop := os.Getenv("VX_STACK_PROP")
	if prop == "" {
		prop = "C11"
	}
	r := vx.Begin(prop, partNameOr("stack-sweep"), "Seal (dst nil / dst with exact spare capacity), Open (dst nil; valid and forged), Encrypt, Decrypt, NewCipher+NewGCM+Seal, for (length, tag, nonce) in {0,1,16,40,257} x {16,12} x {12,16}, each called from a fresh goroutine at every call depth 0..1500 (free stack below the call sweeps every value before the 2..64 KiB stack sizes), process run with GODEBUG=efence=1 (abandoned stack segments are unmapped at once). Oracle: no memory fault, result equal to the reference")
	defer r.End()
	if !strings.Contains(os.Getenv("GODEBUG"), "efence=1") {
		panic("harness: the stack-sweep part must run with GODEBUG=efence=1")
	}
	key := keyByName("std")
	type combo struct {
		op           string
		l, tag, nlen int
	}
	var combos []combo
	for _, op := range []string{"seal-nil", "seal-roomy", "open-nil", "open-forged", "new-seal"} {
		for _, l := range []int{0, 1, 16, 40, 257} {
			combos = append(combos, combo{op, l, 16, 12})
		}
		combos = append(combos, combo{op, 40, 12, 12}, combo{op, 40, 16, 16})
	}
	combos = append(combos, combo{"encrypt", 16, 0, 0}, combo{"decrypt", 16, 0, 0})
	maxDepth := 1500
	step := 2
	if vx.Thorough() {
		step = 1
	}
	for ci, cb := range combos {
		if !vx.MineIdx(ci) {
			continue
		}
		var a cipher.AEAD
		var blk cipher.Block
		var nonce, pt, aad, sealed, forged, blockIn, blockEnc []byte
		if cb.tag != 0 {
			var err error
			a, _, err = newAEAD(key, cb.nlen, cb.tag)
			if err != nil {
				r.Add("unsupported_on_this_path", 1)
				continue
			}
			nonce, pt, aad = fillLen("nonce", cb.nlen), fillLen("pt", cb.l), fillLen("aad", 7)
			sealed = gcmref.Seal(refCipher(key), nonce, pt, aad, cb.tag)
			forged = append([]byte{}, sealed...)
			forged[len(forged)-1] ^= 0x10
		} else {
			blk, _ = sm4.NewCipher(key)
			blockIn = fillLen("blk", 16)
			blockEnc = make([]byte, 16)
			refBlock{refCipher(key)}.Encrypt(blockEnc, blockIn)
		}
		bad := 0
		for depth := 0; depth <= maxDepth && bad < 3; depth += step {
			r.Eval(1)
			cs := stackCase{cb.op, cb.l, cb.tag, cb.nlen, depth}
			done := make(chan [2]string, 1)
			go func() {
				var kind, msg, wrong string
				defer func() { done <- [2]string{kind, msg + wrong} }()
				debug.SetPanicOnFault(true)
				kind, msg = vx.Try(func() {
					stackDescend(depth, func() {
						switch cb.op {
						case "seal-nil":
							if got := a.Seal(nil, nonce, pt, aad); !bytes.Equal(got, sealed) {
								wrong = "Seal returned a wrong result"
							}
						case "seal-roomy":
							var room [320]byte
							if got := a.Seal(room[:0], nonce, pt, aad); !bytes.Equal(got, sealed) {
								wrong = "Seal into a stack buffer returned a wrong result"
							}
						case "open-nil":
							if got, err := a.Open(nil, nonce, sealed, aad); err != nil || !bytes.Equal(got, pt) {
								wrong = "Open returned a wrong result"
							}
						case "open-forged":
							if _, err := a.Open(nil, nonce, forged, aad); err == nil {
								wrong = "Open accepted a forged message"
							}
						case "new-seal":
							a2, _, err := newAEAD(key, cb.nlen, cb.tag)
							if err != nil {
								wrong = "constructor failed"
							} else if got := a2.Seal(nil, nonce, pt, aad); !bytes.Equal(got, sealed) {
								wrong = "NewCipher+NewGCM+Seal returned a wrong result"
							}
						case "encrypt":
							var out [16]byte
							blk.Encrypt(out[:], blockIn)
							if !bytes.Equal(out[:], blockEnc) {
								wrong = "Encrypt returned a wrong result"
							}
						case "decrypt":
							var out [16]byte
							blk.Decrypt(out[:], blockEnc)
							if !bytes.Equal(out[:], blockIn) {
								wrong = "Decrypt returned a wrong result"
							}
						}
					})
				})
			}()
			res := <-done
			if res[0] == "fault" {
				bad++
				r.Violation("mem:stack-move:fault:"+cb.op, fmt.Sprintf("%s (length %d, tag %d, nonce %d) called at depth %d of a fresh goroutine touched unmapped memory - an abandoned stack segment: %s", cb.op, cb.l, cb.tag, cb.nlen, depth, res[1]), cs)
			} else if res[0] != "" {
				bad++
				r.Violation("mem:stack-move:panic:"+cb.op, fmt.Sprintf("%s panicked at depth %d: %s", cb.op, depth, res[1]), cs)
			} else if res[1] != "" {
				bad++
				r.Violation("mem:stack-move:wrong:"+cb.op, fmt.Sprintf("%s at depth %d: %s", cb.op, depth, res[1]), cs)
			}
		}
		r.Shape(fmt.Sprintf("%s:%d:%d:%d", cb.op, cb.l, cb.tag, cb.nlen))
		r.Sample(stackCase{cb.op, cb.l, cb.tag, cb.nlen, maxDepth})
	}
}

func partNameOr(base string) string {
	if p := os.Getenv("VX_PART"); p != "" {
		return p
	}
	return base
}

//go:build verif && linux && amd64

package sm4_test

import (
	"bytes"
	"fmt"
	"runtime"
	"runtime/debug"
	"syscall"
	"testing"
	"unsafe"

	"github.com/bilibili/smgo/sm4"
	"verif/guard"
	"verif/refs/gcmref"
	"verif/vx"
)

type watchCase struct {
	Op     string
	Arg    string
	Len    int
	Tag    int
	NLen   int
	Where  string
	Offset int
}

// TestVX_C11_Watch: the argument under test lies in the MIDDLE of a mapped page (offsets 0x100, 0x7f3 and, for the
// page-position-sensitive code, 16..1 bytes before the end of the page with the next page mapped too), hardware
// watchpoints sit on the byte right behind it and on the byte right in front of it, and the operation must not touch
// either. An access outside an argument that lands in mapped memory raises no fault; the watchpoint is the only witness.
func TestVX_C11_Watch(t *testing.T) {
	r := vx.Begin("C11", partNameOr("watchpoints"), "hardware data watchpoints (perf_event_open, read/write, user mode, this thread) on the byte behind and the byte in front of one argument lying in the middle of mapped memory: Seal and Open x argument in {plaintext/ciphertext, additional data, nonce} x lengths 1..80, 100, 133, 257, 1000 x offsets in the page {0x100, 0x7f3, page end - 16..1 with the next page mapped}, tags 16 and 12; Encrypt/Decrypt src and dst; NewCipher key. Oracle: both counters stay at zero; results equal the reference")
	defer r.End()
	selfCheck()
	runtime.LockOSThread()
	defer runtime.UnlockOSThread()
	defer debug.SetGCPercent(debug.SetGCPercent(-1))
	var probe [8]byte
	if fd, err := guard.Watch(uintptr(unsafe.Pointer(&probe[0])), 1); err != nil {
		r.NotExhaustive(fmt.Sprintf("hardware watchpoints are not available here (perf_event_open: %v)", err))
		return
	} else {
		guard.Unwatch(fd)
	}
	mem, err := syscall.Mmap(-1, 0, 4*guard.Page, syscall.PROT_READ|syscall.PROT_WRITE, syscall.MAP_ANON|syscall.MAP_PRIVATE)
	if err != nil {
		panic(err)
	}
	defer syscall.Munmap(mem)
	key := keyByName("std")
	lens := []int{}
	for l := 1; l <= 80; l++ {
		lens = append(lens, l)
	}
	lens = append(lens, 100, 133, 257, 1000)
	offs := []int{0x100, 0x7f3}
	n := 0
	// place returns b copied to the chosen position, the rest of the arena filled with a pattern
	place := func(b []byte, off int) []byte {
		for i := range mem {
			mem[i] = 0xA5
		}
		s := mem[off : off+len(b) : off+len(b)]
		copy(s, b)
		return s
	}
	watched := func(s []byte, f func()) (behind, front uint64, ok bool) {
		base := uintptr(unsafe.Pointer(&mem[0]))
		start := uintptr(unsafe.Pointer(&s[:1][0]))
		f1, e1 := guard.Watch(start+uintptr(len(s)), 1)
		f2, e2 := guard.Watch(start-1, 1)
		_ = base
		if e1 != nil || e2 != nil {
			return 0, 0, false
		}
		f()
		behind, _ = guard.Hits(f1)
		front, _ = guard.Hits(f2)
		guard.Unwatch(f1)
		guard.Unwatch(f2)
		return behind, front, true
	}
	report := func(cs watchCase, behind, front uint64) {
		if behind != 0 {
			r.Violation(fmt.Sprintf("mem:%s:touches-byte-behind:%s", cs.Op, cs.Arg), fmt.Sprintf("%s accessed the byte right behind its %s (%d bytes, at offset %#x of a mapped page, tag %d, nonce %d) %d time(s): memory outside the argument - mapped, so nothing faults", cs.Op, cs.Arg, cs.Len, cs.Offset, cs.Tag, cs.NLen, behind), cs)
		}
		if front != 0 {
			r.Violation(fmt.Sprintf("mem:%s:touches-byte-in-front:%s", cs.Op, cs.Arg), fmt.Sprintf("%s accessed the byte right in front of its %s (%d bytes, at offset %#x of a mapped page, tag %d, nonce %d) %d time(s)", cs.Op, cs.Arg, cs.Len, cs.Offset, cs.Tag, cs.NLen, front), cs)
		}
	}
	for _, tag := range []int{16, 12} {
		for _, arg := range []string{"pt", "aad", "nonce"} {
			for _, l := range lens {
				if arg == "nonce" && l > 80 {
					continue
				}
				os := append([]int{}, offs...)
				if l <= 48 {
					for e := 1; e <= 16; e += 3 {
						os = append(os, 2*guard.Page-e-l) // ends e bytes before the end of a page whose successor is mapped
					}
				}
				for _, off := range os {
					n++
					if !vx.MineIdx(n) {
						continue
					}
					ptl, al, nl := 21, 9, 12
					switch arg {
					case "pt":
						ptl = l
					case "aad":
						al = l
					case "nonce":
						nl = l
					}
					a, _, err := newAEAD(key, nl, tag)
					if err != nil {
						r.Add("unsupported_on_this_path", 1)
						continue
					}
					nonce, pt, aad := fillLen("nonce", nl), fillLen("pt", ptl), fillLen("aad", al)
					sealed := gcmref.Seal(refCipher(key), nonce, pt, aad, tag)
					out := make([]byte, 0, len(sealed)+16)
					for _, op := range []string{"seal", "open"} {
						r.Eval(1)
						cs := watchCase{op, arg, l, tag, nl, "mid-page", off}
						in := pt
						if op == "open" {
							in = sealed
							if arg == "pt" {
								cs.Arg, cs.Len = "ct", len(sealed)
							}
						}
						var s []byte
						an, aa, ai := nonce, aad, in
						switch arg {
						case "pt":
							s = place(in, off)
							ai = s
						case "aad":
							s = place(aad, off)
							aa = s
						case "nonce":
							s = place(nonce, off)
							an = s
						}
						var got []byte
						var oerr error
						behind, front, ok := watched(s, func() {
							if op == "seal" {
								got = a.Seal(out, an, ai, aa)
							} else {
								got, oerr = a.Open(out, an, ai, aa)
							}
						})
						if !ok {
							r.NotExhaustive("a watchpoint could not be set")
							continue
						}
						report(cs, behind, front)
						if op == "seal" && !bytes.Equal(got, sealed) || op == "open" && (oerr != nil || !bytes.Equal(got, pt)) {
							r.Violation("mem:"+op+":wrong-result", fmt.Sprintf("%s returned a wrong result with %s in the middle of a page", op, arg), cs)
						}
						r.Shape(fmt.Sprintf("%s:%s:%d:t%d:o%d", op, arg, l, tag, off))
					}
				}
			}
		}
	}
	// block operations and the key
	blk, _ := sm4.NewCipher(key)
	for _, op := range []string{"encrypt-src", "encrypt-dst", "decrypt-src", "decrypt-dst", "newcipher-key"} {
		for _, off := range []int{0x100, 0x7f3, 2*guard.Page - 16 - 5} {
			n++
			if !vx.MineIdx(n) {
				continue
			}
			r.Eval(1)
			cs := watchCase{op, op[len(op)-3:], 16, 0, 0, "mid-page", off}
			s := place(fillLen("blk", 16), off)
			other := make([]byte, 16)
			behind, front, ok := watched(s, func() {
				switch op {
				case "encrypt-src":
					blk.Encrypt(other, s)
				case "encrypt-dst":
					blk.Encrypt(s, other)
				case "decrypt-src":
					blk.Decrypt(other, s)
				case "decrypt-dst":
					blk.Decrypt(s, other)
				case "newcipher-key":
					sm4.NewCipher(s)
				}
			})
			if ok {
				report(cs, behind, front)
			}
			r.Shape(fmt.Sprintf("%s:o%d", op, off))
		}
	}
}

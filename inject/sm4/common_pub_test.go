//go:build verif

package sm4_test

import (
	"bytes"
	"crypto/cipher"
	"fmt"
	"os"
	"runtime"
	"time"
	"verif/refs/gcmref"

	"github.com/bilibili/smgo/sm4"
	"verif/refs"
	"verif/refs/sm4ref"
	"verif/vx"
)

func selfCheck() {
	i0, _ := vx.Shard()
	if err := refs.SelfCheck(false); err != nil {
		panic("reference self-check failed (harness broken): " + err.Error())
	}
	_ = i0
}

var stdKey = vx.UnHex("0123456789abcdeffedcba9876543210")

// keyAlphabet: index -> key
func keyByName(name string) []byte {
	switch name {
	case "zero":
		return make([]byte, 16)
	case "ones":
		k := make([]byte, 16)
		for i := range k {
			k[i] = 0xff
		}
		return k
	case "std":
		return append([]byte{}, stdKey...)
	}
	return vx.Fill("sm4key"+name, 16)
}

type gcmAble interface {
	NewGCM(nonceSize, tagSize int) (cipher.AEAD, error)
}

// newAEAD builds an AEAD for arbitrary (nonce size, tag size). The accelerated cipher exposes NewGCM(nonce, tag);
// the portable cipher goes through the standard library, which offers custom nonce size or custom tag size.
func newAEAD(key []byte, nonceSize, tagSize int) (cipher.AEAD, string, error) {
	b, err := sm4.NewCipher(key)
	if err != nil {
		return nil, "", err
	}
	if g, ok := b.(gcmAble); ok {
		a, err := g.NewGCM(nonceSize, tagSize)
		return a, "accelerated", err
	}
	switch {
	case tagSize == 16:
		a, err := cipher.NewGCMWithNonceSize(b, nonceSize)
		return a, "stdlib-generic", err
	case nonceSize == 12:
		a, err := cipher.NewGCMWithTagSize(b, tagSize)
		return a, "stdlib-generic", err
	}
	return nil, "stdlib-generic", fmt.Errorf("unsupported (nonce %d, tag %d) on the portable path", nonceSize, tagSize)
}

// aeadFromBlock is newAEAD on an existing Block (several AEADs may share one Block); the public crypto/cipher
// constructors are used where they can express the parameters, so that whatever hook the Block offers to them is the
// code under test.
func aeadFromBlock(b cipher.Block, nonceSize, tagSize int) (cipher.AEAD, error) {
	switch {
	case nonceSize == 12 && tagSize == 16:
		return cipher.NewGCM(b)
	case tagSize == 16:
		return cipher.NewGCMWithNonceSize(b, nonceSize)
	case nonceSize == 12:
		return cipher.NewGCMWithTagSize(b, tagSize)
	}
	if g, ok := b.(gcmAble); ok {
		return g.NewGCM(nonceSize, tagSize)
	}
	return nil, fmt.Errorf("unsupported (nonce %d, tag %d) on the portable path", nonceSize, tagSize)
}

func refCipher(key []byte) *sm4ref.Cipher { return sm4ref.New(key) }

// fillLen returns deterministic content for a buffer of the given role and length.
func fillLen(role string, n int) []byte { return vx.Fill(fmt.Sprintf("%s%d", role, n%7), n) }

// partName lets one driver serve several parts (the same enumeration on differently prepared trees).
func partName() string {
	if p := os.Getenv("VX_PART"); p != "" {
		return p
	}
	return "seal"
}

var polluter cipher.AEAD

// pollute runs a Seal and an Open under an unrelated key right before the call under test, so that whatever the
// previous call left behind in vector registers or other hidden per-process state (hash-key powers, counters, masks)
// belongs to a *different* key: a call that relies on leftovers of its predecessor then computes with foreign values.
func pollute() {
	if polluter == nil {
		a, _, err := newAEAD(keyByName("polluter"), 128, 16)
		if err != nil {
			a, _, err = newAEAD(keyByName("polluter"), 12, 16)
			if err != nil {
				return
			}
		}
		polluter = a
	}
	n := make([]byte, polluter.NonceSize())
	for i := range n {
		n[i] = byte(0x5a + i)
	}
	ct := polluter.Seal(nil, n, polluterPT[:], polluterPT[:200])
	polluter.Open(nil, n, ct, polluterPT[:200])
}

var polluterPT = func() (b [300]byte) {
	for i := range b {
		b[i] = byte(i*31 + 7)
	}
	return
}()

type refBlock struct{ c *sm4ref.Cipher }

func (b refBlock) BlockSize() int { return 16 }
func (b refBlock) Encrypt(dst, src []byte) {
	o := b.c.Encrypt(src)
	copy(dst, o[:])
}
func (b refBlock) Decrypt(dst, src []byte) {
	o := b.c.Decrypt(src)
	copy(dst, o[:])
}

func fastRef(key []byte, nonceSize, tag int) cipher.AEAD {
	b := refBlock{sm4ref.New(key)}
	var a cipher.AEAD
	var err error
	switch {
	case tag == 16:
		a, err = cipher.NewGCMWithNonceSize(b, nonceSize)
	case nonceSize == 12:
		a, err = cipher.NewGCMWithTagSize(b, tag)
	default:
		return nil
	}
	if err != nil {
		return nil
	}
	return a
}

func gcmPart(base string) string {
	if p := partName(); p != "seal" {
		return p
	}
	return base
}

// collectGarbage makes the collector run twice and waits until finalizers queued by those cycles have run: a sentinel
// object with its own finalizer is dropped before each cycle, and the single finalizer goroutine has run everything queued
// before the sentinel of the second cycle by the time that sentinel reports. (A missed finalizer only means a missed
// opportunity to see a defect, never an alarm.)
func collectGarbage() {
	for cycle := 0; cycle < 2; cycle++ {
		done := make(chan struct{})
		func() {
			s := new([64]byte)
			runtime.SetFinalizer(s, func(*[64]byte) { close(done) })
		}()
		runtime.GC()
		select {
		case <-done:
		case <-time.After(2 * time.Second):
		}
	}
	runtime.GC()
}

type lifetimeCase struct {
	Scenario string
	NLen     int
	Tag      int
}

// lifetimeCases: objects of the library are dropped and collected while objects made from them, or the objects they were
// made from, stay in use. An AEAD keeps working after the Block it came from has been dropped, a Block and its other
// AEADs keep working after one AEAD has been collected, and objects of different keys stay apart. prefix is "seal" (C06:
// results compared with gcmref) or "open" (C07: authentic accepted, foreign and forged rejected).
func lifetimeCases(r *vx.R, prefix string, mine func() bool) {
	for _, par := range [][2]int{{12, 16}, {12, 12}, {16, 16}} {
		nl, tag := par[0], par[1]
		for _, sc := range []string{"sibling-aead-collected", "block-dropped", "other-key-collected", "aead-collected-block-used"} {
			if !mine() {
				continue
			}
			r.Eval(1)
			cs := lifetimeCase{sc, nl, tag}
			keyA, keyB := keyByName("lifeA"), keyByName("lifeB")
			nonce, pt, aad := fillLen("nonce", nl), fillLen("pt", 45), fillLen("aad", 9)
			wantA := gcmref.Seal(refCipher(keyA), nonce, pt, aad, tag)
			wantB := gcmref.Seal(refCipher(keyB), nonce, pt, aad, tag)
			blkWant := make([]byte, 16)
			refBlock{refCipher(keyA)}.Encrypt(blkWant, pt[:16])
			var problems []string
			kind, msg := vx.TryFault(func() {
				blk, err := sm4.NewCipher(keyA)
				if err != nil {
					panic(err)
				}
				mk := func(b cipher.Block) cipher.AEAD {
					a, err := aeadFromBlock(b, nl, tag)
					if err != nil {
						return nil
					}
					return a
				}
				check := func(who string, a cipher.AEAD, want []byte, foreign []byte) {
					if a == nil {
						return
					}
					if got := a.Seal(nil, nonce, pt, aad); !bytes.Equal(got, want) {
						problems = append(problems, who+": Seal differs from SP 800-38D")
					}
					if back, err := a.Open(nil, nonce, want, aad); err != nil || !bytes.Equal(back, pt) {
						problems = append(problems, who+": Open rejects an authentic message")
					}
					if _, err := a.Open(nil, nonce, foreign, aad); err == nil {
						problems = append(problems, who+": Open accepts a message sealed under another key")
					}
				}
				switch sc {
				case "sibling-aead-collected":
					a1, a2 := mk(blk), mk(blk)
					check("first AEAD", a1, wantA, wantB)
					a1 = nil
					collectGarbage()
					check("second AEAD of the Block after the first was collected", a2, wantA, wantB)
					check("a new AEAD of the same Block", mk(blk), wantA, wantB)
				case "block-dropped":
					a := mk(blk)
					blk = nil
					collectGarbage()
					check("AEAD after its Block was dropped", a, wantA, wantB)
				case "other-key-collected":
					blkB, _ := sm4.NewCipher(keyB)
					aA, aB := mk(blk), mk(blkB)
					check("AEAD of key B", aB, wantB, wantA)
					aB, blkB = nil, nil
					collectGarbage()
					check("AEAD of key A after the objects of key B were collected", aA, wantA, wantB)
				case "aead-collected-block-used":
					a := mk(blk)
					check("AEAD", a, wantA, wantB)
					a = nil
					collectGarbage()
					out := make([]byte, 16)
					blk.Encrypt(out, pt[:16])
					if !bytes.Equal(out, blkWant) {
						problems = append(problems, "Block.Encrypt after an AEAD made from the Block was collected differs from GB/T 32907")
					}
				}
				runtime.KeepAlive(blk)
			})
			if kind != "" {
				r.Violation(prefix+":lifetime:panic:"+sc, msg, cs)
			}
			for _, p := range problems {
				r.Violation(prefix+":lifetime:"+sc, fmt.Sprintf("%s (nonce %d, tag %d): %s", sc, nl, tag, p), cs)
				break
			}
			r.Shape(fmt.Sprintf("lifetime:%s:%d:%d", sc, nl, tag))
		}
	}
}

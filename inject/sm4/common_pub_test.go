//go:build verif

package sm4_test

import (
	"crypto/cipher"
	"fmt"
	"os"

	"github.com/bilibili/smgo/sm4"
	"verif/refs"
	"verif/refs/sm4ref"
	"verif/vx"
)

func selfCheck() {
	i0, _ := vx.Shard()
	if err := refs.SelfCheck(false); err != nil {
		panic("reference self-check failed (harness broken): " + err.Error())
	}
	_ = i0
}

var stdKey = vx.UnHex("0123456789abcdeffedcba9876543210")

// keyAlphabet: index -> key
func keyByName(name string) []byte {
	switch name {
	case "zero":
		return make([]byte, 16)
	case "ones":
		k := make([]byte, 16)
		for i := range k {
			k[i] = 0xff
		}
		return k
	case "std":
		return append([]byte{}, stdKey...)
	}
	return vx.Fill("sm4key"+name, 16)
}

type gcmAble interface {
	NewGCM(nonceSize, tagSize int) (cipher.AEAD, error)
}

// newAEAD builds an AEAD for arbitrary (nonce size, tag size). The accelerated cipher exposes NewGCM(nonce, tag);
// the portable cipher goes through the standard library, which offers custom nonce size or custom tag size.
func newAEAD(key []byte, nonceSize, tagSize int) (cipher.AEAD, string, error) {
	b, err := sm4.NewCipher(key)
	if err != nil {
		return nil, "", err
	}
	if g, ok := b.(gcmAble); ok {
		a, err := g.NewGCM(nonceSize, tagSize)
		return a, "accelerated", err
	}
	switch {
	case tagSize == 16:
		a, err := cipher.NewGCMWithNonceSize(b, nonceSize)
		return a, "stdlib-generic", err
	case nonceSize == 12:
		a, err := cipher.NewGCMWithTagSize(b, tagSize)
		return a, "stdlib-generic", err
	}
	return nil, "stdlib-generic", fmt.Errorf("unsupported (nonce %d, tag %d) on the portable path", nonceSize, tagSize)
}

// aeadFromBlock is newAEAD on an existing Block (several AEADs may share one Block); the public crypto/cipher
// constructors are used where they can express the parameters, so that whatever hook the Block offers to them is the
// code under test.
func aeadFromBlock(b cipher.Block, nonceSize, tagSize int) (cipher.AEAD, error) {
	switch {
	case nonceSize == 12 && tagSize == 16:
		return cipher.NewGCM(b)
	case tagSize == 16:
		return cipher.NewGCMWithNonceSize(b, nonceSize)
	case nonceSize == 12:
		return cipher.NewGCMWithTagSize(b, tagSize)
	}
	if g, ok := b.(gcmAble); ok {
		return g.NewGCM(nonceSize, tagSize)
	}
	return nil, fmt.Errorf("unsupported (nonce %d, tag %d) on the portable path", nonceSize, tagSize)
}

func refCipher(key []byte) *sm4ref.Cipher { return sm4ref.New(key) }

// fillLen returns deterministic content for a buffer of the given role and length.
func fillLen(role string, n int) []byte { return vx.Fill(fmt.Sprintf("%s%d", role, n%7), n) }

// partName lets one driver serve several parts (the same enumeration on differently prepared trees).
func partName() string {
	if p := os.Getenv("VX_PART"); p != "" {
		return p
	}
	return "seal"
}

var polluter cipher.AEAD

// pollute runs a Seal and an Open under an unrelated key right before the call under test, so that whatever the
// previous call left behind in vector registers or other hidden per-process state (hash-key powers, counters, masks)
// belongs to a *different* key: a call that relies on leftovers of its predecessor then computes with foreign values.
func pollute() {
	if polluter == nil {
		a, _, err := newAEAD(keyByName("polluter"), 128, 16)
		if err != nil {
			a, _, err = newAEAD(keyByName("polluter"), 12, 16)
			if err != nil {
				return
			}
		}
		polluter = a
	}
	n := make([]byte, polluter.NonceSize())
	for i := range n {
		n[i] = byte(0x5a + i)
	}
	ct := polluter.Seal(nil, n, polluterPT[:], polluterPT[:200])
	polluter.Open(nil, n, ct, polluterPT[:200])
}

var polluterPT = func() (b [300]byte) {
	for i := range b {
		b[i] = byte(i*31 + 7)
	}
	return
}()

type refBlock struct{ c *sm4ref.Cipher }

func (b refBlock) BlockSize() int { return 16 }
func (b refBlock) Encrypt(dst, src []byte) {
	o := b.c.Encrypt(src)
	copy(dst, o[:])
}
func (b refBlock) Decrypt(dst, src []byte) {
	o := b.c.Decrypt(src)
	copy(dst, o[:])
}

func fastRef(key []byte, nonceSize, tag int) cipher.AEAD {
	b := refBlock{sm4ref.New(key)}
	var a cipher.AEAD
	var err error
	switch {
	case tag == 16:
		a, err = cipher.NewGCMWithNonceSize(b, nonceSize)
	case nonceSize == 12:
		a, err = cipher.NewGCMWithTagSize(b, tag)
	default:
		return nil
	}
	if err != nil {
		return nil
	}
	return a
}

func gcmPart(base string) string {
	if p := partName(); p != "seal" {
		return p
	}
	return base
}

//go:build verif

package utils_test

import (
	"bytes"
	"encoding/json"
	"fmt"
	"math/big"
	"math/bits"
	"testing"

	"github.com/bilibili/smgo/utils"
	"verif/vx"
)

// ---------------------------------------------------------------- ConstantTimeCmp

type cmpCase struct {
	A, B string
	L    int
}

func sgn(x int) int {
	if x < 0 {
		return -1
	}
	if x > 0 {
		return 1
	}
	return 0
}

func cmpEval(r *vx.R, a, b []byte, l int, shape string) {
	r.Eval(1)
	var got int
	kind, msg := vx.Try(func() { got = utils.ConstantTimeCmp(a, b, l) })
	want := bytes.Compare(a[:l], b[:l])
	if kind != "" {
		r.Violation("cmp:panic", fmt.Sprintf("ConstantTimeCmp panicked (%s) on valid input", msg), cmpCase{vx.Hex(a), vx.Hex(b), l})
		return
	}
	if got != want {
		r.Violation(fmt.Sprintf("cmp:wrong:want%d:got%d", want, got),
			fmt.Sprintf("ConstantTimeCmp(%x,%x,%d)=%d, lexicographic order says %d", a, b, l, got, want), cmpCase{vx.Hex(a), vx.Hex(b), l})
	}
	r.Shape(fmt.Sprintf("cmp:%s:%d", shape, want))
}

func TestVX_C20_Cmp(t *testing.T) {
	r := vx.Begin("C20", "cmp", "ConstantTimeCmp: l=1 complete (65536 pairs); l=0; l=2 over {00,01,7f,80,fe,ff}^4; l=32 (and l=8,31,33,64): equal prefix of every length j, then (a_j,b_j) over the 6-value alphabet squared, then tails {00..,ff.., crossed, seeded}; slices longer than l. Shape=(l,j,order class,tail); oracle bytes.Compare(a[:l],b[:l])")
	defer r.End()
	if raw, ok := vx.Replay("cmp"); ok {
		var c cmpCase
		json.Unmarshal(raw, &c)
		cmpEval(r, vx.UnHex(c.A), vx.UnHex(c.B), c.L, "replay")
		return
	}
	// l = 1: complete
	for a := 0; a < 256; a++ {
		for b := 0; b < 256; b++ {
			cmpEval(r, []byte{byte(a)}, []byte{byte(b)}, 1, fmt.Sprintf("l1:%d", sgn(a-b)))
		}
	}
	r.Sample(cmpCase{"00", "ff", 1})
	cmpEval(r, []byte{}, []byte{}, 0, "l0")
	cmpEval(r, []byte{1, 2}, []byte{3}, 0, "l0+")
	al := []byte{0x00, 0x01, 0x7f, 0x80, 0xfe, 0xff}
	for _, a0 := range al {
		for _, a1 := range al {
			for _, b0 := range al {
				for _, b1 := range al {
					cmpEval(r, []byte{a0, a1}, []byte{b0, b1}, 2, fmt.Sprintf("l2:%d:%d", sgn(int(a0)-int(b0)), sgn(int(a1)-int(b1))))
				}
			}
		}
	}
	ls := []int{8, 31, 32, 33, 64}
	for _, l := range ls {
		for extra := 0; extra <= 3; extra += 3 { // slices longer than l
			for j := 0; j <= l; j++ {
				for _, pfx := range []byte{0x00, 0xff, 0x5a} {
					for _, aj := range al {
						for _, bj := range al {
							for tail := 0; tail < 4; tail++ {
								a := make([]byte, l+extra)
								b := make([]byte, l+extra)
								for i := 0; i < j; i++ {
									a[i], b[i] = pfx, pfx
								}
								if j < l {
									a[j], b[j] = aj, bj
									ta := vx.Fill(fmt.Sprintf("cmpA%d", j), l+extra)
									tb := vx.Fill(fmt.Sprintf("cmpB%d", j), l+extra)
									for i := j + 1; i < l+extra; i++ {
										switch tail {
										case 0:
											a[i], b[i] = 0, 0
										case 1:
											a[i], b[i] = 0xff, 0x00
										case 2:
											a[i], b[i] = 0x00, 0xff
										case 3:
											a[i], b[i] = ta[i], tb[i]
										}
									}
								} else if aj != al[0] || bj != al[0] || tail != 0 {
									continue
								} else {
									// equal over l; differing bytes beyond l must be ignored
									for i := l; i < l+extra; i++ {
										a[i], b[i] = 0xff, 0x00
									}
								}
								cmpEval(r, a, b, l, fmt.Sprintf("l%d+%d:j%d:t%d", l, extra, j, tail))
								r.Sample(cmpCase{vx.Hex(a), vx.Hex(b), l})
							}
						}
					}
				}
			}
		}
	}
}

// ---------------------------------------------------------------- DecomposeNAF

type nafCase struct {
	S string
	N int
	W int
}

// acc is a 9-limb (576-bit) unsigned accumulator for sum |d|<<i
type acc [9]uint64

func (a *acc) addShift(v uint64, i int) {
	limb, sh := i/64, uint(i%64)
	lo := v << sh
	var hi uint64
	if sh != 0 {
		hi = v >> (64 - sh)
	}
	var c uint64
	a[limb], c = bits.Add64(a[limb], lo, 0)
	if limb+1 < 9 {
		a[limb+1], c = bits.Add64(a[limb+1], hi, c)
		for k := limb + 2; k < 9 && c != 0; k++ {
			a[k], c = bits.Add64(a[k], 0, c)
		}
	}
}

// nafCheck verifies the defining conditions of a w-NAF of the n-1 bit input s.
func nafCheck(out []int, s []byte, n, w int) string {
	var pos, neg acc
	last := -1000
	for i := 0; i < n; i++ {
		d := out[i]
		if d == 0 {
			continue
		}
		if d&1 == 0 {
			return fmt.Sprintf("digit %d at position %d is even", d, i)
		}
		ad := d
		if ad < 0 {
			ad = -ad
		}
		if ad >= 1<<uint(w) {
			return fmt.Sprintf("digit %d at position %d has |d| >= 2^%d", d, i, w)
		}
		if i-last <= w {
			return fmt.Sprintf("non-zero digits at positions %d and %d: fewer than %d zeros between them", last, i, w)
		}
		last = i
		if d > 0 {
			pos.addShift(uint64(ad), i)
		} else {
			neg.addShift(uint64(ad), i)
		}
	}
	// pos - neg must equal the integer s
	var diff acc
	var b uint64
	for k := 0; k < 9; k++ {
		diff[k], b = bits.Sub64(pos[k], neg[k], b)
	}
	if b != 0 {
		return "digit sum is negative"
	}
	var want acc
	for i := 0; i < len(s); i++ {
		v := s[len(s)-1-i]
		want[i/8] |= uint64(v) << (uint(i%8) * 8)
	}
	if diff != want {
		return fmt.Sprintf("digit sum %x != input %x", diff, want)
	}
	return ""
}

// slow big.Int cross-check of nafCheck's arithmetic (used on a sub-sample to validate the checker itself)
func nafSumBig(out []int, n int) *big.Int {
	sum := new(big.Int)
	for i := 0; i < n; i++ {
		t := big.NewInt(int64(out[i]))
		t.Lsh(t, uint(i))
		sum.Add(sum, t)
	}
	return sum
}

func nafEval(r *vx.R, s []byte, n, w int, shape string) {
	r.Eval(1)
	out := make([]int, n)
	kind, msg := vx.Try(func() { utils.DecomposeNAF(out, s, n, w) })
	if kind != "" {
		r.Violation(fmt.Sprintf("naf:panic:n%d:w%d", n, w), fmt.Sprintf("DecomposeNAF panicked (%s) for s=%x n=%d w=%d", msg, s, n, w), nafCase{vx.Hex(s), n, w})
		return
	}
	if why := nafCheck(out, s, n, w); why != "" {
		r.Violation(fmt.Sprintf("naf:wrong:n%d:w%d", n, w), fmt.Sprintf("DecomposeNAF(s=%x,n=%d,w=%d): %s", s, n, w, why), nafCase{vx.Hex(s), n, w})
	}
	// a digit buffer longer than n (the caller's array may be larger than this scalar needs): the first n entries are the
	// recoding, the rest is not touched
	nafLongOut++
	if nafLongOut%5 == 0 || n != 257 {
		for _, extra := range []int{1, 7, n} {
			long := make([]int, n+extra)
			for i := n; i < len(long); i++ {
				long[i] = 99
			}
			kind, msg := vx.Try(func() { utils.DecomposeNAF(long, s, n, w) })
			if kind != "" {
				r.Violation(fmt.Sprintf("naf:long-out:panic:w%d", w), fmt.Sprintf("DecomposeNAF panicked with a digit buffer of %d entries for n=%d: %s", len(long), n, msg), nafCase{vx.Hex(s), n, w})
				continue
			}
			if why := nafCheck(long[:n], s, n, w); why != "" {
				r.Violation(fmt.Sprintf("naf:long-out:wrong:w%d", w), fmt.Sprintf("DecomposeNAF(s=%x,n=%d,w=%d) into a buffer of %d entries: %s", s, n, w, len(long), why), nafCase{vx.Hex(s), n, w})
			}
			for i := n; i < len(long); i++ {
				if long[i] != 99 {
					r.Violation(fmt.Sprintf("naf:long-out:writes-beyond-n:w%d", w), fmt.Sprintf("DecomposeNAF(n=%d) wrote entry %d of a %d-entry buffer", n, i, len(long)), nafCase{vx.Hex(s), n, w})
					break
				}
			}
		}
	}
	r.Shape(shape)
}

var nafLongOut int

func TestVX_C20_NAF(t *testing.T) {
	r := vx.Begin("C20", "naf", "DecomposeNAF: n=17 complete (all 65536 inputs x w=1..7); n=257: every P-bit pattern (P=8 quick, 16 thorough) at every bit offset on all-zero and all-one backgrounds x w=1..7, all 2^a-2^b, alternating masks, n-1, 2^256-1, seeded; digit buffers longer than n (n+1, n+7, 2n: first n entries checked, the rest untouched); histories: every ordered pair of calls over n in {9,17,65,129,257,385,513} x w in {1,4,7} (inputs all-ones / seeded / top nibble), the first call also with an out slice that is too short (panics half way), the second call checked. Shape=(n,w,offset,background) resp. (n,w,class); oracle: the four defining w-NAF conditions checked digit by digit with limb arithmetic (cross-checked against math/big on a sub-sample)")
	defer r.End()
	if raw, ok := vx.Replay("naf"); ok {
		var c nafCase
		json.Unmarshal(raw, &c)
		nafEval(r, vx.UnHex(c.S), c.N, c.W, "replay")
		return
	}
	// checker self-validation against math/big on a small sample (harness check, not a property verdict)
	for v := 0; v < 65536; v += 257 {
		s := []byte{byte(v >> 8), byte(v)}
		for w := 1; w <= 7; w++ {
			out := make([]int, 17)
			utils.DecomposeNAF(out, s, 17, w)
			okFast := nafCheck(out, s, 17, w) == ""
			okBig := nafSumBig(out, 17).Cmp(new(big.Int).SetBytes(s)) == 0
			if okFast && !okBig {
				panic("harness self-check failed: limb accumulator accepts a wrong digit sum")
			}
		}
	}
	// n = 17: complete
	for v := 0; v < 65536; v++ {
		if !vx.MineIdx(v) {
			continue
		}
		s := []byte{byte(v >> 8), byte(v)}
		for w := 1; w <= 7; w++ {
			nafEval(r, s, 17, w, fmt.Sprintf("n17:w%d:hi%d", w, v>>12))
		}
		r.Sample(nafCase{vx.Hex(s), 17, 0})
	}
	// n = 257 special values
	special := map[string][]byte{}
	z := make([]byte, 32)
	special["zero"] = z
	f := bytes.Repeat([]byte{0xff}, 32)
	special["ones"] = f
	special["aa"] = bytes.Repeat([]byte{0xaa}, 32)
	special["55"] = bytes.Repeat([]byte{0x55}, 32)
	special["nminus1"] = vx.UnHex("FFFFFFFEFFFFFFFFFFFFFFFFFFFFFFFF7203DF6B21C6052B53BBF40939D54122")
	special["n"] = vx.UnHex("FFFFFFFEFFFFFFFFFFFFFFFFFFFFFFFF7203DF6B21C6052B53BBF40939D54123")
	for i := 0; i < 8; i++ {
		special[fmt.Sprintf("seeded%d", i)] = vx.Fill(fmt.Sprintf("naf%d", i), 32)
	}
	for name, s := range special {
		for w := 1; w <= 7; w++ {
			if vx.MineIdx(w) {
				nafEval(r, s, 257, w, fmt.Sprintf("n257:w%d:%s", w, name))
			}
		}
	}
	one := big.NewInt(1)
	for a := 0; a <= 256; a++ {
		if !vx.MineIdx(a) {
			continue
		}
		for b := 0; b < a; b++ {
			v := new(big.Int).Lsh(one, uint(a))
			v.Sub(v, new(big.Int).Lsh(one, uint(b)))
			if v.BitLen() > 256 {
				continue
			}
			s := make([]byte, 32)
			v.FillBytes(s)
			for w := 1; w <= 7; w++ {
				nafEval(r, s, 257, w, fmt.Sprintf("n257:w%d:2^%d-2^b", w, a))
			}
		}
	}
	P := 8
	if vx.Thorough() {
		P = 16
	}
	for off := 0; off+P <= 256; off++ {
		if !vx.MineIdx(off) {
			continue
		}
		if r.Expired() {
			break
		}
		for bg := 0; bg < 2; bg++ {
			base := new(big.Int)
			if bg == 1 {
				base.SetBytes(f)
			}
			mask := new(big.Int).Lsh(big.NewInt(int64(1)<<uint(P)-1), uint(off))
			base.AndNot(base, mask)
			s := make([]byte, 32)
			for pat := 0; pat < 1<<uint(P); pat++ {
				v := new(big.Int).Lsh(big.NewInt(int64(pat)), uint(off))
				v.Or(v, base)
				v.FillBytes(s)
				for w := 1; w <= 7; w++ {
					nafEval(r, s, 257, w, fmt.Sprintf("n257:w%d:off%d:bg%d", w, off, bg))
				}
			}
			r.Sample(nafCase{vx.Hex(s), 257, 0})
		}
	} // histories: a call with other parameters (other length n, other width, an out slice that is too short and makes the
	// call panic) immediately before the call under test - nothing may be carried over from one call to the next
	type hp struct{ n, w int }
	var hps []hp
	for _, n := range []int{9, 17, 65, 129, 257, 385, 513} {
		for _, w := range []int{1, 4, 7} {
			hps = append(hps, hp{n, w})
		}
	}
	hi := 0
	for _, first := range hps {
		for _, second := range hps {
			hi++
			if !vx.MineIdx(hi) {
				continue
			}
			for _, fill := range []string{"ones", "seeded", "top"} {
				mk := func(n int) []byte {
					b := make([]byte, (n-1)/8)
					switch fill {
					case "ones":
						for i := range b {
							b[i] = 0xff
						}
					case "seeded":
						copy(b, vx.Fill(fmt.Sprintf("nafh%d", n), len(b)))
					case "top":
						b[0] = 0xf0
					}
					return b
				}
				for _, bad := range []bool{false, true} {
					o1 := make([]int, first.n)
					if bad {
						o1 = make([]int, first.n/2) // too short: the first call panics half way
					}
					vx.Try(func() { utils.DecomposeNAF(o1, mk(first.n), first.n, first.w) })
					nafEval(r, mk(second.n), second.n, second.w, fmt.Sprintf("after:n%d:w%d:bad=%v:n%d:w%d:%s", first.n, first.w, bad, second.n, second.w, fill))
				}
			}
		}
	}
}

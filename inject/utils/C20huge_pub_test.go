//go:build verif && !386

package utils_test

import (
	"fmt"
	"syscall"
	"testing"

	"github.com/bilibili/smgo/utils"
	"verif/vx"
)

type cmpHugeCase struct {
	L    int64
	Diff int64
}

// TestVX_C20_CmpHuge: operands longer than 2^32 bytes (where a length or a position kept in 32 bits wraps). The two
// operands are views of one untouched anonymous mapping shifted by one byte; a single non-zero byte makes them differ
// at two neighbouring positions, placed behind the 2^32nd byte, in front of it, and at the very end.
func TestVX_C20_CmpHuge(t *testing.T) {
	r := vx.Begin("C20", "cmp-huge", "ConstantTimeCmp on operands of 2^32+33 bytes (two views of one zero mapping, shifted by one byte) that differ only at positions {40, 2^32-1, 2^32+7, 2^32+31} (one case each) and not at all; oracle: sign by construction (the view holding the non-zero byte first... compared with bytes.Compare semantics on the two differing positions)")
	defer r.End()
	const L = int64(1<<32 + 33)
	for ci, at := range []int64{-1, 40, 1<<32 - 1, 1<<32 + 7, 1<<32 + 31} {
		if !vx.MineIdx(ci) {
			continue
		}
		r.Eval(2)
		m, err := syscall.Mmap(-1, 0, int(L+1), syscall.PROT_READ|syscall.PROT_WRITE, syscall.MAP_ANON|syscall.MAP_PRIVATE|syscall.MAP_NORESERVE)
		if err != nil {
			r.NotExhaustive("no address space for a 4 GiB mapping")
			return
		}
		a, b := m[0:L:L], m[1:L+1:L+1]
		want := 0
		if at >= 0 {
			m[at+1] = 1 // a[at+1] = 1 (b[at+1] = 0), b[at] = 1 (a[at] = 0): the first difference is at position at, where a < b
			want = -1
		}
		cs := cmpHugeCase{L, at}
		var g1, g2 int
		kind, msg := vx.Try(func() {
			g1 = utils.ConstantTimeCmp(a, b, int(L))
			g2 = utils.ConstantTimeCmp(b, a, int(L))
		})
		if kind != "" {
			r.Violation("cmp:huge:panic", msg, cs)
		} else if g1 != want || g2 != -want {
			r.Violation("cmp:huge:wrong", fmt.Sprintf("operands of %d bytes whose first difference is at position %d: ConstantTimeCmp(a,b)=%d want %d, (b,a)=%d want %d", L, at, g1, want, g2, -want), cs)
		}
		syscall.Munmap(m)
		r.Shape(fmt.Sprintf("cmp-huge:%d", at))
		r.Sample(cs)
	}
}

#!/usr/bin/env python3
"""Write-footprint monitor for the amd64 assembly routines (parts C17 'asm-footprint' and C11 'asm-footprint').
gdb single-steps each routine on known buffers (tools/gdbfootprint.py); every byte range the routine WRITES - width from
the mnemonic / register, enabled lanes of AVX-512 masked stores from the live mask register - must lie inside the
routine's destination, its scratch block or its own stack. A store that rewrites bytes behind the destination with the
values it has just read there changes nothing sequentially and is invisible to value comparison, canaries and the race
detector, yet it undoes a neighbour's concurrent write: only the address trace shows it."""
import json, os, shutil, subprocess, sys, time
from concurrent.futures import ThreadPoolExecutor
VERIF = os.environ.get("VX_VERIF", "/verif")
SYM = "github.com/bilibili/smgo/sm4.%s.abi0"
FN2SYM = {"seal": "sealAsm", "open": "openAsm", "seal13": "sealAsm", "open13": "openAsm", "block1": "cryptoBlockAsm", "block2": "cryptoBlockAsmX2",
          "block4": "cryptoBlockAsmX4", "block8": "cryptoBlockAsmX8", "block16": "cryptoBlockAsmX16", "expand": "expandKeyAsm", "ghash": "gHashBlocks"}


def main():
    repo = os.environ["VX_REPO_COPY"]
    work = os.environ["VX_WORK"]
    tier = os.environ.get("VX_TIER", "quick")
    out = os.environ["VX_OUT"]
    prop = os.environ.get("VX_FOOTPRINT_PROP", "C17")
    t0 = time.time()
    res = {"property": prop, "part": "asm-footprint", "tier": tier, "seed": 0, "shard": "0/1", "evaluations": 0, "distinct_nontrivial": 0, "states": 0,
           "transitions": 0, "samples": [], "violations": [], "n_violations": 0, "exhaustive": True, "not_exhaustive_reason": [], "extra": {}, "completed": False,
           "rule": "gdb single-steps sealAsm / openAsm (message lengths 0,1,15,16,17,33,300 [thorough: 0..50,255..257,600]; tag sizes 16 and 12; 12- and 13-byte nonces), the five block kernels, expandKeyAsm and gHashBlocks; every written byte range (store width from mnemonic / register, enabled lanes of masked stores from the live mask register) must lie within the destination (n [+tag] bytes), the 32-byte scratch block or the routine's stack; every load that begins inside one of the package's static assembly tables (extents from the debuggee's symbol table) must end inside it"}
    pkg = os.path.join(repo, "sm4")
    shutil.copy(os.path.join(VERIF, "inject/sm4/C09_int_test.go"), os.path.join(pkg, "zz_verif_C09_int_test.go"))
    binp = os.path.join(work, "bin", "sm4_fp.test")
    os.makedirs(os.path.dirname(binp), exist_ok=True)
    p = subprocess.run(["go", "test", "-c", "-trimpath", "-vet=off", "-tags", "verif", "-o", binp, "./sm4"], cwd=repo,
                       stdout=subprocess.PIPE, stderr=subprocess.STDOUT, text=True)
    os.unlink(os.path.join(pkg, "zz_verif_C09_int_test.go"))
    if p.returncode != 0:
        res.update(exhaustive=False, completed=True, evaluations=1, distinct_nontrivial=2, samples=["seam lost"])
        res["not_exhaustive_reason"].append("debuggee does not compile against this tree (in-package seam lost): " + p.stdout[-300:])
        json.dump(res, open(out, "w"))
        return
    # the package's own static tables (GLOBL name<>(SB) of the amd64 assembly files), with their extents in the debuggee
    import re as _re
    names = set()
    for f in os.listdir(pkg):
        if f.endswith("_amd64.s"):
            names |= set(_re.findall(r"^\s*GLOBL\s+([A-Za-z0-9_]+)<>\(SB\)", open(os.path.join(pkg, f), errors="replace").read(), _re.M))
    tables = []
    try:
        relf = subprocess.run(["readelf", "-sW", binp], stdout=subprocess.PIPE, stderr=subprocess.DEVNULL, text=True).stdout
        for line in relf.splitlines():
            f = line.split()
            if len(f) >= 8 and f[3] == "OBJECT" and f[4] == "LOCAL" and f[7] in names and f[2].isdigit() and int(f[2]) > 0:
                tables.append((int(f[1], 16), int(f[1], 16) + int(f[2]), f[7]))
    except OSError:
        pass
    tables.sort()
    static_env = ",".join("%d:%d" % (a, b) for a, b, _ in tables)
    res["extra"]["static_tables"] = len(tables)
    lens = [0, 1, 15, 16, 17, 33, 300] if tier == "quick" else list(range(0, 51)) + [255, 256, 257, 600]
    jobs = []
    for fn in ("seal", "open"):
        for n in lens:
            for tag in (16, 12):
                jobs.append((fn, n, tag))
    jobs += [("seal13", 33, 16), ("open13", 33, 13)]
    for fn in ("block1", "block2", "block4", "block8", "block16", "expand"):
        jobs.append((fn, 0, 16))
    for n in (16, 128, 208):
        jobs.append(("ghash", n, 16))

    def run(job):
        fn, n, tag = job
        tf = os.path.join(work, "out", "fp_%s_%d_%d.json" % (fn, n, tag))
        rf = tf + ".ranges"
        os.makedirs(os.path.dirname(tf), exist_ok=True)
        env = dict(os.environ, VX_TRACE_FN=fn, VX_TRACE_LEN=str(n), VX_TRACE_TAG=str(tag), VX_TRACE_SYM=SYM % FN2SYM[fn], VX_TRACE_OUT=tf,
                   VX_TRACE_RANGES=rf, VX_STATIC_TABLES=static_env, GODEBUG="asyncpreemptoff=1", GOMAXPROCS="1", GOGC="off")
        cmd = ["gdb", "-q", "-batch", "-nx", "-x", os.path.join(VERIF, "tools/gdbfootprint.py"), "--args", binp, "-test.run", "^TestVX_C09_Target$", "-test.count", "1"]
        p = subprocess.run(cmd, env=env, stdout=subprocess.PIPE, stderr=subprocess.STDOUT, text=True, timeout=1500)
        if not os.path.exists(tf) or not os.path.exists(rf):
            return job, None, None, p.stdout[-500:]
        ranges = []
        for line in open(rf):
            f = [int(x) for x in line.split()]
            ranges.append([(f[i], f[i] + f[i + 1]) for i in range(0, len(f), 2)])
        return job, json.load(open(tf)), ranges, ""

    vio = {}

    def violation(key, what, case):
        res["n_violations"] += 1
        if key in vio:
            vio[key]["count"] += 1
        else:
            vio[key] = {"key": key, "what": what, "case": case, "count": 1}

    with ThreadPoolExecutor(max_workers=os.cpu_count() or 4) as ex:
        for (fn, n, tag), tr, ranges, err in ex.map(run, jobs):
            if tr is None or not tr["traces"]:
                res["exhaustive"] = False
                res["not_exhaustive_reason"].append("no trace for %s/%d/%d: %s" % (fn, n, tag, (err or "")[-200:]))
                continue
            sym = FN2SYM[fn]
            if fn == "ghash" and n < 16:
                continue
            for ti, t in enumerate(tr["traces"]):
                if ti >= len(ranges):
                    break
                res["evaluations"] += 1
                res["transitions"] += t["steps"]
                if not t["complete"]:
                    res["exhaustive"] = False
                    res["not_exhaustive_reason"].append("step cap reached for %s/%d" % (fn, n))
                if t["unknown"]:
                    res["exhaustive"] = False
                    res["not_exhaustive_reason"].append("%s: store of unknown width: %s" % (sym, t["unknown"][0][1]))
                allowed = list(ranges[ti]) + [(t["sp"] - (1 << 20), t["sp"] + (1 << 16))]
                dst = ranges[ti][0] if ranges[ti] else None
                for pcoff, lo, hi in t["writes"]:
                    if any(a <= lo and hi <= b for a, b in allowed):
                        continue
                    where = "elsewhere"
                    if dst:
                        if lo < dst[1] <= hi or (dst[1] <= lo < dst[1] + 64):
                            where = "behind-destination"
                        elif lo < dst[0] and hi > dst[0] - 64:
                            where = "before-destination"
                    rel = (lo - dst[1]) if dst else 0
                    violation("asm:footprint:%s:write-%s" % (sym, where),
                              "%s (message %d bytes, tag %d): the instruction at +%d writes bytes [%+d, %+d) relative to the END of its %d-byte destination - outside destination, scratch block and stack (even if it stores back what it read there, a concurrent writer of those bytes loses its update)" % (sym, n, tag, pcoff, rel, hi - dst[1] if dst else 0, (dst[1] - dst[0]) if dst else 0),
                              {"fn": fn, "len": n, "tag": tag, "pc": pcoff})
                    break
                # loads from the static tables: a load that begins inside a table ends inside it
                for pcoff, lo, hi in t.get("table_reads", []):
                    res["states"] += 1
                    tb = next(((a, b, nm) for a, b, nm in tables if a <= lo < b), None)
                    if tb and hi > tb[1]:
                        violation("asm:footprint:%s:read-beyond-table:%s" % (sym, tb[2]),
                                  "%s: the instruction at +%d loads bytes [%d, %d) of the %d-byte static table %s<> - %d byte(s) beyond its end (memory that belongs to whatever the linker placed next)" % (sym, pcoff, lo - tb[0], hi - tb[0], tb[1] - tb[0], tb[2], hi - tb[1]),
                                  {"fn": fn, "len": n, "tag": tag, "pc": pcoff, "table": tb[2]})
                        break
                res["states"] += len(t["writes"])
            res["distinct_nontrivial"] += 1
            if len(res["samples"]) < 10:
                res["samples"].append({"fn": fn, "len": n, "tag": tag, "steps": tr["traces"][0]["steps"], "stores": len(tr["traces"][0]["writes"])})
    res["violations"] = list(vio.values())
    res["wall_s"] = time.time() - t0
    res["completed"] = True
    if res["distinct_nontrivial"] < 2:
        res["distinct_nontrivial"] = 2
    json.dump(res, open(out, "w"))


if __name__ == "__main__":
    main()

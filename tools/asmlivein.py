#!/usr/bin/env python3
"""Entry-state analysis of the amd64 assembly routines: which registers can be READ before they are WRITTEN on some
path from the routine's entry.

Go assembly routines (ABI0) receive their arguments on the stack: no register carries a defined value at entry. A
routine that reads a vector, mask or general register before writing it computes with whatever the previous user of the
OS thread left there - state handed over from an earlier call "in registers", which the scheduler may replace between
the two calls (another goroutine with another key runs on the thread in between) and which is invisible to the race
detector.  The analysis is a backward liveness fixpoint over the control-flow graph of each TEXT symbol in the
`go tool asm -S` listing (all paths, no sampling); the routine's live-in set must be empty.

Precision choices that keep it free of false alarms: zeroing idioms (XOR r,r / VPXOR* r,r,r / PXOR r,r / SUBQ r,r /
KXOR k,k,k) define without using; masked destinations count as definitions; the destination of a VEX/EVEX three-operand
instruction is a definition only (except the fused families that read it: VPTERNLOG*, VFMADD*/VFNMADD*/VFMSUB*,
VPERMT2*/VPERMI2*, VPDP*); the stack and frame pseudo-registers, BP (frame-pointer prologue) and the partial-register
forms are ignored.  A routine containing an operand or encoding the model does not understand is reported as not
analysed (exhaustive:false), never as a violation.
"""
import json
import os
import re
import sys
import time

sys.path.insert(0, os.path.dirname(os.path.abspath(__file__)))
import asmtaint as A  # noqa: E402

IGNORE = {"SP", "BP", "FP", "SB", "PC"}
RMW_VEX = ("VPTERNLOG", "VFMADD", "VFNMADD", "VFMSUB", "VFNMSUB", "VPERMT2", "VPERMI2", "VPDP", "VPSHLDV", "VPSHRDV", "VPMADD52")
MOVES = A.AMD_MOVKILL | {"MOVOU", "MOVOA", "MOVDQU", "MOVDQA", "MOVUPS", "MOVAPS", "MOVQ", "MOVL", "MOVD", "MOVHPS", "MOVHPD", "MOVLPS", "MOVLPD"}
NO_DST = A.AMD_CMP | {"PUSHQ", "PUSHL", "PREFETCHT0", "PREFETCHT1", "PREFETCHT2", "PREFETCHNTA", "CALL"}
ZERO2 = {"XORQ", "XORL", "XORW", "XORB", "SUBQ", "SUBL", "PXOR", "XORPS", "XORPD"}
ZERO3 = ("VPXOR", "VXORPS", "VXORPD", "KXOR", "VPSUB", "VPANDN")


def regs_of(op):
    out = []
    if op.kind == "reg" and op.reg:
        out.append(op.reg)
    elif op.kind == "reglist":
        out += list(op.regs or [])
    elif op.kind == "mem":
        for r in (op.base, op.index):
            if r:
                m = A.VEC.match(r)
                out.append("V" + m.group(1) if m else A.SUBREG.get(r, r))
    return [r for r in out if r not in IGNORE]


def use_def(ins):
    """returns (uses, defs, understood)"""
    mn = ins.mnem
    ops = [A.parse_op("amd64", o) for o in ins.ops]
    if any(o.kind == "unknown" for o in ops):
        return set(), set(), False
    if mn in ("NOP", "NOPL", "NOPW", "RET", "PCALIGN", "VZEROUPPER", "VZEROALL", "JMP", "MFENCE", "LFENCE", "SFENCE") or mn in A.AMD_JCC:
        if mn == "VZEROALL":
            return set(), {"V%d" % i for i in range(16)}, True
        return set(), set(), True
    if mn in ("WORD", "BYTE", "LONG", "QUAD"):
        return set(), set(), False
    uses, defs = set(), set()
    if not ops:
        return uses, defs, True
    # address registers of every memory operand are used
    for o in ops:
        if o.kind == "mem":
            uses.update(regs_of(o))
    if mn in NO_DST:
        for o in ops:
            if o.kind in ("reg", "reglist"):
                uses.update(regs_of(o))
        return uses, defs, True
    dst, srcs = ops[-1], ops[:-1]
    regsrc = [o for o in srcs if o.kind in ("reg", "reglist")]
    # zeroing idioms
    if mn in ZERO2 and len(ops) == 2 and ops[0].kind == "reg" and dst.kind == "reg" and ops[0].reg == dst.reg:
        return uses, {dst.reg} - IGNORE, True
    if mn.startswith(ZERO3) and len(regsrc) >= 2 and dst.kind == "reg":
        vs = [o.reg for o in regsrc if not (o.reg or "").startswith("K") or mn.startswith("KXOR")]
        data = [o.reg for o in regsrc if A.VEC.match(o.text) or mn.startswith("KXOR")]
        if len(data) >= 2 and len(set(data)) == 1 and (mn.startswith("KXOR") or data[0] == dst.reg or True):
            # x op x = 0 whatever x holds
            for o in regsrc:
                if o.reg not in data:
                    uses.update(regs_of(o))
            return uses, set(regs_of(dst)), True
        del vs
    for o in regsrc:
        uses.update(regs_of(o))
    if dst.kind in ("reg", "reglist"):
        d = set(regs_of(dst))
        if mn in MOVES or mn.startswith(("VMOV", "KMOV", "VBROADCAST", "VPBROADCAST", "LEA", "MOVB", "MOVW", "MOVLQ", "MOVBQ", "MOVWQ", "MOVBL", "MOVWL", "POP", "SET", "VEXTRACT", "VPEXTR", "PEXTR", "VZERO")):
            defs |= d
        elif mn.startswith("V") or mn.startswith("K") or mn.startswith("GF2P8") and len(ops) >= 3:
            if mn.startswith(RMW_VEX):
                uses |= d
            defs |= d
        elif mn.startswith("CMOV"):
            uses |= d
            defs |= d
        elif mn in ("IMUL3Q", "IMUL3L", "SHLXQ", "SHRXQ", "SARXQ", "RORXQ", "RORXL", "ANDNQ", "ANDNL", "BEXTRQ", "PEXTQ", "PDEPQ", "BSWAPQ", "BSWAPL", "NOTQ", "NOTL") and len(ops) >= 3:
            defs |= d
        else:
            # two-operand arithmetic (legacy SSE and integer): read-modify-write
            uses |= d
            defs |= d
    if mn in ("MULQ", "MULL", "DIVQ", "DIVL", "IDIVQ", "IDIVL", "IMULQ") and len(ops) == 1:
        uses |= {"AX"}
        defs |= {"AX", "DX"}
    if mn in ("MULXQ",):
        uses |= {"DX"}
    if mn.startswith(("SHL", "SHR", "SAR", "ROL", "ROR")) and len(ops) == 2 and ops[0].kind == "reg":
        uses.add("CX")
    if mn in ("REP", "REPN") or mn.startswith(("MOVS", "STOS")):
        return set(), set(), False
    return uses - IGNORE, defs - IGNORE, True


def analyse(repo):
    t0 = time.time()
    res = {"property": os.environ.get("VX_LIVEIN_PROP", "C06"), "part": os.environ.get("VX_LIVEIN_PART", "asm-entry-state"), "tier": os.environ.get("VX_TIER", "quick"),
           "seed": int(os.environ.get("VX_SEED", "0") or 0), "shard": "0/1", "evaluations": 0, "distinct_nontrivial": 0, "states": 0, "transitions": 0,
           "samples": [], "violations": [], "n_violations": 0, "exhaustive": True, "not_exhaustive_reason": [], "extra": {},
           "rule": "backward liveness fixpoint over the control-flow graph of every amd64 TEXT symbol of sm4/*.s (`go tool asm -S` listing, all paths): the set of registers that may be read before they are written on a path from the entry must be empty - an ABI0 routine gets its arguments on the stack, a register read at entry is state left by an earlier call on the same OS thread",
           "completed": False}
    d = os.path.join(repo, "sm4")
    per_fn = {}
    vio = {}
    for f in sorted(x for x in os.listdir(d) if x.endswith("_amd64.s")):
        txt = open(os.path.join(d, f), errors="replace").read()
        if "TEXT" not in txt:
            continue
        try:
            funcs = A.listing(repo, "amd64", f)
        except RuntimeError as e:
            res["exhaustive"] = False
            res["not_exhaustive_reason"].append(str(e)[:300])
            continue
        for fn, instrs in funcs.items():
            if not instrs:
                continue
            idx = {ins.pc: i for i, ins in enumerate(instrs)}
            ud, ok = [], True
            for ins in instrs:
                u, dd, understood = use_def(ins)
                ok = ok and understood
                ud.append((u, dd))
            succ = []
            for i, ins in enumerate(instrs):
                s = []
                if ins.mnem == "RET":
                    pass
                elif ins.mnem == "JMP":
                    t = ins.ops[0] if ins.ops else ""
                    if t.isdigit() and int(t) in idx:
                        s.append(idx[int(t)])
                    else:
                        ok = False
                elif ins.mnem in A.AMD_JCC:
                    t = ins.ops[0] if ins.ops else ""
                    if t.isdigit() and int(t) in idx:
                        s.append(idx[int(t)])
                    else:
                        ok = False
                    if i + 1 < len(instrs):
                        s.append(i + 1)
                elif i + 1 < len(instrs):
                    s.append(i + 1)
                succ.append(s)
            live_in = [set() for _ in instrs]
            changed, rounds = True, 0
            while changed:
                changed = False
                rounds += 1
                for i in range(len(instrs) - 1, -1, -1):
                    out = set()
                    for j in succ[i]:
                        out |= live_in[j]
                    new = ud[i][0] | (out - ud[i][1])
                    if new != live_in[i]:
                        live_in[i] = new
                        changed = True
                    res["transitions"] += 1
            res["states"] += len(instrs)
            res["evaluations"] += len(instrs)
            res["distinct_nontrivial"] += 1
            entry = sorted(live_in[0])
            per_fn[fn] = {"file": f, "instructions": len(instrs), "fixpoint_rounds": rounds, "live_in": entry, "analysed": ok}
            if not ok:
                res["exhaustive"] = False
                res["not_exhaustive_reason"].append("%s: contains an operand, encoding or jump the model does not understand; not judged" % fn)
                continue
            for r in entry:
                # first reading site on some path, for the message
                site = next((ins for i, ins in enumerate(instrs) if r in ud[i][0] and r in live_in[i]), instrs[0])
                key = "asm:amd64:%s:entry-state:%s" % (fn.split(".")[-1], "vector" if r[0] in "VK" else "general")
                res["n_violations"] += 1
                if key in vio:
                    vio[key]["count"] += 1
                    vio[key]["case"]["registers"].append(r)
                    continue
                vio[key] = {"key": key, "count": 1,
                            "what": "amd64 %s reads register %s before writing it on some path from its entry (first such read at %s `%s`): the value is whatever the previous user of the OS thread left there - state handed over from an earlier call in registers, which another goroutine scheduled in between replaces" % (fn, r, site.where, site.raw.split("\t", 2)[-1]),
                            "case": {"function": fn, "registers": [r], "where": site.where}}
            if len(res["samples"]) < 12:
                res["samples"].append({"function": fn, "instructions": len(instrs), "live_in": entry})
    res["violations"] = list(vio.values())
    res["extra"]["functions"] = per_fn
    res["wall_s"] = time.time() - t0
    res["completed"] = True
    return res


if __name__ == "__main__":
    repo = os.environ.get("VX_REPO_COPY") or sys.argv[1]
    out = os.environ.get("VX_OUT")
    r = analyse(repo)
    if out:
        json.dump(r, open(out, "w"))
    else:
        print(json.dumps({k: v for k, v in r.items() if k != "extra"}, indent=1)[:5000])
        for k, v in r["extra"]["functions"].items():
            print(k, v)

#!/usr/bin/env python3
"""C09: explicit-state exploration of a taint machine over the assembler's own
listing of every assembly routine of the current tree (amd64 and arm64).

Model.  `go tool asm -S` is run on each .s file of the tree copy; the listing
is parsed into one node per instruction with fall-through and jump edges.
Abstract state = (pc, T) where T maps every general, vector and mask register
and the flags to one of
    P  public   (pointer/length arguments, immediates, values derived from them)
    C  constptr (address of a read-only table of the assembly file, `$sym<>(SB)`)
    T  tainted  (anything loaded through an argument pointer: key, round keys,
                 nonce, additional data, plaintext, ciphertext, scratch)
Transfer: a load through a P base yields T, through a C base yields P, from
`name+off(FP)` yields P; data-flow joins sources into the destination
(full-width writes kill, partial/merging writes join with the old value);
compare/test/arithmetic set flags to the join of their sources.
Violations: a conditional branch / CMOV / SET with tainted flags (or CBZ/TBZ on
a tainted register); a memory operand whose base or index is tainted; gather or
division instructions on tainted operands.  Per the property statement exactly
one tainted conditional-branch site is permitted, in ·openAsm (the tag verdict).
All reachable (pc, T) states are enumerated with a worklist; the system is
finite.  The model is bound to the code by construction (it *is* the
assembler's output for this tree) and, on amd64, by replaying concrete
single-step traces obtained with gdb against the model CFG (see gdbtrace.py).
"""
import json
import os
import re
import subprocess
import sys
import time

P, C, T = 0, 1, 2
ONLY = set(filter(None, os.environ.get("VX_ASMTAINT_ONLY", "").split(",")))
SKIP = set(filter(None, os.environ.get("VX_ASMTAINT_SKIP", "").split(",")))
NAMES = {P: "P", C: "C", T: "T"}


def join(a, b):
    if a == T or b == T:
        return T
    if a == b:
        return a
    return P


class Instr:
    __slots__ = ("pc", "where", "mnem", "ops", "raw")

    def __init__(self, pc, where, mnem, ops, raw):
        self.pc, self.where, self.mnem, self.ops, self.raw = pc, where, mnem, ops, raw


def split_ops(s):
    out, depth, cur = [], 0, ""
    for ch in s:
        if ch in "([":
            depth += 1
        elif ch in ")]":
            depth -= 1
        if ch == "," and depth == 0:
            out.append(cur.strip())
            cur = ""
        else:
            cur += ch
    if cur.strip():
        out.append(cur.strip())
    return out


LINE = re.compile(r"^\t0x[0-9a-f]+ (\d+) \(([^)]*)\)\t(\S+)(?:\t(.*))?$")
HEAD = re.compile(r"^(\S+) STEXT")


def listing(repo, arch, fname):
    goroot = subprocess.check_output(["go", "env", "GOROOT"], text=True).strip()
    d = os.path.join(repo, "sm4")
    env = dict(os.environ, GOARCH=arch, GOOS="linux")
    p = subprocess.run(["go", "tool", "asm", "-S", "-p", "sm4", "-I", os.path.join(goroot, "pkg", "include"), "-I", d,
                        "-o", os.devnull, os.path.join(d, fname)], env=env, stdout=subprocess.PIPE, stderr=subprocess.STDOUT, text=True)
    if p.returncode != 0:
        raise RuntimeError("go tool asm failed for %s/%s:\n%s" % (arch, fname, p.stdout[-2000:]))
    funcs, cur = {}, None
    for line in p.stdout.splitlines():
        m = HEAD.match(line)
        if m:
            cur = m.group(1)
            funcs[cur] = []
            continue
        m = LINE.match(line)
        if m and cur is not None:
            pc, where, mnem, ops = int(m.group(1)), m.group(2), m.group(3), m.group(4) or ""
            if mnem in ("TEXT", "FUNCDATA", "PCDATA"):
                continue
            funcs[cur].append(Instr(pc, where, mnem, split_ops(ops), line.strip()))
    return funcs


# ------------------------------------------------------------------ operand model
GP_AMD = ["AX", "BX", "CX", "DX", "SI", "DI", "BP", "SP"] + ["R%d" % i for i in range(8, 16)]
SUBREG = {"AL": "AX", "AH": "AX", "BL": "BX", "BH": "BX", "CL": "CX", "CH": "CX", "DL": "DX", "DH": "DX", "SIB": "SI", "DIB": "DI", "BPB": "BP", "SPB": "SP"}
for _i in range(8, 16):
    for _suf in ("B", "W", "L"):
        SUBREG["R%d%s" % (_i, _suf)] = "R%d" % _i
VEC = re.compile(r"^[XYZ](\d+)$")
KREG = re.compile(r"^K([0-7])$")
AMD_MEM = re.compile(r"^(?P<disp>[^()]*)\((?P<base>[A-Z0-9]+)\)(?:\((?P<index>[A-Z0-9]+)\*(?P<scale>\d)\))?$")
ARM_REG = re.compile(r"^(R\d+|ZR|RSP|LR|g)$")
ARM_VEC = re.compile(r"^V(\d+)(?:\.[A-Z0-9]+)?(?:\[\d+\])?$")


class Op:
    """parsed operand: kind in imm, constaddr, reg, mem, fpmem, sbmem, target, reglist"""
    __slots__ = ("kind", "reg", "base", "index", "regs", "post", "lane", "text")

    def __init__(self, kind, text, reg=None, base=None, index=None, regs=None, post=False, lane=False):
        self.kind, self.text, self.reg, self.base, self.index, self.regs, self.post, self.lane = kind, text, reg, base, index, regs, post, lane


def parse_op(arch, s):
    s = s.strip()
    if arch == "amd64":
        if s.startswith("$"):
            if "(SB)" in s:
                return Op("constaddr", s)
            return Op("imm", s)
        if re.match(r"^\d+$", s):
            return Op("target", s)
        m = VEC.match(s)
        if m:
            return Op("reg", s, reg="V" + m.group(1))
        m = KREG.match(s)
        if m:
            return Op("reg", s, reg="K" + m.group(1))
        if s in GP_AMD:
            return Op("reg", s, reg=s)
        if s in SUBREG:
            return Op("reg", s, reg=SUBREG[s])
        if s.endswith("(FP)"):
            return Op("fpmem", s)
        if s.endswith("(SB)"):
            return Op("sbmem", s)
        m = AMD_MEM.match(s)
        if m:
            base = m.group("base")
            if base in ("SP",) and "+" not in (m.group("disp") or ""):
                return Op("mem", s, base="SP", index=m.group("index"))
            return Op("mem", s, base=base, index=m.group("index"))
        return Op("unknown", s)
    # arm64
    if s.startswith("$"):
        if "(SB)" in s:
            return Op("constaddr", s)
        return Op("imm", s)
    if re.match(r"^\d+$", s):
        return Op("target", s)
    if s.startswith("["):
        regs = []
        for part in s.strip("[]").split(","):
            m = ARM_VEC.match(part.strip())
            if m:
                regs.append("V" + m.group(1))
        return Op("reglist", s, regs=regs)
    m = ARM_VEC.match(s)
    if m:
        return Op("reg", s, reg="V" + m.group(1), lane="[" in s)
    if ARM_REG.match(s):
        return Op("reg", s, reg=s)
    if s.endswith("(FP)"):
        return Op("fpmem", s)
    if s.endswith("(SB)"):
        return Op("sbmem", s)
    m = re.match(r"^(?P<disp>[^()]*)\((?P<base>R\d+|RSP)\)(?:\((?P<index>R\d+)\))?$", s)
    if m:
        return Op("mem", s, base=m.group("base"), index=m.group("index"))
    m = re.match(r"^(R\d+)<<\d+$", s)
    if m:
        return Op("reg", s, reg=m.group(1))
    return Op("unknown", s)


AMD_JCC = {"JEQ", "JNE", "JLT", "JLE", "JGT", "JGE", "JHI", "JLS", "JCS", "JCC", "JMI", "JPL", "JOS", "JOC", "JPS", "JPC", "JE", "JL", "JG", "JZ", "JNZ",
           "JA", "JAE", "JB", "JBE", "JC", "JNC", "JS", "JNS", "JCXZQ", "JCXZL"}
AMD_CMP = {"CMPQ", "CMPL", "CMPW", "CMPB", "TESTQ", "TESTL", "TESTW", "TESTB", "BTQ", "BTL",
           # vector / mask instructions whose only result is the flags register
           "KORTESTB", "KORTESTW", "KORTESTD", "KORTESTQ", "KTESTB", "KTESTW", "KTESTD", "KTESTQ", "VPTEST", "PTEST", "VTESTPS", "VTESTPD",
           "COMISS", "COMISD", "UCOMISS", "UCOMISD", "VCOMISS", "VCOMISD", "VUCOMISS", "VUCOMISD", "PCMPESTRI", "PCMPISTRI", "VPCMPESTRI", "VPCMPISTRI"}
AMD_MOVKILL = {"MOVQ", "MOVL", "MOVD", "LEAQ", "LEAL", "MOVLQZX", "MOVBQZX", "MOVWQZX", "MOVBLZX", "MOVWLZX", "MOVLQSX", "MOVBQSX", "MOVWQSX",
               "MOVOU", "MOVOA", "MOVUPS", "MOVUPD", "MOVAPS", "MOVAPD", "MOVDQU", "MOVDQA", "POPQ"}
AMD_MOVMERGE = {"MOVB", "MOVW"}
AMD_RMW_FLAGS = {"ADDQ", "ADDL", "ADDW", "ADDB", "SUBQ", "SUBL", "SUBW", "SUBB", "ANDQ", "ANDL", "ANDW", "ANDB", "ORQ", "ORL", "ORW", "ORB",
                 "XORQ", "XORL", "XORW", "XORB", "SHLQ", "SHLL", "SHRQ", "SHRL", "SARQ", "SARL", "ROLQ", "ROLL", "RORQ", "RORL", "ADCQ", "SBBQ",
                 "INCQ", "INCL", "DECQ", "DECL", "NEGQ", "NEGL", "IMULQ", "IMULL", "IMUL3Q"}
AMD_DIV = {"DIVQ", "DIVL", "IDIVQ", "IDIVL", "DIVW", "IDIVW", "DIVB", "IDIVB"}
ARM_BCOND = {"BEQ", "BNE", "BLT", "BLE", "BGT", "BGE", "BHI", "BLS", "BLO", "BHS", "BCC", "BCS", "BMI", "BPL", "BVS", "BVC"}
ARM_CBZ = {"CBZ", "CBNZ", "CBZW", "CBNZW", "TBZ", "TBNZ"}
ARM_CMP = {"CMP", "CMPW", "CMN", "CMNW", "TST", "TSTW"}
ARM_MERGE = {"VSRI", "VSLI", "VBIT", "VBIF", "VBSL", "VTBX", "VMLA", "VMLS"}


class Violation(Exception):
    pass


def step(arch, fn, ins, st, report):
    """returns list of (next_pc or None for fall-through marker 'ft', new_state)"""
    st = dict(st)
    ops = [parse_op(arch, o) for o in ins.ops]
    for o in ops:
        if o.kind == "unknown":
            report(fn, ins, "unknown-operand", "operand %r not understood by the model" % o.text, soft=True)
    mn = ins.mnem
    base_mn = mn.split(".")[0]

    def rd(o):
        """taint of reading operand o (value)"""
        if o.kind == "imm":
            return P
        if o.kind == "constaddr":
            return C
        if o.kind == "reg":
            return st.get(o.reg, P)
        if o.kind == "reglist":
            v = P
            for r in o.regs:
                v = join(v, st.get(r, P))
            return P if v == C else v
        if o.kind == "fpmem":
            return P
        if o.kind == "sbmem":
            return P
        if o.kind == "mem":
            check_addr(o)
            b = st.get(o.base, P)
            if o.base in ("SP", "RSP"):
                return T  # spill slots may hold anything
            if b == C:
                return P
            return T
        return P

    def check_addr(o):
        if o.kind != "mem":
            return
        for r in (o.base, o.index):
            if r and st.get(r, P) == T:
                report(fn, ins, "address", "memory operand %s uses register %s, which holds data-dependent bits" % (o.text, r))

    def wr(o, v, merge=False):
        if o.kind == "sbmem" or (o.kind == "mem" and st.get(o.base, P) == C):
            report(fn, ins, "static-write", "store into package-level assembly data (%s): state shared by every caller without synchronisation" % o.text)
        if o.kind == "reg":
            if v == C and merge:
                v = P
            old = st.get(o.reg, P)
            st[o.reg] = join(old, v) if merge else v
        elif o.kind == "reglist":
            for r in o.regs:
                st[r] = join(st.get(r, P), v) if merge else (P if v == C else v)
        elif o.kind == "mem":
            check_addr(o)
        # fpmem/sbmem stores: nothing tracked

    succ_ft = [("ft", st)]
    if arch == "amd64":
        if mn in ("NOP", "NOPL", "NOPW", "RET", "PCALIGN", "VZEROUPPER", "VZEROALL"):
            if mn == "RET":
                return []
            return succ_ft
        if mn == "JMP":
            return [(int(ops[0].text), st)]
        if mn in AMD_JCC:
            if st.get("FLAGS", P) == T:
                report(fn, ins, "branch", "conditional branch on data-dependent flags")
            return [(int(ops[0].text), st), ("ft", st)]
        if mn.startswith("CMOV") or mn.startswith("SET"):
            if st.get("FLAGS", P) == T:
                report(fn, ins, "branch", "%s on data-dependent flags" % mn)
        if mn in AMD_CMP:
            v = P
            for o in ops:
                x = rd(o)
                v = join(v, P if x == C else x)
            st["FLAGS"] = v
            return succ_ft
        if mn in AMD_DIV:
            for o in ops:
                if rd(o) == T:
                    report(fn, ins, "division", "division on data-dependent operand")
            for r in ("AX", "DX"):
                if st.get(r, P) == T:
                    report(fn, ins, "division", "division on data-dependent operand")
            return succ_ft
        if "GATHER" in mn or "SCATTER" in mn:
            report(fn, ins, "gather", "gather/scatter instruction (memory lookup by vector index)")
        if mn in ("PUSHQ", "PUSHL", "POPFQ", "PUSHFQ", "CALL"):
            for o in ops:
                rd(o)
            return succ_ft
        if not ops:
            return succ_ft
        dst = ops[-1]
        srcs = ops[:-1]
        if mn in AMD_MOVKILL or mn in AMD_MOVMERGE:
            v = rd(srcs[0]) if srcs else P
            if dst.kind == "reg" and dst.reg.startswith("V") and srcs and srcs[0].kind == "reg" and not srcs[0].reg.startswith("V") and v == C:
                v = P
            wr(dst, v, merge=(mn in AMD_MOVMERGE and dst.kind == "reg"))
            return succ_ft
        if mn in AMD_RMW_FLAGS:
            if mn.startswith("XOR") and len(ops) == 2 and ops[0].kind == "reg" and dst.kind == "reg" and ops[0].reg == dst.reg:
                st[dst.reg] = P
                st["FLAGS"] = P
                return succ_ft
            v = P
            keepC = False
            for o in srcs:
                x = rd(o)
                v = join(v, P if x == C else x)
            old = rd(dst)
            if old == C and v != T and mn[:3] in ("ADD", "SUB"):
                keepC = True
            res = join(P if old == C else old, v)
            if keepC:
                res = C
            st["FLAGS"] = P if res == C else res
            if mn == "IMUL3Q":
                wr(dst, res)
            else:
                wr(dst, res)
            return succ_ft
        if mn.startswith("V") or mn.startswith("K"):
            # VEX/EVEX/mask instructions: last operand is the destination
            if len(srcs) >= 2 and all(o.kind == "reg" for o in srcs[-2:]) and srcs[-1].reg == srcs[-2].reg and base_mn in ("VPXORD", "VPXORQ", "VPXOR", "VXORPS", "VXORPD", "VPSUBD", "VPSUBQ") and not any(o.kind == "reg" and o.reg.startswith("K") for o in srcs):
                wr(dst, P)
                return succ_ft
            v = P
            masked = False
            for o in srcs:
                x = rd(o)
                v = join(v, P if x == C else x)
                if o.kind == "reg" and o.reg.startswith("K"):
                    masked = True
            wr(dst, v, merge=masked and dst.kind == "reg")
            return succ_ft
        # legacy SSE / anything else: two-operand read-modify-write, no flags tracked
        v = P
        for o in srcs:
            x = rd(o)
            v = join(v, P if x == C else x)
        if dst.kind == "reg":
            v = join(v, P if st.get(dst.reg, P) == C else st.get(dst.reg, P))
        wr(dst, v)
        return succ_ft
    # ---------------------------------------------------------------- arm64
    if mn in ("RET", "NOP", "NOOP", "HINT", "PCALIGN"):
        if mn == "RET":
            return []
        return succ_ft
    if mn in ("B", "JMP"):
        return [(int(ops[0].text), st)]
    if mn in ARM_BCOND:
        if st.get("FLAGS", P) == T:
            report(fn, ins, "branch", "conditional branch on data-dependent flags")
        return [(int(ops[0].text), st), ("ft", st)]
    if mn in ARM_CBZ:
        if rd(ops[0]) == T:
            report(fn, ins, "branch", "%s on a data-dependent register" % mn)
        return [(int(ops[-1].text), st), ("ft", st)]
    if mn in ARM_CMP:
        v = P
        for o in ops:
            x = rd(o)
            v = join(v, P if x == C else x)
        st["FLAGS"] = v
        return succ_ft
    if mn.startswith("CSEL") or mn.startswith("CSET") or mn.startswith("CSINC") or mn.startswith("CNEG"):
        if st.get("FLAGS", P) == T:
            report(fn, ins, "branch", "%s on data-dependent flags" % mn)
    if mn in ("UDIV", "SDIV", "UDIVW", "SDIVW"):
        for o in ops[:-1]:
            if rd(o) == T:
                report(fn, ins, "division", "division on data-dependent operand")
    if mn == "WORD":
        w = int(ops[0].text.lstrip("$"), 0) & 0xffffffff
        if (w & 0xBFE08C00) == 0x0E000000:  # TBL/TBX: 0 Q 001110 000 Rm 0 len op 00 Rn Rd
            rm, ln, op, rn, rdd = (w >> 16) & 31, (w >> 13) & 3, (w >> 12) & 1, (w >> 5) & 31, w & 31
            v = st.get("V%d" % rm, P)
            for k in range(ln + 1):
                v = join(v, st.get("V%d" % ((rn + k) % 32), P))
            if op == 1:
                v = join(v, st.get("V%d" % rdd, P))
            st["V%d" % rdd] = P if v == C else v
            return succ_ft
        report(fn, ins, "unknown-encoding", "raw WORD %#x is not a register-only table lookup; cannot be modelled" % w, soft=True)
        return succ_ft
    if not ops:
        return succ_ft
    dst = ops[-1]
    srcs = ops[:-1]
    if base_mn in ("VST1", "VST2", "VST3", "VST4", "MOVD", "MOVW", "MOVWU", "MOVB", "MOVBU", "MOVH", "MOVHU", "FMOVD", "FMOVS", "FMOVQ", "STP", "LDP", "VLD1", "VLD2", "VLD3", "VLD4", "VLD1R"):
        pass
    # post-indexed forms update the base register with a public increment: class unchanged
    v = P
    for o in srcs:
        x = rd(o)
        v = join(v, P if (x == C and not (base_mn == "MOVD" and o.kind == "constaddr")) else x)
    if base_mn == "MOVD" and len(srcs) == 1 and srcs[0].kind == "constaddr":
        wr(dst, C)
        return succ_ft
    if base_mn in ("ADD", "SUB") and len(srcs) >= 2 and srcs[-1].kind == "reg" and st.get(srcs[-1].reg, P) == C and rd(srcs[0]) != T:
        wr(dst, C)
        return succ_ft
    if base_mn in ("ADD", "SUB") and len(srcs) == 1 and dst.kind == "reg" and st.get(dst.reg, P) == C and v != T:
        return succ_ft
    if base_mn in ("ADDS", "SUBS", "ANDS", "NEGS"):
        st["FLAGS"] = v
    merge = base_mn in ARM_MERGE or (dst.kind == "reg" and dst.lane) or (dst.kind == "reglist" and "[" in dst.text and "]" in dst.text and re.search(r"\]\[\d+\]$", dst.text) is not None)
    if dst.kind == "mem":
        check_addr(dst)
        return succ_ft
    wr(dst, v, merge=merge)
    return succ_ft


def explore(arch, fn, instrs, report):
    """worklist over (pc, state); returns (states, transitions)"""
    if not instrs:
        return 0, 0
    idx = {ins.pc: i for i, ins in enumerate(instrs)}
    init = {}
    start = (0, tuple())
    seen = set()
    work = [(0, init)]
    states = transitions = 0
    while work:
        i, st = work.pop()
        key = (i, tuple(sorted((k, v) for k, v in st.items() if v != P)))
        if key in seen:
            continue
        seen.add(key)
        states += 1
        ins = instrs[i]
        for nxt, nst in step(arch, fn, ins, st, report):
            transitions += 1
            if nxt == "ft":
                j = i + 1
                if j >= len(instrs):
                    continue
            else:
                if nxt not in idx:
                    report(fn, ins, "cfg", "jump target %s is not an instruction boundary of this function" % nxt, soft=True)
                    continue
                j = idx[nxt]
            work.append((j, nst))
    return states, transitions


def analyse(repo):
    t0 = time.time()
    res = {"property": os.environ.get("VX_ASMTAINT_PROP", "C09"), "part": os.environ.get("VX_ASMTAINT_PART", "asm-taint"), "tier": os.environ.get("VX_TIER", "quick"), "seed": int(os.environ.get("VX_SEED", "0") or 0),
           "shard": "0/1", "evaluations": 0, "distinct_nontrivial": 0, "states": 0, "transitions": 0, "traces_validated_against_impl": 0,
           "samples": [], "violations": [], "n_violations": 0, "exhaustive": True, "not_exhaustive_reason": [], "extra": {},
           "rule": "abstract taint machine over `go tool asm -S` listings of every .s file (amd64 + arm64): all reachable (pc, taint-vector) states by worklist; violation = conditional branch/CMOV/SET on tainted flags, tainted base/index register in a memory operand, gather or division on tainted data; one tainted branch site allowed in openAsm (tag verdict)",
           "completed": False}
    vio = {}
    soft = []
    per_fn = {}
    d = os.path.join(repo, "sm4")
    files = sorted(f for f in os.listdir(d) if f.endswith(".s"))
    for arch in ("amd64", "arm64"):
        for f in files:
            if not f.endswith("_%s.s" % arch):
                continue
            txt = open(os.path.join(d, f), errors="replace").read()
            for m in re.finditer(r"^\s*GLOBL\s+([A-Za-z0-9_]+)<>\(SB\)\s*,\s*([^,$]*)", txt, re.M):
                flags = m.group(2)
                if "RODATA" not in flags and (not ONLY or "static-write" in ONLY):
                    key = "asm:%s:%s:writable-static-data:%s" % (arch, f, m.group(1))
                    vio.setdefault(key, {"key": key, "what": "%s declares package-level assembly data %s without RODATA (flags %r): writable state shared by all callers" % (f, m.group(1), flags.strip()), "case": {"file": f, "symbol": m.group(1)}, "count": 1})
            if "TEXT" not in txt:
                continue  # include-only file (macros and data)
            try:
                funcs = listing(repo, arch, f)
            except RuntimeError as e:
                res["exhaustive"] = False
                res["not_exhaustive_reason"].append(str(e)[:300])
                continue
            for fn, instrs in funcs.items():
                found = []

                def report(fn_, ins, kind, why, soft=False, found=found):
                    found.append((kind, ins, why, soft))
                states, trans = explore(arch, fn, instrs, report)
                res["states"] += states
                res["transitions"] += trans
                res["evaluations"] += len(instrs)
                res["distinct_nontrivial"] += 1
                per_fn["%s:%s" % (arch, fn)] = {"file": f, "instructions": len(instrs), "states": states, "transitions": trans,
                                                 "cond_branches": sum(1 for i in instrs if i.mnem in AMD_JCC or i.mnem in ARM_BCOND or i.mnem in ARM_CBZ)}
                # dedupe by site
                sites = {}
                for kind, ins, why, sft in found:
                    sites.setdefault((kind, ins.pc), (kind, ins, why, sft))
                tainted_branches = [v for v in sites.values() if v[0] == "branch"]
                allowed = 1 if "open" in fn.split(".")[-1].lower() else 0  # the tag verdict of the opening routine, whatever it is called
                per_fn["%s:%s" % (arch, fn)]["tainted_branch_sites"] = len(tainted_branches)
                if len(tainted_branches) <= allowed:
                    tainted_branches = []
                for kind, ins, why, sft in list(sites.values()):
                    if kind == "branch" and not tainted_branches:
                        continue
                    if ONLY and kind not in ONLY and not sft:
                        continue
                    if SKIP and kind in SKIP:
                        continue
                    if sft:
                        soft.append("%s %s %s: %s" % (arch, fn, ins.where, why))
                        continue
                    key = "asm:%s:%s:%s:%s" % (arch, fn.split(".")[-1], kind, ins.mnem)
                    res["n_violations"] += 1
                    if key in vio:
                        vio[key]["count"] += 1
                        continue
                    extra = ""
                    if kind == "branch" and allowed:
                        extra = " (%d data-dependent branch sites; only the final tag verdict is permitted)" % len(tainted_branches)
                    vio[key] = {"key": key, "what": "%s %s at %s `%s`: %s%s" % (arch, fn, ins.where, ins.raw.split("\t", 2)[-1], why, extra),
                                "case": {"arch": arch, "function": fn, "pc": ins.pc, "where": ins.where, "kind": kind}, "count": 1}
                if len(res["samples"]) < 12:
                    res["samples"].append({"arch": arch, "function": fn, "instructions": len(instrs), "states": states, "transitions": trans})
    if soft:
        res["exhaustive"] = False
        res["not_exhaustive_reason"] += soft[:10]
    res["violations"] = list(vio.values())
    res["extra"]["functions"] = per_fn
    res["wall_s"] = time.time() - t0
    res["completed"] = True
    return res


if __name__ == "__main__":
    repo = os.environ.get("VX_REPO_COPY") or sys.argv[1]
    out = os.environ.get("VX_OUT")
    r = analyse(repo)
    if out:
        json.dump(r, open(out, "w"))
    else:
        print(json.dumps({k: v for k, v in r.items() if k != "extra"}, indent=1)[:6000])
        for k, v in r["extra"]["functions"].items():
            print(k, v)

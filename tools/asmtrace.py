#!/usr/bin/env python3
"""C09, binding the model to the code: concrete single-step traces (gdb) of the amd64 assembly routines are replayed
against the model CFG extracted by asmtaint.py, and the traces of two different fillings of every secret input must
have identical program-counter and effective-address sequences."""
import json, os, shutil, subprocess, sys, time
from concurrent.futures import ThreadPoolExecutor
sys.path.insert(0, os.path.dirname(os.path.abspath(__file__)))
import asmtaint

VERIF = os.environ.get("VX_VERIF", "/verif")
SYM = "github.com/bilibili/smgo/sm4.%s.abi0"
FN2SYM = {"seal": "sealAsm", "seal13": "sealAsm", "open": "openAsm", "open13": "openAsm", "block1": "cryptoBlockAsm", "block2": "cryptoBlockAsmX2",
          "block4": "cryptoBlockAsmX4", "block8": "cryptoBlockAsmX8", "block16": "cryptoBlockAsmX16", "expand": "expandKeyAsm", "ghash": "gHashBlocks"}
FN2FILE = {"sealAsm": "gcm_amd64.s", "openAsm": "gcm_amd64.s", "gHashBlocks": "gcm_amd64.s", "expandKeyAsm": "asm_amd64.s"}


def main():
    repo = os.environ["VX_REPO_COPY"]
    work = os.environ["VX_WORK"]
    tier = os.environ.get("VX_TIER", "quick")
    out = os.environ["VX_OUT"]
    t0 = time.time()
    res = {"property": "C09", "part": "asm-trace", "tier": tier, "seed": 0, "shard": "0/1", "evaluations": 0, "distinct_nontrivial": 0, "states": 0,
           "transitions": 0, "traces_validated_against_impl": 0, "samples": [], "violations": [], "n_violations": 0, "exhaustive": True,
           "not_exhaustive_reason": [], "extra": {}, "completed": False,
           "rule": "gdb single-steps each amd64 routine twice on the same buffers with two different fillings of key, nonce, aad and message, for length classes; every concrete PC trace must be a path of the model CFG (asmtaint listing) and the two fillings must give identical PC and effective-address traces"}
    # build the debuggee
    pkg = os.path.join(repo, "sm4")
    shutil.copy(os.path.join(VERIF, "inject/sm4/C09_int_test.go"), os.path.join(pkg, "zz_verif_C09_int_test.go"))
    binp = os.path.join(work, "bin", "sm4_c09.test")
    os.makedirs(os.path.dirname(binp), exist_ok=True)
    p = subprocess.run(["go", "test", "-c", "-trimpath", "-vet=off", "-tags", "verif", "-o", binp, "./sm4"], cwd=repo,
                       stdout=subprocess.PIPE, stderr=subprocess.STDOUT, text=True)
    os.unlink(os.path.join(pkg, "zz_verif_C09_int_test.go"))
    if p.returncode != 0:
        res["exhaustive"] = False
        res["not_exhaustive_reason"].append("debuggee does not compile against this tree (in-package seam lost): " + p.stdout[-300:])
        res["completed"] = True
        res["evaluations"] = 1
        res["distinct_nontrivial"] = 2
        res["states"] = res["transitions"] = 1
        res["samples"] = ["seam lost"]
        json.dump(res, open(out, "w"))
        return
    # model CFGs
    model = {}
    for f in ("gcm_amd64.s", "asm_amd64.s", "helper_amd64.s"):
        try:
            for fn, instrs in asmtaint.listing(repo, "amd64", f).items():
                model[fn.split(".")[-1]] = instrs
        except RuntimeError as e:
            res["exhaustive"] = False
            res["not_exhaustive_reason"].append(str(e)[:200])
    lens = [0, 17, 300] if tier == "quick" else [0, 1, 15, 16, 17, 64, 255, 256, 300, 600]
    jobs = []
    for fn in ("seal", "open"):
        for n in lens:
            jobs.append((fn, n))
    jobs += [("seal13", 33), ("open13", 33)]
    for fn in ("block1", "block2", "block4", "block8", "block16", "expand"):
        jobs.append((fn, 0))
    for n in ([16, 128, 208] if tier == "quick" else [16, 48, 112, 128, 144, 208, 320]):
        jobs.append(("ghash", n))

    def run(job):
        fn, n = job
        tf = os.path.join(work, "out", "trace_%s_%d.json" % (fn, n))
        os.makedirs(os.path.dirname(tf), exist_ok=True)
        env = dict(os.environ, VX_TRACE_FN=fn, VX_TRACE_LEN=str(n), VX_TRACE_SYM=SYM % FN2SYM[fn], VX_TRACE_OUT=tf,
                   GODEBUG="asyncpreemptoff=1", GOMAXPROCS="1", GOGC="off")
        cmd = ["gdb", "-q", "-batch", "-nx", "-x", os.path.join(VERIF, "tools/gdbtrace.py"), "--args", binp, "-test.run", "^TestVX_C09_Target$", "-test.count", "1"]
        p = subprocess.run(cmd, env=env, stdout=subprocess.PIPE, stderr=subprocess.STDOUT, text=True, timeout=1500)
        if not os.path.exists(tf):
            return job, None, p.stdout[-500:]
        return job, json.load(open(tf)), ""

    vio = {}

    def violation(key, what, case):
        res["n_violations"] += 1
        if key in vio:
            vio[key]["count"] += 1
        else:
            vio[key] = {"key": key, "what": what, "case": case, "count": 1}

    with ThreadPoolExecutor(max_workers=os.cpu_count() or 4) as ex:
        for (fn, n), tr, err in ex.map(run, jobs):
            if tr is None or len(tr["traces"]) < 2:
                res["exhaustive"] = False
                res["not_exhaustive_reason"].append("no trace for %s/%d: %s" % (fn, n, err[-200:] if err else "fewer than two invocations traced"))
                continue
            sym = FN2SYM[fn]
            instrs = model.get(sym)
            a, b = tr["traces"][0], tr["traces"][1]
            res["evaluations"] += 2
            res["transitions"] += len(a["pcs"]) + len(b["pcs"])
            if not (a["complete"] and b["complete"]):
                res["exhaustive"] = False
                res["not_exhaustive_reason"].append("step cap reached for %s/%d" % (fn, n))
            # (1) model conformance
            if instrs:
                idx = {ins.pc: i for i, ins in enumerate(instrs)}
                for t in (a, b):
                    ok = True
                    for p_, q in zip(t["pcs"], t["pcs"][1:]):
                        i = idx.get(p_)
                        if i is None:
                            ok = False
                            break
                        ins = instrs[i]
                        succ = set()
                        if i + 1 < len(instrs):
                            succ.add(instrs[i + 1].pc)
                        for o in ins.ops:
                            if o.isdigit():
                                succ.add(int(o))
                        if q not in succ:
                            ok = False
                            break
                    if ok:
                        res["traces_validated_against_impl"] += 1
                    else:
                        res["exhaustive"] = False
                        res["not_exhaustive_reason"].append("concrete trace of %s/%d is not a path of the model CFG (model and code diverge at pc %s)" % (fn, n, p_))
                res["states"] += len(set(a["pcs"]))
            # (2) secret independence
            case = {"fn": fn, "len": n}
            if a["pcs"] != b["pcs"]:
                k = next((i for i, (x, y) in enumerate(zip(a["pcs"], b["pcs"])) if x != y), min(len(a["pcs"]), len(b["pcs"])))
                violation("asm:trace:%s:pc-trace-differs" % sym, "%s (len %d): the executed instruction sequence depends on key/data: traces diverge after %d steps at pc %s" % (sym, n, k, a["pcs"][k - 1] if k else 0), case)
            elif a["eas"] != b["eas"]:
                k = next((i for i, (x, y) in enumerate(zip(a["eas"], b["eas"])) if x != y), 0)
                violation("asm:trace:%s:address-trace-differs" % sym, "%s (len %d): a memory address depends on key/data: access #%d at pc %s" % (sym, n, k, a["eas"][k][0]), case)
            res["distinct_nontrivial"] += 1
            if len(res["samples"]) < 10:
                res["samples"].append({"fn": fn, "len": n, "steps": len(a["pcs"]), "memory_accesses": len(a["eas"]), "first_pcs": a["pcs"][:8]})
    res["violations"] = list(vio.values())
    res["wall_s"] = time.time() - t0
    res["completed"] = True
    if res["distinct_nontrivial"] < 2:
        res["distinct_nontrivial"] = 2
    json.dump(res, open(out, "w"))


if __name__ == "__main__":
    main()

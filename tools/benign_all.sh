#!/bin/bash
# usage: tools/benign_all.sh [ID ...]  -- runs the quick tier of the named checks (default: all) against every
# property-preserving change kept in /verif/benign; any line it prints other than the summary is a false alarm.
cd "$(dirname "$0")/.."
ids="${@:-C01 C02 C03 C04 C05 C06 C07 C08 C09 C10 C11 C12 C13 C14 C15 C16 C17 C18 C19 C20}"
bad=0; n=0
for pd in benign/${BENIGN_GLOB:-*}/; do
  name=$(basename $pd)
  d=$(mktemp -d /tmp/ben.XXXXXX)
  rsync -a --exclude .git /repo/ "$d/repo/"
  ( cd "$d/repo" && patch -p1 -s < "/verif/$pd/patch.diff" ) || { echo "$name: patch does not apply (tree moved on)"; rm -rf "$d"; continue; }
  # checks that cannot be affected by the files the patch touches are skipped (BENIGN_ALL_CHECKS=1 runs everything):
  # sm4 -> C05-C07, C09-C11, C17, C18; sm3 -> C01, C04, C10, C13, C17-C19; sm2 and utils -> all but the sm3/sm4-only checks
  touched=$(grep '^+++ ' "/verif/$pd/patch.diff" | sed 's|^+++ b/||' | cut -d/ -f1 | sort -u | tr '\n' ' ')
  rel=""
  for t in $touched; do
    case $t in
      sm4) rel="$rel C05 C06 C07 C09 C10 C11 C17 C18";;
      sm3) rel="$rel C01 C04 C10 C13 C17 C18 C19";;
      sm2|utils) rel="$rel C01 C02 C03 C08 C10 C12 C13 C14 C15 C16 C17 C18 C19 C20";;
      *) rel="$rel $ids";;
    esac
  done
  for c in $ids; do
    if [ -z "$BENIGN_ALL_CHECKS" ] && ! echo " $rel " | grep -q " $c "; then continue; fi
    VX_REPO="$d/repo" VX_NO_EVIDENCE=1 VX_REPLAY_DIR="$d/replays" ./run $c quick > $d/o.txt 2>&1; rc=$?
    n=$((n+1))
    if [ $rc -ne 0 ]; then
      bad=$((bad+1)); echo "ALARM $name $c rc=$rc"; grep "key=" $d/o.txt | head -5 | cut -c1-260
    fi
  done
  rm -rf "$d"
  echo "done $name (runs so far $n, alarms so far $bad)"
done
echo "benign corpus: $n check runs, $bad alarms"
[ $bad -eq 0 ]

#!/bin/bash
# usage: tools/benign_eval.sh <patch.diff> <name>  -- every check must stay silent (exit 0) on a property-preserving change
patch=$(readlink -f "$1"); name=$2
d=$(mktemp -d /tmp/ben.XXXXXX)
trap 'rm -rf "$d"' EXIT
rsync -a --exclude .git /repo/ "$d/repo/"
( cd "$d/repo" && patch -p1 -s < "$patch" ) || { echo "$name: patch failed"; exit 3; }
( cd "$d/repo" && GOFLAGS=-mod=mod GOPROXY=off GOSUMDB=off GOTOOLCHAIN=local go build ./... ) || { echo "$name: does not build"; exit 3; }
out=/tmp/benign_$name.log; : > $out
for c in C01 C02 C03 C04 C05 C06 C07 C08 C09 C10 C11 C12 C13 C14 C15 C16 C17 C18 C19 C20; do
  VX_REPO="$d/repo" VX_NO_EVIDENCE=1 VX_REPLAY_DIR="$d/replays" /verif/run $c quick > $d/o.txt 2>&1; rc=$?
  tail -1 $d/o.txt | sed "s/^/[$name rc=$rc] /" >> $out
  if [ $rc -ne 0 ]; then grep -v "^KNOWN" $d/o.txt | head -12 | sed "s/^/    /" >> $out; fi
done
grep -c "rc=0" $out | sed "s/^/$name: checks silent: /"; grep "rc=[12]" $out | cut -c1-200

#!/usr/bin/env python3
"""C18 part 'derivation-programs': the repository's own published derivation must reproduce the shipped data.
Runs sm2/internal/make_table.go (build tag tablegen, its helpers in sm2_export.go) inside the scratch copy of the
current tree and compares every numeric literal of the file it writes with the shipped sm2/internal/sm2_tables.go
(formatting is ignored: the sequences of numeric literals must be equal). A generator that no longer builds or runs
is a lost seam (exhaustive:false), never an alarm."""
import json, os, re, subprocess, sys, time, shutil

def main():
    repo = os.environ["VX_REPO_COPY"]
    tier = os.environ.get("VX_TIER", "quick")
    out = os.environ["VX_OUT"]
    t0 = time.time()
    res = {"property": "C18", "part": "derivation-programs", "tier": tier, "seed": 0, "shard": "0/1", "evaluations": 0, "distinct_nontrivial": 0,
           "samples": [], "violations": [], "n_violations": 0, "exhaustive": True, "not_exhaustive_reason": [], "extra": {}, "completed": False,
           "rule": "go run -tags tablegen sm2/internal/make_table.go in a scratch copy of the tree; the sequence of numeric literals of the file it writes (4 comb schemes + remainder tables) must equal that of the shipped sm2/internal/sm2_tables.go, literal by literal; finite space enumerated completely"}
    vio = {}
    def violation(key, what, case):
        if key in vio:
            vio[key]["count"] += 1
        else:
            vio[key] = {"key": key, "what": what, "count": 1, "case": case}
        res["n_violations"] += 1
    shipped_path = os.path.join(repo, "sm2", "internal", "sm2_tables.go")
    gen = os.path.join(repo, "sm2", "internal", "make_table.go")
    def lost(why):
        res["exhaustive"] = False
        res["not_exhaustive_reason"].append(why)
        res["evaluations"] = 1
        res["distinct_nontrivial"] = 2
        res["samples"] = ["seam lost"]
    if not (os.path.exists(shipped_path) and os.path.exists(gen)):
        lost("make_table.go or sm2_tables.go is not where it used to be (seam lost)")
    else:
        shipped = open(shipped_path).read()
        keep = shipped_path + ".shipped"
        shutil.copy(shipped_path, keep)
        env = dict(os.environ, GOFLAGS="-mod=mod", GOPROXY="off", GOSUMDB="off", GOTOOLCHAIN="local")
        p = subprocess.run(["go", "run", "-tags", "tablegen", "sm2/internal/make_table.go"], cwd=repo, env=env,
                           stdout=subprocess.PIPE, stderr=subprocess.STDOUT, text=True, timeout=1500)
        if p.returncode != 0:
            lost("the generator does not build / run against this tree: " + p.stdout[-300:])
        else:
            produced = open(shipped_path).read()
            # numeric literals of the code part (after the package clause), decimal or hexadecimal
            lit = re.compile(r"\b(0x[0-9a-fA-F]+|\d{6,})\b")
            code = lambda t: re.sub(r"//[^\n]*", "", t[t.index("package internal"):] if "package internal" in t else t)
            a, b = [x.lower() for x in lit.findall(code(shipped))], [x.lower() for x in lit.findall(code(produced))]
            res["evaluations"] = max(len(a), len(b))
            res["distinct_nontrivial"] = len(set(a))
            res["extra"]["literals_shipped"] = len(a)
            res["extra"]["literals_generated"] = len(b)
            if len(a) != len(b):
                violation("const:derivation:make_table:literal-count", "the generator writes %d numeric literals, the shipped sm2_tables.go has %d" % (len(b), len(a)), {"shipped": len(a), "generated": len(b)})
            val = lambda x: int(x, 16) if x.startswith("0x") else int(x)
            diffs = [i for i, (x, y) in enumerate(zip(a, b)) if val(x) != val(y)]
            if diffs:
                i = diffs[0]
                violation("const:derivation:make_table:output-differs", "running the repository's own generator (make_table.go, tablegen helpers) does not reproduce the shipped tables: %d of %d literals differ, first at literal #%d (shipped %s, generated %s)" % (len(diffs), len(a), i, a[i], b[i]), {"first": i, "count": len(diffs)})
            res["samples"] = [{"literals": len(a), "differing": len(diffs), "generator_wall_s": round(time.time() - t0, 1)}]
        shutil.move(keep, shipped_path)
    res["violations"] = list(vio.values())
    res["wall_s"] = time.time() - t0
    res["completed"] = True
    json.dump(res, open(out, "w"))

if __name__ == "__main__":
    main()

"""Registry of property checks: which harness parts run for each property.

part keys:
  name          unique name inside the check
  pkg           package directory (relative to the repository root) the driver is injected into
  run           name of the Go test function that is the driver
  files         in-package driver sources (under /verif/inject), may reach into package internals
  public_files  public-API driver sources (external test package) - kept when an internal seam stops compiling
  shards        number of worker processes (int or {tier: int})
  variant       name of a separately prepared copy of the tree (instrumented builds)
  cmd           (instead of pkg/run) external tool command, {verif}/{repo}/{work} substituted
"""

CHECKS = {}

CHECKS["C20"] = {
    "level": "exploration",
    "assumptions": ["oracle for ConstantTimeCmp is bytes.Compare from the Go standard library",
                    "w-NAF conditions checked directly on the digits; digit sum by limb arithmetic cross-checked against math/big"],
    "parts": [
        {"name": "cmp", "pkg": "utils", "run": "TestVX_C20_Cmp", "public_files": ["utils/C20_pub_test.go"]},
        {"name": "naf", "pkg": "utils", "run": "TestVX_C20_NAF", "public_files": ["utils/C20_pub_test.go"],
         "shards": {"quick": 4, "thorough": 16}},
        {"name": "cmp-huge", "pkg": "utils", "run": "TestVX_C20_CmpHuge", "public_files": ["utils/C20_pub_test.go", "utils/C20huge_pub_test.go"], "shards": 5},
    ],
    "deadline": {"quick": 120, "thorough": 1500},
}

CHECKS["C04"] = {
    "level": "model_checking",
    "assumptions": ["sm3ref (validated against the GB/T 32905 appendix vectors at start) is the digest oracle",
                    "stream content is position-determined (constant / seeded / alternating across Resets), so a state is a function of the live object's memory; between L bytes and the 2^29-byte waypoints of the sm3-huge part no length is explored"],
    "parts": [
        {"name": "sm3-history", "pkg": "sm3", "run": "TestVX_C04", "public_files": ["sm3/C04_pub_test.go"],
         "shards": {"quick": 2, "thorough": 4}},
        {"name": "sm3-huge", "pkg": "sm3", "run": "TestVX_C04Huge", "public_files": ["sm3/C04huge_pub_test.go"],
         "shards": {"quick": 2, "thorough": 3}},
        {"name": "sm3-single-huge", "pkg": "sm3", "run": "TestVX_C04Single", "public_files": ["sm3/C04huge_pub_test.go"],
         "shards": {"quick": 10, "thorough": 10}},
        {"name": "cold-start", "pkg": "sm3", "run": "TestVX_C04Cold", "public_files": ["sm3/Cold_pub_test.go"], "shards": 2, "exclusive": True},
    ],
    "deadline": {"quick": 200, "thorough": 3000},
}

CHECKS["C16"] = {
    "level": "exploration",
    "assumptions": ["math/big is the integer oracle", "binary operations are enumerated over the stated limb alphabets, not over all 2^512 pairs",
                    "Invert(x)=x^(m-2) for all x follows from the chain exponent check plus Mul/Square correctness on the alphabet"],
    "prepare": {"": [["python3", "{verif}/tools/prep_addchain.py", "{repo}"]]},
    "parts": [
        {"name": "field", "pkg": "sm2/internal/fiat", "run": "TestVX_C16", "public_files": ["sm2/internal/fiat/C16_pub_test.go"],
         "shards": {"quick": 8, "thorough": 16}},
        {"name": "chain", "pkg": "sm2/internal/fiat", "run": "TestVX_C16_Chain", "public_files": ["sm2/internal/fiat/C16_pub_test.go"]},
        {"name": "multiselect", "pkg": "sm2/internal/fiat", "run": "TestVX_C16_MultiSelect", "public_files": ["sm2/internal/fiat/C16_pub_test.go"]},
    ],
    "deadline": {"quick": 120, "thorough": 1500},
}

SM2I = "sm2/internal/"
CHECKS["C14"] = {
    "level": "exploration",
    "assumptions": ["sm2ref (math/big, Jacobian validated against affine arithmetic and elliptic.CurveParams) is the oracle",
                    "scalars are enumerated over the stated window/nibble/digit alphabets, not all 2^256 values"],
    "parts": [
        {"name": "mul-public", "pkg": "sm2/internal", "run": "TestVX_C14",
         "public_files": [SM2I + "common_pub_test.go", SM2I + "C14_pub_test.go"], "shards": {"quick": 16, "thorough": 16}},
        {"name": "mul-schemes", "pkg": "sm2/internal", "run": "TestVX_C14_Schemes", "kind": "internal",
         "files": [SM2I + "common_int_test.go", SM2I + "C14_int_test.go"], "shards": {"quick": 16, "thorough": 16}},
    ],
    "deadline": {"quick": 150, "thorough": 1800},
}

CHECKS["C15"] = {
    "level": "exploration",
    "assumptions": ["affine group law in math/big is the oracle", "projective scalings l in {1,2,p-1,seeded}; point alphabet of 11 points"],
    "parts": [
        {"name": "point-arith", "pkg": "sm2/internal", "run": "TestVX_C15_Arith", "kind": "internal",
         "files": [SM2I + "common_int_test.go", SM2I + "C15_int_test.go"], "shards": 8},
        {"name": "point-encoding", "pkg": "sm2/internal", "run": "TestVX_C15_Encoding",
         "public_files": [SM2I + "common_pub_test.go", SM2I + "C14_pub_test.go", SM2I + "C15_pub_test.go"], "shards": 4},
        {"name": "point-arith-public", "pkg": "sm2/internal", "run": "TestVX_C15_PublicArith",
         "public_files": [SM2I + "common_pub_test.go", SM2I + "C14_pub_test.go", SM2I + "C15_pub_test.go"], "shards": 8},
        {"name": "cold-start", "pkg": "sm2/internal", "run": "TestVX_C15Cold", "public_files": [SM2I + "common_pub_test.go", SM2I + "Cold_pub_test.go"], "shards": 2, "exclusive": True},
    ],
    "deadline": {"quick": 150, "thorough": 1200},
}

CHECKS["C18"] = {
    "level": "exploration",
    "assumptions": ["derivations recomputed with the reference models (sm2ref, sm4ref algebraic S-box, sm3ref)",
                    "GF2P8AFFINEQB/GF2P8AFFINEINVQB semantics taken from the Intel SDM and emulated in Go",
                    "lane-merge index vectors are checked only on the positions their write masks consume"],
    "parts": [
        {"name": "derivation-programs", "cmd": ["python3", "{verif}/tools/c18_derivation.py"]},
        {"name": "sm2-tables", "pkg": "sm2/internal", "run": "TestVX_C18_SM2Tables", "kind": "internal",
         "files": [SM2I + "common_int_test.go", SM2I + "C18_int_test.go"], "shards": 8},
        {"name": "sm4-go-tables", "pkg": "sm4", "run": "TestVX_C18_SM4Go", "kind": "internal", "files": ["sm4/C18_int_test.go"]},
        {"name": "asm-data", "pkg": "sm4", "run": "TestVX_C18_Asm", "public_files": ["sm4/C18_pub_test.go"]},
        {"name": "sm3-tt", "pkg": "sm3", "run": "TestVX_C18_SM3", "kind": "internal", "files": ["sm3/C18_int_test.go"]},
    ],
}

SM2P = ["sm2/common_pub_test.go"]
CHECKS["C12"] = {
    "level": "exploration",
    "assumptions": ["sm2ref is the oracle for [d]G and the curve equation", "candidate streams with at most 3 rejected candidates"],
    "parts": [
        {"name": "keys", "pkg": "sm2", "run": "TestVX_C12", "public_files": SM2P + ["sm2/C12_pub_test.go"], "shards": 8},
        {"name": "cold-start", "pkg": "sm2", "run": "TestVX_SM2Cold", "public_files": SM2P + ["sm2/Cold_pub_test.go"], "shards": 6, "env": {"VX_PART": "cold-start"}},
    ],
}

CHECKS["C13"] = {
    "level": "exploration",
    "assumptions": ["sm3ref/sm2ref are the oracles", "id lengths 0..8200 and a few larger ones; message lengths 0..200 (300 thorough)"],
    "parts": [
        {"name": "za-wrappers", "pkg": "sm2", "run": "TestVX_C13", "public_files": SM2P + ["sm2/C13_pub_test.go"], "shards": 16},
    ],
}

CHECKS["C02"] = {
    "level": "exploration",
    "assumptions": ["sm2ref.Sign (textbook GM/T 0003.2 with the four rejection rules) is the oracle", "at most D rejected candidates per stream (D=2 quick, 3 thorough)"],
    "parts": [
        {"name": "sign-exact", "pkg": "sm2", "run": "TestVX_C02", "public_files": SM2P + ["sm2/C02_pub_test.go"], "shards": 16},
    ],
}

CHECKS["C01"] = {
    "level": "exploration",
    "assumptions": ["public keys derived with sm2ref; shapes of r, s, t are solved for rather than sampled", "leading-zero-byte alphabets, not all 2^256 values"],
    "parts": [
        {"name": "sign-verify", "pkg": "sm2", "run": "TestVX_C01", "public_files": SM2P + ["sm2/C01_pub_test.go"], "shards": 16},
        {"name": "crowd", "pkg": "sm2", "run": "TestVX_Crowd", "public_files": SM2P + ["sm2/Crowd_pub_test.go"], "gomaxprocs": 16, "exclusive": True,
         "env": {"VX_CROWD_PROP": "C01"}},
    ],
    "deadline": {"quick": 120, "thorough": 1500},
}

CHECKS["C03"] = {
    "level": "exploration",
    "assumptions": ["sm2ref.Verify (the seven conditions of GM/T 0003.2 7.1) is the oracle", "mutations are single-bit/length/range/solved classes of a small set of base signatures"],
    "parts": [
        {"name": "verify-exact", "pkg": "sm2", "run": "TestVX_C03", "public_files": SM2P + ["sm2/C01_pub_test.go", "sm2/C03_pub_test.go"], "shards": 16},
        {"name": "crowd", "pkg": "sm2", "run": "TestVX_Crowd", "public_files": SM2P + ["sm2/Crowd_pub_test.go"], "gomaxprocs": 16, "exclusive": True,
         "env": {"VX_CROWD_PROP": "C03"}},
    ],
    "deadline": {"quick": 200, "thorough": 2400},
}

CHECKS["C19"] = {
    "level": "fault_enumeration",
    "assumptions": ["io.ReadFull's contract (an error is dropped when the same call completed the buffer) is part of the reference semantics",
                    "failure positions: draw index 0..3, byte offsets {0,1,16,31,32}; <=2 non-failing deviations"],
    "parts": [
        {"name": "failing-rand", "pkg": "sm2", "run": "TestVX_C19", "public_files": SM2P + ["sm2/C19_pub_test.go"], "shards": 8},
    ],
}

SM4P = ["sm4/common_pub_test.go"]
CHECKS["C05"] = {
    "level": "exploration",
    "assumptions": ["sm4ref (algebraic S-box, explicit rotations) validated on the GB/T 32907 vectors is the oracle",
                    "keys/blocks from the stated alphabets, not all 2^256 pairs; arm64 kernels cannot be executed on this machine"],
    "parts": [
        {"name": "block-paths", "pkg": "sm4", "run": "TestVX_C05_Paths", "kind": "internal", "files": ["sm4/C05_int_test.go"], "shards": 16},
        {"name": "block-public", "pkg": "sm4", "run": "TestVX_C05_Public", "public_files": SM4P + ["sm4/C05_pub_test.go"], "shards": 4},
        {"name": "block-public-generic", "variant": "generic", "pkg": "sm4", "run": "TestVX_C05_Public", "public_files": SM4P + ["sm4/C05_pub_test.go"],
         "shards": 4, "env": {"VX_PART": "block-public-generic"}},
        {"name": "cold-start", "pkg": "sm4", "run": "TestVX_C05Cold", "public_files": SM4P + ["sm4/Cold_pub_test.go"], "shards": 2, "exclusive": True, "env": {"VX_PART": "cold-start"}},
        {"name": "fresh-shared", "pkg": "sm4", "run": "TestVX_FreshShared", "public_files": SM4P + ["sm4/Stack_pub_test.go", "sm4/Fresh_pub_test.go"],
         "shards": 4, "gomaxprocs": 16, "exclusive": True, "env": {"VX_PART": "fresh-shared", "VX_FRESH_PROP": "C05"}},
        {"name": "cold-start-generic", "variant": "generic", "pkg": "sm4", "run": "TestVX_C05Cold", "public_files": SM4P + ["sm4/Cold_pub_test.go"],
         "shards": 2, "exclusive": True, "env": {"VX_PART": "cold-start-generic"}},
    ],
    "prepare": {"generic": [["python3", "{verif}/tools/prep_generic.py", "{repo}"]]},
    "deadline": {"quick": 150, "thorough": 2400},
}

CHECKS["C06"] = {
    "level": "exploration",
    "assumptions": ["gcmref over sm4ref is the oracle (mode logic validated against the standard library's AES-GCM and a NIST vector)",
                    "every length <= 1100 (covers every combination of the 256/128/64/32/16-byte kernels and a tail), selected lengths up to 2^20, and 2^29 (bit length 2^32); messages >= 4 GiB not executed"],
    "parts": [
        {"name": "seal", "pkg": "sm4", "run": "TestVX_C06", "public_files": SM4P + ["sm4/C06_pub_test.go"], "shards": 16, "env": {"VX_PART": "seal"}},
        {"name": "seal-armglue", "variant": "armglue", "pkg": "sm4", "run": "TestVX_C06", "public_files": SM4P + ["sm4/C06_pub_test.go"],
         "shards": 16, "env": {"VX_PART": "seal-armglue"}},
        {"name": "seal-generic", "variant": "generic", "pkg": "sm4", "run": "TestVX_C06", "public_files": SM4P + ["sm4/C06_pub_test.go"],
         "shards": 16, "env": {"VX_PART": "seal-generic"}},
        {"name": "asm-entry-state", "cmd": ["env", "VX_LIVEIN_PROP=C06", "python3", "{verif}/tools/asmlivein.py"]},
        {"name": "seal-huge", "pkg": "sm4", "run": "TestVX_C06Huge", "public_files": SM4P + ["sm4/C06huge_pub_test.go"],
         "shards": {"quick": 6, "thorough": 8}, "env": {"VX_PART": "seal-huge"}},
        {"name": "seal-huge-armglue", "variant": "armglue", "pkg": "sm4", "run": "TestVX_C06Huge", "public_files": SM4P + ["sm4/C06huge_pub_test.go"],
         "shards": {"quick": 6, "thorough": 8}, "env": {"VX_PART": "seal-huge-armglue"}},
    ],
    "prepare": {"generic": [["python3", "{verif}/tools/prep_generic.py", "{repo}"]], "armglue": [["python3", "{verif}/tools/prep_armglue.py", "{repo}"]]},
    "deadline": {"quick": 200, "thorough": 3000},
}

CHECKS["C10"] = {
    "level": "exploration",
    "assumptions": ["gcmref/sm3ref/sm2ref give the expected outputs", "backing-array reuse is recorded but not required (the append contract does not demand it)"],
    "parts": [
        {"name": "buffers-gcm", "pkg": "sm4", "run": "TestVX_C10_GCM", "public_files": SM4P + ["sm4/C10_pub_test.go"], "shards": 8, "env": {"VX_PART": "seal"}},
        {"name": "buffers-gcm-armglue", "variant": "armglue", "pkg": "sm4", "run": "TestVX_C10_GCM", "public_files": SM4P + ["sm4/C10_pub_test.go"],
         "shards": 8, "env": {"VX_PART": "buffers-gcm-armglue"}},
        {"name": "buffers-sum", "pkg": "sm3", "run": "TestVX_C10_Sum", "public_files": ["sm3/C10_pub_test.go"]},
        {"name": "inputs-sm2", "pkg": "sm2", "run": "TestVX_C10_SM2", "public_files": SM2P + ["sm2/C10_pub_test.go"]},
        {"name": "buffers-gcm-generic", "variant": "generic", "pkg": "sm4", "run": "TestVX_C10_GCM", "public_files": SM4P + ["sm4/C10_pub_test.go"],
         "shards": 8, "env": {"VX_PART": "buffers-gcm-generic"}},
    ],
    "prepare": {"generic": [["python3", "{verif}/tools/prep_generic.py", "{repo}"]], "armglue": [["python3", "{verif}/tools/prep_armglue.py", "{repo}"]]},
}

CHECKS["C07"] = {
    "level": "exploration",
    "assumptions": ["authenticity is decided by a reference GCM (standard library generic GCM over sm4ref, cross-checked against gcmref per base message; gcmref itself where needed)",
                    "single-fault mutations of a finite set of base messages"],
    "parts": [
        {"name": "open", "pkg": "sm4", "run": "TestVX_C07", "public_files": SM4P + ["sm4/C10_pub_test.go", "sm4/C06_pub_test.go", "sm4/C07_pub_test.go"], "shards": 16, "env": {"VX_PART": "seal"}},
        {"name": "open-armglue", "variant": "armglue", "pkg": "sm4", "run": "TestVX_C07",
         "public_files": SM4P + ["sm4/C10_pub_test.go", "sm4/C06_pub_test.go", "sm4/C07_pub_test.go"], "shards": 16, "env": {"VX_PART": "open-armglue"}},
        {"name": "open-generic", "variant": "generic", "pkg": "sm4", "run": "TestVX_C07",
         "public_files": SM4P + ["sm4/C10_pub_test.go", "sm4/C06_pub_test.go", "sm4/C07_pub_test.go"], "shards": 16, "env": {"VX_PART": "open-generic"}},
        {"name": "asm-entry-state", "cmd": ["env", "VX_LIVEIN_PROP=C07", "python3", "{verif}/tools/asmlivein.py"]},
        {"name": "open-huge", "pkg": "sm4", "run": "TestVX_C07Huge", "public_files": SM4P + ["sm4/C06huge_pub_test.go"],
         "shards": {"quick": 11, "thorough": 16}, "env": {"VX_PART": "open-huge"}},
    ],
    "prepare": {"generic": [["python3", "{verif}/tools/prep_generic.py", "{repo}"]], "armglue": [["python3", "{verif}/tools/prep_armglue.py", "{repo}"]]},
    "deadline": {"quick": 200, "thorough": 3000},
}

CHECKS["C11"] = {
    "level": "exploration",
    "assumptions": ["page protection of the kernel + runtime/debug.SetPanicOnFault turn a stray access into a recoverable panic with Addr()",
                    "an access that stays inside a neighbouring mapped object is only visible in the flush placements, which is why every length is placed flush"],
    "prepare": {"generic": [["python3", "{verif}/tools/prep_generic.py", "{repo}"]]},
    "parts": [
        {"name": "asm-footprint", "cmd": ["env", "VX_FOOTPRINT_PROP=C11", "python3", "{verif}/tools/asmfootprint.py"]},
        {"name": "guard-asm", "pkg": "sm4", "run": "TestVX_C11_Asm", "kind": "internal", "files": ["sm4/C11_int_test.go"], "shards": 4},
        {"name": "guard-public", "pkg": "sm4", "run": "TestVX_C11", "public_files": SM4P + ["sm4/C10_pub_test.go", "sm4/C11_pub_test.go"], "shards": 16, "env": {"VX_PART": "seal"}},
        {"name": "guard-public-generic", "variant": "generic", "pkg": "sm4", "run": "TestVX_C11", "public_files": SM4P + ["sm4/C10_pub_test.go", "sm4/C11_pub_test.go"],
         "shards": 16, "env": {"VX_PART": "guard-public-generic"}},
        {"name": "watchpoints", "pkg": "sm4", "run": "TestVX_C11_Watch", "public_files": SM4P + ["sm4/C10_pub_test.go", "sm4/C11_pub_test.go", "sm4/Stack_pub_test.go", "sm4/Watch_pub_test.go"],
         "shards": 8, "env": {"VX_PART": "watchpoints"}},
        {"name": "stack-sweep", "pkg": "sm4", "run": "TestVX_StackSweep", "public_files": SM4P + ["sm4/C10_pub_test.go", "sm4/C11_pub_test.go", "sm4/Stack_pub_test.go", "sm4/Watch_pub_test.go"],
         "shards": 12, "env": {"VX_PART": "stack-sweep", "VX_STACK_PROP": "C11", "GODEBUG": "efence=1,adaptivestackstart=0"}},
    ],
    "deadline": {"quick": 200, "thorough": 2400},
}

CHECKS["C09"] = {
    "level": "model_checking",
    "assumptions": ["the model is the assembler's own listing of the current tree; instruction semantics are abstracted to taint transfer (unknown mnemonics: last operand written from all others)",
                    "arm64 code cannot be executed here: its model is explored but not replayed against concrete traces",
                    "micro-architectural timing below the instruction/address level is out of scope"],
    "parts": [
        {"name": "asm-taint", "cmd": ["env", "VX_ASMTAINT_SKIP=static-write", "python3", "{verif}/tools/asmtaint.py"]},
        {"name": "asm-trace", "cmd": ["python3", "{verif}/tools/asmtrace.py"]},
        {"name": "asm-dispatch", "pkg": "sm4", "run": "TestVX_C09_Dispatch", "public_files": SM4P + ["sm4/C09_pub_test.go"]},
        {"name": "glue-trace", "variant": "tracesm4", "pkg": "sm4", "run": "TestVX_C09_Glue", "public_files": SM4P + ["sm4/C09glue_pub_test.go"], "shards": 8},
    ],
    "prepare": {"tracesm4": [["bash", "{verif}/tools/prep_trace_sm4.sh", "{repo}"]]},
}

C17F = SM4P + ["sm4/C17_pub_test.go"]
CHECKS["C17"] = {
    "level": "model_checking",
    "assumptions": ["interleavings inside one assembly call are not explored: an assembly call is atomic for the scheduler and its effect on shared memory is captured by the write-footprint monitor, which is exact for code without synchronisation inside the call",
                    "reads of statically frozen package-level variables get no scheduling point (they commute with everything); a frozen variable that changes anyway is reported",
                    "sequential consistency: weak-memory reorderings are not modelled", "preemption bound 2 (quick) / 3 (thorough), 2-3 threads, 1-2 operations each"],
    "prepare": {"sched": [["bash", "{verif}/tools/prep_sched.sh", "{repo}"]],
                "schedarm": [["python3", "{verif}/tools/prep_armglue.py", "{repo}"], ["bash", "{verif}/tools/prep_sched.sh", "{repo}"]],
                "schedgen": [["python3", "{verif}/tools/prep_generic.py", "{repo}"], ["bash", "{verif}/tools/prep_sched.sh", "{repo}"]]},
    "parts": [
        {"name": "sched-sm4", "variant": "sched", "pkg": "sm4", "run": "TestVX_C17_SM4", "public_files": C17F, "shards": 6, "env": {"VX_PART": "sched-sm4"}},
        {"name": "sched-sm4-armglue", "variant": "schedarm", "pkg": "sm4", "run": "TestVX_C17_SM4", "public_files": C17F, "shards": 6, "env": {"VX_PART": "sched-sm4-armglue"}},
        {"name": "sched-sm4-generic", "variant": "schedgen", "pkg": "sm4", "run": "TestVX_C17_SM4", "public_files": C17F, "shards": 6, "env": {"VX_PART": "sched-sm4-generic"}},
        {"name": "sched-sm2", "variant": "sched", "pkg": "sm2", "run": "TestVX_C17_SM2", "public_files": SM2P + ["sm2/C17_pub_test.go"], "shards": 2},
        {"name": "asm-static-state", "cmd": ["env", "VX_ASMTAINT_ONLY=static-write", "VX_ASMTAINT_PROP=C17", "VX_ASMTAINT_PART=asm-static-state", "python3", "{verif}/tools/asmtaint.py"]},
        {"name": "asm-entry-state", "cmd": ["env", "VX_LIVEIN_PROP=C17", "python3", "{verif}/tools/asmlivein.py"]},
        {"name": "asm-footprint", "cmd": ["python3", "{verif}/tools/asmfootprint.py"]},
        {"name": "race-sm4", "variant": "sched", "race": True, "pkg": "sm4", "run": "TestVX_C17_SM4_Race", "public_files": C17F, "gomaxprocs": 16},
        {"name": "race-sm2", "variant": "sched", "race": True, "pkg": "sm2", "run": "TestVX_C17_SM2_Race", "public_files": SM2P + ["sm2/C17_pub_test.go"], "gomaxprocs": 16},
        {"name": "stack-sweep", "pkg": "sm4", "run": "TestVX_StackSweep", "public_files": SM4P + ["sm4/Stack_pub_test.go"],
         "shards": 12, "env": {"VX_PART": "stack-sweep", "VX_STACK_PROP": "C17", "GODEBUG": "efence=1,adaptivestackstart=0"}},
        {"name": "fresh-shared", "pkg": "sm4", "run": "TestVX_FreshShared", "public_files": SM4P + ["sm4/Stack_pub_test.go", "sm4/Fresh_pub_test.go"],
         "shards": 4, "gomaxprocs": 16, "exclusive": True, "env": {"VX_PART": "fresh-shared", "VX_FRESH_PROP": "C17"}},
        {"name": "crowd", "pkg": "sm2", "run": "TestVX_Crowd", "public_files": SM2P + ["sm2/Crowd_pub_test.go"], "gomaxprocs": 16, "exclusive": True,
         "env": {"VX_CROWD_PROP": "C17"}},
        {"name": "cold-concurrent", "race": True, "pkg": "sm2", "run": "TestVX_SM2Cold", "public_files": SM2P + ["sm2/Cold_pub_test.go"], "gomaxprocs": 16, "shards": 8,
         "env": {"VX_PART": "cold-concurrent"}},
    ],
    "deadline": {"quick": 300, "thorough": 3000},
}

CHECKS["C08"] = {
    "level": "exploration",
    "assumptions": ["Go-source granularity: the compiler is assumed not to turn branch-free Go into secret-dependent branches; math/bits and crypto/subtle are intrinsics / trusted constant-time",
                    "only the enumerated secrets are compared; micro-architectural effects are out of scope",
                    "three math/big calls of SignHashed that compute the published r from public values are a declared-public whitelist keyed by exact call text"],
    "prepare": {"trace": [["bash", "{verif}/tools/prep_trace.sh", "{repo}"]]},
    "parts": [
        {"name": "ct-trace", "variant": "trace", "pkg": "sm2", "run": "TestVX_C08", "public_files": SM2P + ["sm2/C08_pub_test.go"], "shards": 8},
    ],
    "deadline": {"quick": 200, "thorough": 2400},
}

# ---------------------------------------------------------------- 32-bit word size
# The library is pure Go outside sm4's amd64/arm64 kernels and builds for 32-bit targets, where int, uint and big.Word
# have 32 bits: the same public drivers are built a second time with GOARCH=386 (such a binary runs natively on the
# amd64 host) and run at the quick depth of their alphabets in both tiers.
W32 = {
    "C01": ["sign-verify"], "C02": ["sign-exact"], "C03": ["verify-exact"], "C04": ["sm3-history", "sm3-single-huge"], "C05": ["block-public"],
    "C06": ["seal"], "C07": ["open"], "C10": ["buffers-gcm", "buffers-sum", "inputs-sm2"], "C12": ["keys"], "C13": ["za-wrappers"],
    "C14": ["mul-public", "mul-schemes"], "C15": ["point-encoding", "point-arith-public", "point-arith"], "C16": ["field", "chain", "multiselect"],
    "C19": ["failing-rand"], "C20": ["cmp", "naf"],
}
for _pid, _names in W32.items():
    _c = CHECKS[_pid]
    _new = []
    for _p in _c["parts"]:
        if _p["name"] in _names and not _p.get("variant"):
            _q = dict(_p)
            _q["name"] = _p["name"] + "-w32"
            _q["variant"] = "w32"
            _q["goarch"] = "386"
            _q["tier_cap"] = "quick"
            if not _p.get("files") or _p.get("public_files"):
                # parts with public drivers drop their in-package extras; purely in-package parts (pure Go packages) keep them
                _q.pop("files", None)
                _q.pop("kind", None)
            _q["env"] = dict(_p.get("env", {}), VX_W32="1")
            _new.append(_q)
    _c["parts"] = _c["parts"] + _new
    if "" in _c.get("prepare", {}):
        _c["prepare"]["w32"] = _c["prepare"][""]

# ---------------------------------------------------------------- other build configurations of the host target
# GOAMD64=v3 selects files tagged amd64.v3 (and lets the compiler use BMI2/AVX2 forms): the pure-Go drivers below are
# built and run a second time in that configuration (the host has the instructions).
V3 = {"C20": ["cmp", "naf"], "C16": ["field", "multiselect"], "C14": ["mul-public"], "C04": ["sm3-history"], "C12": ["keys"]}
for _pid, _names in V3.items():
    _c = CHECKS[_pid]
    _new = []
    for _p in _c["parts"]:
        if _p["name"] in _names and not _p.get("variant"):
            _q = dict(_p)
            _q["name"] = _p["name"] + "-v3"
            _q["variant"] = "v3"
            _q["goenv"] = {"GOAMD64": "v3"}
            _q["tier_cap"] = "quick"
            _q.pop("files", None)
            _q.pop("kind", None)
            _new.append(_q)
    _c["parts"] = _c["parts"] + _new
    if "" in _c.get("prepare", {}):
        _c["prepare"]["v3"] = _c["prepare"][""]

# ---------------------------------------------------------------- a target that is neither amd64, 386 nor arm64
# Code selected by "every other GOARCH" (portable fallbacks keyed on the architecture) is built for js/wasm and executed
# by node through the Go distribution's loader (misc/wasm/wasm_exec_node.js). If node is missing the parts fail to start
# and the variant is reported as a lost seam.
import shutil as _shutil
WASM = {"C05": ["block-public"], "C04": ["sm3-history"], "C20": ["cmp", "naf"]}
if _shutil.which("node"):
    for _pid, _names in WASM.items():
        _c = CHECKS[_pid]
        _new = []
        for _p in _c["parts"]:
            if _p["name"] in _names and not _p.get("variant"):
                _q = dict(_p)
                _q["name"] = _p["name"] + "-wasm"
                _q["variant"] = "wasm"
                _q["goenv"] = {"GOOS": "js", "GOARCH": "wasm"}
                _q["runner"] = "wasm"
                _q["tier_cap"] = "quick"
                _q.pop("files", None)
                _q.pop("kind", None)
                _q["env"] = dict(_p.get("env", {}), VX_WASM="1")
                _new.append(_q)
        _c["parts"] = _c["parts"] + _new
        if "" in _c.get("prepare", {}):
            _c["prepare"]["wasm"] = _c["prepare"][""]

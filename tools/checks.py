"""Registry of property checks: which harness parts run for each property.

part keys:
  name          unique name inside the check
  pkg           package directory (relative to the repository root) the driver is injected into
  run           name of the Go test function that is the driver
  files         in-package driver sources (under /verif/inject), may reach into package internals
  public_files  public-API driver sources (external test package) - kept when an internal seam stops compiling
  shards        number of worker processes (int or {tier: int})
  variant       name of a separately prepared copy of the tree (instrumented builds)
  cmd           (instead of pkg/run) external tool command, {verif}/{repo}/{work} substituted
"""

CHECKS = {}

CHECKS["C20"] = {
    "level": "exploration",
    "assumptions": ["oracle for ConstantTimeCmp is bytes.Compare from the Go standard library",
                    "w-NAF conditions checked directly on the digits; digit sum by limb arithmetic cross-checked against math/big"],
    "parts": [
        {"name": "cmp", "pkg": "utils", "run": "TestVX_C20_Cmp", "public_files": ["utils/C20_pub_test.go"]},
        {"name": "naf", "pkg": "utils", "run": "TestVX_C20_NAF", "public_files": ["utils/C20_pub_test.go"],
         "shards": {"quick": 4, "thorough": 16}},
    ],
    "deadline": {"quick": 120, "thorough": 1500},
}

# gdb -batch -x gdbfootprint.py  (python script run *inside* gdb)
# Single-steps every traced invocation of one assembly routine and records every memory WRITE it makes as a byte range
# [lo, hi): destination memory operands of stores, with the width taken from the mnemonic / register operand and, for
# AVX-512 masked stores, from the live value of the mask register (only enabled lanes are written).
import gdb, json, os, re

fn = os.environ["VX_TRACE_SYM"]
out = os.environ["VX_TRACE_OUT"]
maxsteps = int(os.environ.get("VX_TRACE_MAXSTEPS", "400000"))
gdb.execute("set pagination off")
gdb.execute("set language c")
gdb.execute("handle SIGURG nostop noprint pass")
gdb.execute("handle SIGPIPE nostop noprint pass")
tracing = [True]
TABLES = []
for _r in filter(None, os.environ.get("VX_STATIC_TABLES", "").split(",")):
    _lo, _hi = _r.split(":")
    TABLES.append((int(_lo), int(_hi)))
TLO = min([a for a, _ in TABLES], default=0)
THI = max([b for _, b in TABLES], default=0)

def read_width(mn, ops, body):
    """bytes read by a load whose memory operand is a source; None when not modelled (then nothing is recorded)"""
    if "{1to" in body:
        return 8 if mn.endswith("q") or mn.endswith("qb") or mn.endswith("pd") else 4
    if mn.startswith(("vpbroadcast", "vbroadcast")):
        for suf, w in (("32x8", 32), ("64x4", 32), ("32x4", 16), ("64x2", 16), ("f128", 16), ("i128", 16), ("32x2", 8), ("ss", 4), ("sd", 8), ("b", 1), ("w", 2), ("d", 4), ("q", 8)):
            if mn.endswith(suf):
                return w
        return None
    if mn.startswith(("movz", "movs")) and len(mn) >= 5 and mn[4] in "bwl":
        return {"b": 1, "w": 2, "l": 4}[mn[4]]
    if mn.startswith(("vpmovzx", "vpmovsx", "pmovzx", "pmovsx", "vpgather", "vgather", "vpexpand", "vexpand", "rep")):
        return None
    if mn.startswith(("vpinsr", "pinsr")):
        return {"b": 1, "w": 2, "d": 4, "q": 8}.get(mn[-1])
    return width_of(mn, ops)

class Off(gdb.Breakpoint):
    def stop(self):
        tracing[0] = False
        return False
class On(gdb.Breakpoint):
    def stop(self):
        tracing[0] = True
        return False
Off("github.com/bilibili/smgo/sm4.vxTraceOff")
On("github.com/bilibili/smgo/sm4.vxTraceOn")
bp = gdb.Breakpoint(fn)
MEM = re.compile(r"(-?0x[0-9a-f]+|-?\d+)?\((%[a-z0-9]+)?(?:,(%[a-z0-9]+),(\d))?\)")
READONLY = ("cmp", "test", "vptest", "vpcmp", "vcmp", "ucomis", "comis", "vucomis", "vcomis", "prefetch", "bt ", "kortest", "ktest", "nop", "lea")

def reg(name):
    return int(gdb.parse_and_eval("$" + name)) & 0xffffffffffffffff

def width_of(mn, ops):
    # stores whose width is not that of their register operand
    if mn.startswith("vextract"):
        if "64x4" in mn or "32x8" in mn:
            return 32
        return 16  # vextract[if]128, 32x4, 64x2
    if mn.startswith("kmov"):
        return {"b": 1, "w": 2, "d": 4, "q": 8}.get(mn[-1])
    if mn in ("vmovhps", "vmovlps", "vmovhpd", "vmovlpd", "movhps", "movlps", "movhpd", "movlpd", "vmovsd", "movsd"):
        return 8
    if mn.startswith(("vpmov", "vcompress", "vpcompress", "vpscatter", "vscatter")):
        return None  # down-converting / compressing / scattering stores: width not modelled
    # explicit AT&T suffix on integer moves / arithmetic
    for r in ops:
        r = r.strip()
        if r.startswith("%zmm"): return 64
        if r.startswith("%ymm"): return 32
        if r.startswith("%xmm"):
            if mn in ("vmovq", "movq", "vpextrq"): return 8
            if mn in ("vmovd", "movd", "vpextrd", "vmovss", "movss"): return 4
            if mn in ("vpextrw",): return 2
            if mn in ("vpextrb",): return 1
            return 16
        m = re.match(r"%(r[a-z0-9]+|e[a-z]+|[a-z]+)$", r)
        if m:
            n = m.group(1)
            if re.match(r"r(\d+)$", n) or n in ("rax", "rbx", "rcx", "rdx", "rsi", "rdi", "rbp", "rsp"): return 8
            if re.match(r"r\d+d$", n) or n.startswith("e"): return 4
            if re.match(r"r\d+w$", n) or n in ("ax", "bx", "cx", "dx", "si", "di", "bp", "sp"): return 2
            if re.match(r"r\d+b$", n) or n in ("al", "bl", "cl", "dl", "sil", "dil", "ah", "bh", "ch", "dh"): return 1
        if r.startswith("%k"): return 8
    if mn.endswith("b"): return 1
    if mn.endswith("w"): return 2
    if mn.endswith("l"): return 4
    if mn.endswith("q"): return 8
    return None

def elsize(mn):
    m = re.search(r"(8|16|32|64)$", mn)
    if m: return int(m.group(1)) // 8
    if mn.endswith("ps") or mn.endswith("d"): return 4
    if mn.endswith("pd") or mn.endswith("q"): return 8
    return 1

traces = []
gdb.execute("run")
while True:
    try:
        frame = gdb.selected_frame()
    except gdb.error:
        break
    pc = frame.pc()
    sym = frame.name() or ""
    if not sym.startswith(fn.replace(".abi0", "")):
        break
    if not tracing[0]:
        try:
            gdb.execute("continue")
        except gdb.error:
            break
        continue
    info = gdb.execute("info symbol $pc", to_string=True)
    m = re.search(r"\+ (\d+)", info)
    off0 = int(m.group(1)) if m else 0
    start = pc - off0
    arch = frame.architecture()
    writes, unknown, reads = [], [], []
    sp0 = reg("rsp")
    steps = 0
    while steps < maxsteps:
        pc = reg("pc") if False else int(gdb.parse_and_eval("$pc"))
        ins = arch.disassemble(pc)[0]
        asm = ins["asm"].strip()
        mn = asm.split()[0] if asm else ""
        if asm.startswith("ret"):
            break
        body = asm[len(mn):].strip()
        mask = None
        mm_ = re.search(r"\{(%k[0-7])\}", body)
        if mm_:
            mask = mm_.group(1)
        zeroing = "{z}" in body
        body_nomask = re.sub(r"\{[^}]*\}", "", body)
        # split operands on commas that are not inside parentheses
        ops, depth, cur = [], 0, ""
        for ch in body_nomask:
            if ch == "(": depth += 1
            if ch == ")": depth -= 1
            if ch == "," and depth == 0:
                ops.append(cur); cur = ""
            else:
                cur += ch
        if cur.strip():
            ops.append(cur)
        # loads from the package's static tables: source memory operands (every memory operand of compare-like
        # instructions; every memory operand that is not the last one otherwise) whose address lies in the table area
        if ops and TABLES and not asm.startswith(("lea", "nop", "prefetch")):
            cmp_like = any(asm.startswith(p) for p in READONLY)
            for oi, o in enumerate(ops):
                if oi == len(ops) - 1 and not cmp_like and len(ops) > 1:
                    continue
                mo_ = MEM.search(o.strip())
                if mo_ is None:
                    continue
                disp, base, index, scale = mo_.groups()
                if base is None and index is None:
                    continue
                ea = int(disp, 0) if disp else 0
                if base:
                    ea += (pc + ins["length"]) if base == "%rip" else reg(base[1:])
                if index:
                    ea += reg(index[1:]) * int(scale)
                ea &= 0xffffffffffffffff
                if not (TLO <= ea < THI):
                    continue
                w = read_width(mn, [x for k, x in enumerate(ops) if k != oi], body)
                if w is None:
                    continue
                lo_, hi_ = ea, ea + w
                if mask is not None and not "{1to" in body:
                    kv = reg(mask[1:])
                    es = elsize(mn)
                    lanes = max(1, w // es)
                    kv &= (1 << lanes) - 1
                    if kv == 0:
                        continue
                    first = (kv & -kv).bit_length() - 1
                    lastb = kv.bit_length() - 1
                    lo_, hi_ = ea + first * es, ea + (lastb + 1) * es
                reads.append([pc - start, lo_, hi_])
        if ops and not any(asm.startswith(p) for p in READONLY):
            last = ops[-1].strip()
            mo = MEM.search(last)
            is_store = mo is not None and not mn.startswith(("push", "call", "jmp", "j"))
            # single-operand read-modify-write (inc/dec/neg/not) also writes; single-operand with memory = write
            if is_store:
                disp, base, index, scale = mo.groups()
                if base is not None or index is not None:
                    ea = int(disp, 0) if disp else 0
                    if base:
                        ea += (pc + ins["length"]) if base == "%rip" else reg(base[1:])
                    if index:
                        ea += reg(index[1:]) * int(scale)
                    ea &= 0xffffffffffffffff
                    w = width_of(mn, ops[:-1])
                    if mn.startswith("rep") or w is None:
                        unknown.append([pc - start, asm])
                    else:
                        lo, hi = ea, ea + w
                        if mask is not None:
                            kv = reg(mask[1:])
                            es = elsize(mn)
                            lanes = w // es
                            kv &= (1 << lanes) - 1
                            if kv == 0:
                                lo = hi = ea
                            else:
                                first = (kv & -kv).bit_length() - 1
                                lastb = kv.bit_length() - 1
                                lo, hi = ea + first * es, ea + (lastb + 1) * es
                        if hi > lo:
                            writes.append([pc - start, lo, hi])
        gdb.execute("stepi", to_string=True)
        steps += 1
    traces.append({"writes": writes, "unknown": unknown[:20], "steps": steps, "complete": steps < maxsteps, "sp": sp0, "table_reads": reads})
    try:
        gdb.execute("continue")
    except gdb.error:
        break
json.dump({"symbol": fn, "traces": traces}, open(out, "w"))

# gdb -batch -x gdbtrace.py  (python script run *inside* gdb)
# Single-steps every invocation of one assembly routine between vxTraceOn/Off markers and writes, per invocation,
# the list of function-relative PCs and the effective addresses of every memory operand.
import gdb, json, os, re

fn = os.environ["VX_TRACE_SYM"]          # e.g. github.com/bilibili/smgo/sm4.sealAsm.abi0
out = os.environ["VX_TRACE_OUT"]
maxsteps = int(os.environ.get("VX_TRACE_MAXSTEPS", "400000"))
gdb.execute("set pagination off")
gdb.execute("set language c")
gdb.execute("handle SIGURG nostop noprint pass")
gdb.execute("handle SIGPIPE nostop noprint pass")
tracing = [True]

class Off(gdb.Breakpoint):
    def stop(self):
        tracing[0] = False
        return False
class On(gdb.Breakpoint):
    def stop(self):
        tracing[0] = True
        return False
Off("github.com/bilibili/smgo/sm4.vxTraceOff")
On("github.com/bilibili/smgo/sm4.vxTraceOn")
bp = gdb.Breakpoint(fn)
MEM = re.compile(r"(-?0x[0-9a-f]+|-?\d+)?\((%[a-z0-9]+)?(?:,(%[a-z0-9]+),(\d))?\)")
traces = []
gdb.execute("run")
while True:
    try:
        frame = gdb.selected_frame()
    except gdb.error:
        break
    pc = frame.pc()
    blk = gdb.block_for_pc(pc)
    sym = frame.name() or ""
    if not sym.startswith(fn.replace(".abi0", "")):
        break
    if not tracing[0]:
        try:
            gdb.execute("continue")
        except gdb.error:
            break
        continue
    # function bounds
    start = int(gdb.parse_and_eval("(unsigned long)&'%s'" % fn)) if False else None
    info = gdb.execute("info symbol $pc", to_string=True)
    m = re.search(r"\+ (\d+)", info)
    off0 = int(m.group(1)) if m else 0
    start = pc - off0
    arch = frame.architecture()
    pcs, eas = [], []
    sp0 = int(gdb.parse_and_eval("$sp"))
    steps = 0
    while steps < maxsteps:
        pc = int(gdb.parse_and_eval("$pc"))
        ins = arch.disassemble(pc)[0]
        asm = ins["asm"]
        pcs.append(pc - start)
        if not asm.startswith("lea") and not asm.startswith("nop"):
            for mm in MEM.finditer(asm):
                disp, base, index, scale = mm.groups()
                if base is None and index is None:
                    continue
                ea = int(disp, 0) if disp else 0
                if base:
                    if base == "%rip":
                        ea += pc + ins["length"]
                    else:
                        ea += int(gdb.parse_and_eval("$" + base[1:])) & 0xffffffffffffffff
                if index:
                    ea += (int(gdb.parse_and_eval("$" + index[1:])) & 0xffffffffffffffff) * int(scale)
                eas.append([pc - start, ea & 0xffffffffffffffff])
        if asm.startswith("ret"):
            break
        gdb.execute("stepi", to_string=True)
        steps += 1
    traces.append({"pcs": pcs, "eas": eas, "steps": steps, "complete": steps < maxsteps})
    try:
        gdb.execute("continue")
    except gdb.error:
        break
json.dump({"symbol": fn, "traces": traces}, open(out, "w"))

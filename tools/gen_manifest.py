#!/usr/bin/env python3
"""Regenerates /verif/MANIFEST.json from tools/checks.py and tools/manifest_text.py."""
import json, os, sys
here = os.path.dirname(os.path.abspath(__file__))
sys.path.insert(0, here)
from checks import CHECKS
from manifest_text import TEXT, NOT_APPLICABLE_REASONS, ENGINES

verif = os.path.dirname(here)
props = [json.loads(l)["id"] for l in open(os.path.join(verif, "properties.jsonl"))]
checks = []
na = []
for pid in props:
    if pid in CHECKS and pid in TEXT:
        c, t = CHECKS[pid], TEXT[pid]
        checks.append({
            "property_id": pid,
            "quick_cmd": "./run %s quick" % pid,
            "thorough_cmd": "./run %s thorough" % pid,
            "evidence_file": "/verif/evidence/%s.json" % pid,
            "replay_cmd_template": "./run %s --replay {path}" % pid,
            "engine": t.get("engine", "xplore"),
            "level_claimed": {"category": c["level"], "text": t["level_text"], "design_ref": t.get("design_ref", "DESIGN.md §3 " + pid)},
            "level_note": t["level_note"],
            "technique": t["technique"],
        })
    else:
        na.append({"property_id": pid, "reason": NOT_APPLICABLE_REASONS.get(pid, "check not built yet in this revision of /verif (work in progress; see DESIGN.md §3 %s for the planned bounded-exhaustive exploration)" % pid)})
m = {
    "version": 1,
    "setup_cmd": "./run setup",
    "hooks": {
        "guard": "verif",
        "enable": "each check copies /repo's working tree to a scratch directory, injects harness sources from /verif/inject (all carrying //go:build verif) into the copy, and builds with `go test -c -tags verif`; /repo itself contains no hook code",
        "baseline_off_cmd": "cd /repo && GOFLAGS=-mod=mod go test -vet=off -count=1 ./...",
        "source_commits": [],
        "add_only": True,
    },
    "engines": ENGINES,
    "checks": checks,
    "not_applicable": na,
    "notes": "Family: model checking as bounded exhaustive exploration of the real code (explicit-state search over operation histories, deviation-bounded environment scripts, preemption-bounded schedule exploration under a controlled scheduler, complete enumeration of finite shape spaces); see DESIGN.md. Exit 2 from a check means the harness could not run (never a VIOLATION).",
}
json.dump(m, open(os.path.join(verif, "MANIFEST.json"), "w"), indent=1)
print("claimed:", [c["property_id"] for c in checks], "not_applicable:", [n["property_id"] for n in na])

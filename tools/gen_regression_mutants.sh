#!/bin/bash
# one reverse patch per "fix:" commit in /repo: applying it re-introduces the defect (regression mutants)
mkdir -p /verif/mutants
cd /repo
for c in $(git log --format=%h --grep='^fix:' ); do
  subj=$(git log -1 --format=%s $c | sed 's/^fix: //; s/[^A-Za-z0-9]\+/_/g' | cut -c1-50)
  f=/verif/mutants/R_${c}_${subj}.diff
  # keep a hand-ported version (one that applies to HEAD although the raw reverse diff no longer does)
  if [ -f "$f" ] && git apply --check "$f" 2>/dev/null; then continue; fi
  git diff $c $c^ > "$f"
done
ls /verif/mutants

#!/bin/bash
# one reverse patch per "fix:" commit in /repo: applying it re-introduces the defect (regression mutants)
mkdir -p /verif/mutants
cd /repo
for c in $(git log --format=%h --grep='^fix:' ); do
  subj=$(git log -1 --format=%s $c | sed 's/^fix: //; s/[^A-Za-z0-9]\+/_/g' | cut -c1-50)
  git diff $c $c^ > /verif/mutants/R_${c}_${subj}.diff
done
ls /verif/mutants

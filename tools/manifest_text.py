ENGINES = [
    {"name": "xplore", "path": "/verif/run + /verif/harness/vx + /verif/inject/*",
     "serves_properties": ["C01", "C02", "C03", "C05", "C06", "C07", "C10", "C11", "C12", "C13", "C14", "C15", "C16", "C18", "C19", "C20"],
     "kind_free_text": "bounded-exhaustive enumeration of explicitly stated finite input-shape spaces, deviation-bounded environment scripts (nonce/candidate streams, reader answers) and two-call histories, executed on the real code built from /repo's working tree; shapes that cannot be reached by choosing values are solved for (nonces for a wanted GCM counter, (k,e,d) for wanted signature shapes)"},
    {"name": "statebfs", "path": "/verif/inject/sm3/C04_pub_test.go", "serves_properties": ["C04"],
     "kind_free_text": "explicit-state breadth-first search over Write/Sum/Reset histories of the live SM3 object; dedup key = full concrete memory of the object; successor = replay of the shortest op path on a fresh object + 1 op"},
    {"name": "refs", "path": "/verif/harness/refs", "serves_properties": ["C01", "C02", "C03", "C04", "C05", "C06", "C07", "C10", "C11", "C12", "C13", "C14", "C15", "C16", "C18", "C19"],
     "kind_free_text": "independent reference models (sm3ref, sm4ref with algebraic S-box, gcmref bit-serial SP 800-38D with field inversion, sm2ref textbook GM/T 0003.2 in math/big), self-validated against the standards' printed vectors at the start of every check"},
    {"name": "guard", "path": "/verif/harness/guard", "serves_properties": ["C11"],
     "kind_free_text": "mmap arenas with PROT_NONE pages before and after; SetPanicOnFault turns a stray access by Go or assembly into a recoverable panic with Addr()"},
]
NOT_APPLICABLE_REASONS = {}
ENGINES.append({"name": "asmfootprint", "path": "/verif/tools/asmfootprint.py + /verif/tools/gdbfootprint.py", "serves_properties": ["C11", "C17"],
     "kind_free_text": "gdb single-steps every amd64 assembly routine on known buffers and records every written byte range (store width from the mnemonic / register operand, enabled lanes of AVX-512 masked stores from the live mask register); each range must lie inside the destination, the scratch block or the stack"})
ENGINES.append({"name": "coldstart", "path": "/verif/harness/vx/cold.go", "serves_properties": ["C04", "C05", "C09", "C12", "C15", "C17"],
     "kind_free_text": "re-executes the test binary so that an entry point is the first use of the library in a fresh process, alone and by eight goroutines leaving a spin barrier together; every entry point x {alone, concurrent} x N processes is enumerated"})
ENGINES.append({"name": "gotrace", "path": "/verif/harness/trace + /verif/harness/cmd/vxinstr (-mode trace)", "serves_properties": ["C08", "C09"],
     "kind_free_text": "source-to-source trace instrumentation (block entries, short-circuit operands, values of non-constant indices/slice bounds) + static attribution of calls leaving the module to the block that makes them; exhaustive enumeration of secret alphabets with a trace-equality oracle"})
ENGINES.append({"name": "asmtaint", "path": "/verif/tools/asmtaint.py + /verif/tools/asmtrace.py + /verif/tools/gdbtrace.py", "serves_properties": ["C09"],
     "kind_free_text": "explicit-state exploration of an abstract taint machine whose program is the assembler's own listing (`go tool asm -S`) of every .s file of the current tree, for amd64 and arm64; concrete gdb single-step traces of the amd64 routines are replayed against the model CFG and compared across two fillings of all secret inputs"})
ENGINES.append({"name": "sched", "path": "/verif/harness/sched + /verif/harness/shim + /verif/harness/cmd/vxinstr", "serves_properties": ["C17"],
     "kind_free_text": "cooperative controlled scheduler with stateless preemption-bounded DFS over schedules, vector-clock happens-before race monitor, write-footprint monitor for shared regions and package-level variables, sync/atomic shims, source-to-source instrumenter (textual insertion) with a frozen-variable reduction; separate free-running -race pass"})
TEXT = {}

def T(pid, technique, level_text, level_note, engine="xplore"):
    TEXT[pid] = {"technique": technique, "level_text": level_text, "level_note": level_note, "engine": engine}

T("C01", "exhaustive enumeration of signature-shape classes with solved inputs (leading-zero-byte counts of r, s, t x fills x key encodings x three entry points)",
  "Every class of signature the code distinguishes (number of leading zero bytes of r, s and (r+s) mod n, short key encodings, all three signing entry points) is produced deterministically by solving for (k, e) or d, then signed and verified on the real code. The space of shape classes is finite and enumerated completely; it is the input-shape dimension where this property's failures live (the verifier indexes a fixed 256-bit string).",
  "Trusted: Go toolchain, math/big, sm2ref for deriving public keys. Not covered: value-dependent failures inside a shape class (those are C14/C15/C16's alphabets).")
T("C02", "deviation-bounded enumeration of nonce streams (environment answers) against a reference model",
  "All nonce streams with up to D rejected candidates (k=0, k=n, k=n+1, k=2^256-1, and candidates made to hit r=0, r+k=n, s=0 by solving e or d) followed by an acceptable one are enumerated for D=0,1,2 (3 in thorough), crossed with key and digest classes; each is executed and compared byte for byte, including bytes consumed, with the textbook reference signer.",
  "Trusted: sm2ref.Sign (validated on the GM/T 0003.5 example). Bound: at most D rejected candidates per call.")
T("C03", "exhaustive single-fault mutation of valid signatures plus solved side-condition violators, against a reference verifier",
  "For a set of base signatures every single-bit flip of each of the five arguments, every wrong length, every out-of-range r/s value, and tuples solved to satisfy the verification equation while violating exactly one side condition (r+s=n, r>=n, s>=n, result at infinity, off-curve/non-canonical keys) are verified on the real code and compared with the seven-condition reference procedure.",
  "Trusted: sm2ref.Verify. Not covered: multi-fault mutations; keys/digests outside the base set.")
T("C04", "explicit-state model checking of Write/Sum/Reset histories on the implementation itself",
  "Breadth-first search over all operation sequences (Write of every length that keeps the stream <= L, three Sum prefix shapes, Reset) from New(), deduplicated on the full concrete memory of the hash object, so all ways of splitting any message of length <= L into writes are covered by induction over states rather than sampled. Every transition executes the real code; every state is digest-checked against the reference and SumSM3.",
  "Trusted: sm3ref (validated on GB/T 32905 vectors). Bound: streams <= L bytes (200 quick, 800 thorough); positional-content family is merged on (length, digest), constant-content families on full memory.", engine="statebfs")
T("C05", "exhaustive enumeration over key/block alphabets x every implementation path and lane position",
  "Each key x block pair from alphabets built from the structure of the cipher (zero, ones, standard sample, all one-hot, single-byte sweeps, seeded) goes through the portable one- and two-block code, every vector kernel width with the block visiting every lane, both directions, aliased and non-aliased, and both key schedules; all compared with a table-free reference.",
  "Trusted: sm4ref validated on GB/T 32907 vectors incl. the 10^6-fold iteration. arm64 kernels are not executable here.")
T("C06", "exhaustive enumeration of every length class with solved counter-wrap nonces, against a bit-serial SP 800-38D reference",
  "Every plaintext length and every aad length 0..1100 (so every combination of the 256/128/64/32/16-byte kernels, the tail, and 1-way/4-way GHASH), nonce lengths 1..300, tag sizes 12..16, and nonces solved by field inversion so that the 32-bit counter wraps inside each kernel width, on the fused assembly path and on the arm64 kernel-plus-Go-glue path compiled over the amd64 kernels.",
  "Trusted: gcmref+sm4ref (mode logic validated against the standard library's AES-GCM). Bound: lengths <= 1100; the arm64 assembly itself is not executed.")
T("C07", "exhaustive single-fault mutation of sealed messages, verdict decided by a reference GCM",
  "For valid messages over all length classes: every single-bit flip of ciphertext, tag, nonce and aad, every truncation, extension, foreign tag size and every string shorter than the tag is opened on the real code; a reference GCM decides authenticity; rejection must be clean (nil plaintext, no panic, nothing left in dst).",
  "Trusted: standard library generic GCM over sm4ref (cross-checked against gcmref per base message). Multi-fault forgeries are out of scope (that is the cryptographic strength of GHASH, not an implementation property).")
T("C10", "exhaustive enumeration of destination shapes and two-call histories",
  "All (len(dst), spare capacity) shapes incl. nil, empty and the in-place idiom, for Seal, Open and Sum over all message length classes, each call repeated on the same buffers, with every input snapshotted and compared; plus every SM2 entry point called twice on snapshotted arguments.",
  "Trusted: reference outputs. Backing-array reuse is not required, only the append contract.")
T("C11", "exhaustive placement of every argument at both edges of mapped memory for every length",
  "Every slice or pointer argument of the public Block/AEAD methods and of every amd64 assembly routine is placed so that it ends exactly at, or starts exactly after, an inaccessible page, for every length 0..1100 (nonces 1..300, GHASH block counts 0..20); a stray read or write by Go or assembly faults and is caught; short-buffer misuse must end in a Go panic and leave canaries intact.",
  "Trusted: kernel page protection and runtime fault-to-panic conversion. An out-of-range access that lands in the same page on the non-guarded side is only visible through the complementary placement, which is why both edges and all lengths are enumerated.")
T("C12", "deviation-bounded enumeration of candidate streams plus boundary-value enumeration",
  "GenerateKey on every stream of <= 3 rejected candidates followed by a valid one; TestPrivateKey/DerivePublic on every boundary value and on n-1 perturbed at every byte position; CheckOnCurve on valid points with every single-bit flip of either coordinate, non-canonical and wrong-length inputs; all against the reference.",
  "Trusted: sm2ref. Bound: <= 3 rejected candidates; 20-36 base points.")
T("C13", "exhaustive enumeration of id and message lengths across SM3 padding boundaries",
  "ZA for every id length 0..8200 (every residue mod 64 many times, the 8191/8192 boundary) and the wrappers for every message length 0..200 x id lengths straddling padding boundaries, compared with the reference digest-level computation; message and id binding checked.",
  "Trusted: sm3ref/sm2ref. Contents are seeded, lengths are exhaustive in the stated ranges.")
T("C14", "exhaustive enumeration of every window value at every window position (all four comb layouts), nibble positions and signed digits",
  "Base multiplication on every value of every fixed-window position of the four comb layouts on zero and seeded backgrounds, variable-point multiplication on every nibble value at every position for scalar lengths 0..33, and the double-scalar routine on every signed 4-NAF digit at every position with points in special relation to G, against an independent math/big reference.",
  "Trusted: sm2ref (Jacobian validated against affine arithmetic and elliptic.CurveParams). Scalars outside the alphabets are not covered.")
T("C15", "exhaustive enumeration of point pairs x projective representatives x aliasing patterns; single-fault mutation of encodings",
  "Add/Double/Negate/Select/Set on all pairs of an 11-point alphabet (incl. equal, inverse, infinity) in four projective scalings each and all receiver/operand aliasing patterns, with the curve equation checked on every result; decoding of every length, every leading byte, every single-bit flip of valid encodings.",
  "Trusted: affine group law in math/big. In-package seam for raw projective coordinates; a public-API twin remains if the seam stops compiling.")
T("C16", "exhaustive enumeration over carry-critical limb alphabets; straight-line execution of the addition chains over the exponent algebra",
  "All residues built from a 14-22 value limb alphabet (unary operations) and all pairs over a 5-7 value sub-alphabet (binary operations) for both moduli against math/big; decoding strictness at every byte position; and the two generated inversion programs of the current tree executed with Square: e<-2e, Mul: e<-e1+e2, whose single path must yield exactly m-2.",
  "Trusted: math/big. Textual substitution of three identifiers in the generated chain files (reported as a lost seam if the files change shape).")
T("C18", "complete enumeration of a finite space (every table entry recomputed from its derivation)",
  "Every entry of the four SM2 comb tables, the S-box, the four T-tables, CK, FK, SM3 T_j, the curve parameter block, and the DATA blocks of the assembly files (FK/CK copies, arm64 S-box, shuffles, counter increments, nibble reversal, GCM polynomial) is recomputed; the GFNI affine matrices are validated by emulating GF2P8AFFINEQB/INVQB over all 256 inputs.",
  "Trusted: reference models; Intel SDM semantics of the two GFNI instructions as emulated.")
T("C19", "fault enumeration: every position and kind of the first randomness failure, deviation-bounded short-read scripts",
  "A scripted io.Reader answers each Read call from a small menu (full, short, zero, k bytes+error, k bytes+EOF, full+error); all scripts with the first failure at draw 0..3 (after 0..3 rejected candidates) x byte offset {0,1,16,31,32} x failure kind, and all scripts with <= 2 non-failing deviations, for all four entry points.",
  "Trusted: io.ReadFull contract as reference semantics, sm2ref.")
T("C20", "exhaustive enumeration of finite input spaces (complete for l=1 and n=17; shape-complete pattern sweep for 256-bit inputs)",
  "The complete 2^16 input space for 1-byte comparison and for 16-bit recoding at every window width; for 256-bit inputs every 8-bit (quick) / 16-bit (thorough) pattern at every bit offset on all-zero and all-one backgrounds, which covers every byte-boundary carry and window alignment the code distinguishes.",
  "Trusted: bytes.Compare, math/big (cross-check of the limb accumulator). 256-bit inputs outside the pattern alphabets are not covered.")

T("C09", "explicit-state model checking of a taint abstraction of the assembly (model = assembler listing of the current tree), with concrete trace replay against the model",
  "All reachable (pc, taint-vector) states of every assembly routine (amd64 and arm64) are enumerated; a state with a conditional branch on tainted flags, a tainted base/index register, a gather or a division on tainted data is a violation (one verdict branch site allowed in openAsm). This covers every control-flow path for all input lengths and all key/data values at once, which no execution-based test can. The model is regenerated from the tree on every run, and on amd64 34+ concrete single-step traces (all routines, several length classes, two fillings of every secret) must be paths of the model CFG and must have identical PC and effective-address sequences.",
  "Trusted: go tool asm listing, gdb stepping/disassembly, the taint transfer rules (unknown mnemonics default to 'last operand written from all others'). arm64 cannot be executed here (model explored, not replayed). Not a timing measurement.", engine="asmtaint")
T("C17", "stateless model checking of thread schedules on the real code under a controlled scheduler (preemption-bounded DFS) with happens-before and write-footprint monitors",
  "Small scenarios forced to collide (two Opens of one ciphertext buffer, Seal/Open/Seal on one AEAD, three goroutines on one Block, first-use constructors, concurrent SignHashed/VerifyHashed/DerivePublic on shared key and digest buffers, ZA/SignZa/Sign/GenerateKey next to independent hashes) are executed under every schedule with at most 2 (thorough: 3) preemptions; each call must return what it returns alone, shared inputs must stay bit-identical, no happens-before race and no unmodelled write to package-level state may occur. Schedules are replayed twice for determinism. A separate free-running pass under the Go race detector covers Go-level accesses the instrumenter might not classify.",
  "Trusted: the instrumenter's frozen-variable analysis (a frozen variable that changes anyway is reported), sequential consistency, atomicity of one assembly call for scheduling (its memory effect is captured by the footprint monitor). Bounds: 2-3 threads, 1-2 ops each, preemption bound 2/3.", engine="sched")

T("C08", "exhaustive enumeration of secret alphabets under a trace-equality monitor (basic blocks, short-circuit operands, index values, external callees)",
  "For each primitive the statement lists, and for the whole SignHashed / GenerateKey / DerivePublic paths, every secret of a structured alphabet (every window value at every window position, every nibble at every position, boundary values, 0x00/0xFF prefixes of every length, values agreeing with the modulus on prefixes of every length, first differing byte at every position per verdict class) is executed on a trace-instrumented copy of the Go sources; all secrets of a group must produce the identical sequence of block entries, short-circuit evaluations and index values, and the executed blocks may only call whitelisted constant-time code outside the module (math/bits, crypto/subtle, error constructors).",
  "Go-source granularity (compiler assumed not to introduce secret-dependent branches); only enumerated secrets; not a timing measurement. Three math/big calls of SignHashed that compute the published r from the public digest are a declared-public whitelist keyed by exact call text.", engine="gotrace")

# additions after the third round of independently written breakages (DESIGN.md 8.6)
_ADD = {
 "C01": " Rejected first candidates (k=0, k>=n, r=0, r+k=n) are also followed by a candidate whose r has a leading zero byte.",
 "C02": " Added dimensions: runs of m (3..1000; thorough 65536) identical or mixed rejected candidates, keys of every encoding length 1..31 and with leading zero bytes, an accepted r with a leading zero byte after every late rejection.",
 "C03": " The result point [s]G+[t]P is steered (public key solved, no private key) to points with x1 in {0,1,n+j,n-1-j,p-1-j,2^255+j}; near-curve keys are presented with e solved by the implementation's own arithmetic wherever its decoder accepts them.",
 "C04": " A second part drives one live object past 2^29 bytes (bit length 2^32; thorough: 2^30, 2^32) with Sum at eleven waypoints around each boundary against a streaming reference anchored on OpenSSL digests; an 'epoch' content family (content alternates across Resets) covers every history of <= 6 (thorough 8) operations.",
 "C05": " Keys solved (key schedule run backwards) so that each round key is 0 / 0xffffffff, and windows of them; dst and src cut from one buffer at every legal pair of offsets; the public part also runs on the portable build.",
 "C06": " Lengths 2^11..2^16 (thorough 2^20), additional data of 2^29-1, 2^29, 2^29+17 zero bytes from untouched anonymous memory (thorough: a 2^29-byte plaintext), and a second sealing of a third of the cases in the record layout (dst = additional data = header, payload in place).",
 "C07": " Large base messages with sparse bit flips, every spare-capacity case opened again in the record layout, and three AEADs built from one Block in every order of five parameter sets.",
 "C09": " A glue-trace part runs the block/short-circuit/index trace monitor on package sm4's Go sources around the kernels: all keys (incl. keys solved for zero / all-one round keys) and data patterns of a length class must give identical traces.",
 "C10": " Arguments sharing one buffer in every way the AEAD contract allows (record layout, in place behind a prefix, additional data or nonce inside the prefix, additional data = input, adjacent arguments); in-place Open must leave the tag bytes of the caller's ciphertext unchanged.",
 "C12": " Runs of up to 1000 rejected candidates; x||y of an on-curve point cut at every position; results of earlier calls compared with copies after later calls and then overwritten by the caller.",
 "C13": " Every case is preceded by another user of the same buffers, other uses of the hash package (one-shot SumSM3, an abandoned hash object) and failing calls; thorough: messages of 2^29-32 bytes.",
 "C14": " After every call the returned point is computed on in place and canary multiples are recomputed; every kind of failing call is followed by well-formed calls.",
 "C15": " Representatives whose Z (as a value or in Montgomery form) has single bits / limb halves / one limb set; conversions are repeated after the caller overwrote their results.",
 "C16": " Residues are also read as Montgomery forms; every binary result is negated afterwards (detects results that are not fully reduced); operations with both operands and the receiver being one object; decoders on m-1 and m +- 2^k and word masks.",
 "C17": " Scenario S6: failing calls before the threads start, then concurrent signing / verification with values solved to have a short r and a short r+s.",
 "C19": " Stalls of m (3..1000; thorough 100000) consecutive empty reads inside a draw, and runs of up to 1000 rejected candidates, each followed by data, an error or EOF.",
 "C20": " DecomposeNAF call histories: every ordered pair of calls over seven lengths x three widths, the first call also with a too-short output slice (panics half way).",
}
for _k, _v in _ADD.items():
    TEXT[_k]["level_text"] += _v

# additions after the fourth round (DESIGN.md 8.6)
_ADD4 = {
 "C01": " Keys d and n-d in alternation; za handed over as the head of a record that continues with the key material.",
 "C02": " One key buffer reloaded with other keys between calls; a witness nonce whose x1 lies within 2^224 of 2^256 with digests around 2n-x1.",
 "C03": " 1300 (thorough 5000) distinct public keys in one process followed by a second visit of the first ones; keys d and n-d in alternation with their own and each other's signatures.",
 "C04": " A cold-start part runs every way into the hash as the first use of the package in a fresh process, alone and from eight goroutines at once.",
 "C05": " Cold-start parts (accelerated and portable build): every entry point, including the AEAD constructors followed by block operations, as the first use in a fresh process, alone and concurrently.",
 "C06": " Every input is the head of a longer record with non-zero bytes behind it; additional data / plaintext / nonce of every length 1..50 ending at every offset -15..16 around the boundary between two mapped pages.",
 "C07": " The same difference applied to every pair of tag bytes, all tag bytes and whole words of the tag; every ciphertext ends (or starts) flush against an inaccessible page.",
 "C09": " The first cipher of a process is traced in one fresh process per key.",
 "C10": " Bytes behind the result inside the destination's capacity keep their fill; every Open is repeated on a forged message (error, nil result, prefix / header / inputs untouched).",
 "C11": " Arguments also end 1..16 bytes before the inaccessible page and -15..15 bytes around the boundary of two mapped pages; destinations with spare capacity keep it; an asm-footprint part single-steps every amd64 routine under gdb and checks every written byte range (mask-aware) against destination, scratch block and stack.",
 "C12": " A cold-start part (each entry point as the first use of package sm2 in a fresh process); key operations after verification traffic with tiny r+s.",
 "C13": " za passed as the head of a record with the key material behind it; Sign with a valid public key that does not belong to the private key; the empty id spelled nil / empty / zero-length slice.",
 "C14": " The same multiplications with crypto/rand.Reader replaced by sources delivering all ones / zero / p / n.",
 "C15": " Receivers with an earlier life (decoded, generator, result of an addition, infinity) for every operation with all conversions of the result checked; a cold-start part.",
 "C16": " MultiSelect into an element that backs an entry of the table and into an element whose encoding / zero test / big-integer form had been used before.",
 "C17": " Parts cold-concurrent (eight goroutines released together into the first use of package sm2, in fresh processes, under the race detector) and asm-footprint (write footprint of every amd64 routine by gdb single-stepping: a store that rewrites bytes behind the destination is reported although it changes no value).",
 "C18": " Part derivation-programs: the repository's own generator (make_table.go with its tablegen helpers) is run in the scratch copy and must reproduce every numeric literal of the shipped tables.",
 "C19": " Every case a second time with the scripted reader installed as crypto/rand.Reader and passed as such; failures with errors of other dynamic types (Temporary, Timeout, EAGAIN, *os.PathError, wrapped, ErrNoProgress, ErrUnexpectedEOF); a 60-second watchdog reports calls that never return.",
 "C20": " Digit buffers longer than n (first n entries checked, the rest untouched).",
}
for _k, _v in _ADD4.items():
    TEXT[_k]["level_text"] += _v

# additions after the fifth round (DESIGN.md 8.6)
_W32 = " The public drivers are also built for GOARCH=386 and run natively (w32 parts): int, uint and big.Word have 32 bits there."
_ADD5 = {
 "C01": _W32 + " A witness nonce with x1 within 2^224 of 2^256 is signed with digests around 2n-x1 and the largest digests, and the signature verified.",
 "C02": _W32 + " Every nonce stream also through a reader whose answers come from another goroutine while the caller's stack is moved.",
 "C03": _W32,
 "C04": _W32 + " Part sm3-single-huge: messages of 2^28..2^29+9 bytes in one call (one-shot, one Write, two Writes). The caller overwrites its buffer after every Write.",
 "C05": _W32,
 "C06": _W32 + " Lifetime scenarios (sibling AEAD / Block / other key's objects collected, finalizers awaited) and an asm-entry-state part (backward liveness over every amd64 routine: nothing is read before it is written).",
 "C07": _W32 + " Lifetime scenarios; part open-huge: authentic message followed by 2^32 zero bytes, additional data of 2^32+5 zero bytes (exact oracle); asm-entry-state part.",
 "C08": " Compiler-generated memory comparisons (== on arrays, strings, structs) are hooked like external callees and judged by their operands; an address returned by an assembly routine is an index event.",
 "C10": _W32 + " Layouts with the output over the received tag (Open) and with the nonce inside the output region.",
 "C11": " Every Open also on a forged message under the same placements (canaries behind the output area); a stack-sweep part calls every operation at every call depth 0..1500 of fresh goroutines under GODEBUG=efence=1.",
 "C12": _W32 + " GenerateKey also through the served reader (answers from another goroutine while the caller's stack moves).",
 "C13": _W32 + " Ids of 2^28..3*2^28 bytes must be refused; w32: messages of 2^28 bytes in one piece.",
 "C14": _W32 + " Scalars n+j for |j| <= 320 (thorough 4096) and n+2t for every single window value t.",
 "C15": _W32,
 "C16": _W32,
 "C17": " Parts stack-sweep (see C11) and asm-entry-state (see C06).",
 "C18": " Tables filled on first use are read after a workload; points built from table entries are computed on in place before the constants are checked.",
 "C19": _W32 + " Failures behind the accepted candidate (a call that consults the source again must report them); every short script also through the served reader.",
 "C20": _W32,
}
for _k, _v in _ADD5.items():
    TEXT[_k]["level_text"] += _v
ENGINES.append({"name": "asmlivein", "path": "/verif/tools/asmlivein.py", "serves_properties": ["C06", "C07", "C17"],
                "kind_free_text": "backward liveness fixpoint over the control-flow graph of every amd64 assembly routine (go tool asm -S listing): registers read before written on some path from the entry"})

# additions after the sixth round (DESIGN.md 8.6)
_ADD6 = {
 "C01": " Rejected-first-candidate streams also with keys handed over in 31 bytes and in 1 byte; a crowd part (24 / 192 / 2048 goroutines in flight, free-running, exact oracle).",
 "C02": " Every stream also through a pool reader (Len() reports at most 16 buffered bytes, reads of at most 16 bytes); four million all-zero candidates before the first acceptable one.",
 "C03": " x||y and r||s cut at another place than byte 32 (compensating lengths) through VerifyHashed, VerifyZa and Verify; public keys with small discrete logarithm with s = 2^k, 2^k+-1 at every k; a crowd part.",
 "C04": " Messages of 2^32+5 and 2^32+64 bytes in one call; js/wasm and GOAMD64=v3 builds of the history driver.",
 "C05": " A fresh-shared part (first calls on a freshly built Block by eight goroutines at once, thousands of fresh objects) and a js/wasm build of the public block driver (a target that is neither amd64, 386 nor arm64).",
 "C06": " Arguments starting right behind / ending right in front of an inaccessible page for every short length and tag size; appending to destinations of 1..4097 bytes without room.",
 "C07": " open-huge: additional data of 2^31+37 .. 2^32+21 bytes with a non-zero first block (exact oracle by exponentiation in GF(2^128)), accepted as is, rejected with one bit flipped or cut mod 2^32 / 2^31.",
 "C10": " Every SM2 entry point with all arguments in read-only memory; destinations whose spare capacity behind the result is a read-only page; destination prefixes up to 2049 bytes.",
 "C11": " A watchpoints part: hardware data watchpoints (perf_event_open) on the byte behind and in front of an argument lying in the middle of mapped memory.",
 "C12": " Queries with their arguments in read-only memory; candidate streams whose last bytes arrive together with io.EOF.",
 "C13": " Signatures with s in {1, 2, n-2, n-1} (key solved) through SignZa / VerifyZa against VerifyHashed; a message of 2^32+3 bytes in one piece.",
 "C14": " Periodic scalars (a non-zero digit every p-th bit, p = 1..9) through every multiplication; scalars of 33, 64 and 66 bytes whose 32-byte chunks are built from the words of n (625 chunks).",
 "C15": " Receivers that are shallow copies of an operand (same coordinate storage, different pointer); conversions must leave the stored coordinates of their receiver unchanged.",
 "C16": " Decoder inputs in read-only memory; GOAMD64=v3 build.",
 "C17": " Parts crowd (2048 goroutines in flight) and fresh-shared (first calls on fresh shared objects).",
 "C19": " Every short script also with keys of 1 and 31 bytes and through readers whose dynamic type has Len() / Size() / Buffered().",
 "C20": " Operands of 2^32+33 bytes (cmp-huge); GOAMD64=v3 and js/wasm builds.",
}
for _k, _v in _ADD6.items():
    TEXT[_k]["level_text"] += _v
_ADD7 = {
 "C02": " Montgomery-limb-steered triples: the wrapped difference of the two scalars the signer subtracts is chosen limb by limb from {0, 1, 2^64-1, 2^64-n_i, 2^64-n_i-1, seeded} (6^4 patterns, with and without borrow, both forms s = t - r and (k - rd)/(1+d)), with (r, k, e) solved for a fixed key.",
 "C12": " CheckOnCurve on canonical points whose x lies at a word boundary (p-2^(64i)+-j, 2^(64i)+-j, low 32/64 bits all ones) or at the special x of the verification equation, each also swapped and as x+p.",
 "C15": " The in-package seam reports a decoder that refuses a canonical field element (and goes on with the Montgomery image) instead of stopping the driver.",
 "C03": " The final reduction (e + x1) mod n with e chosen from the boundary digests {0, n-1, n, n+1, 2^256-2, 2^256-1, kn-x1-1, kn-x1} and the result point steered to every special x1, so that the sum lies in [0,n), [n,2n) and [2n, 2^257).",
 "C13": " Five public keys with one or two leading zero bytes in x, in y or in both through ZA and all five message-level entry points.",
 "C17": " Scenario S7: valid signatures whose multiplier of the public key (t = 1, 3, 2^13) or of G (s = 1, n-1) is tiny, verified next to ordinary Verify / DerivePublic / SignHashed (start-up branches of the double multiplication with an empty accumulator).",
}
for _k, _v in _ADD7.items():
    TEXT[_k]["level_text"] += _v

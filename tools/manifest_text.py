ENGINES = [
    {"name": "xplore", "path": "/verif/harness/vx + /verif/inject/*", "serves_properties": ["C20"],
     "kind_free_text": "bounded-exhaustive enumeration of explicitly stated finite input-shape spaces / operation histories, executed on the real code built from /repo's working tree"},
]
NOT_APPLICABLE_REASONS = {}
TEXT = {}
TEXT["C20"] = {
    "technique": "exhaustive enumeration of finite input spaces (complete for l=1 and n=17; shape-complete pattern sweep for 256-bit inputs)",
    "level_text": "Every case of a stated finite space is executed on the real helpers and compared with an independent oracle: the complete 2^16 input space for 1-byte comparison and for 16-bit recoding at every window width, and for 256-bit inputs every 8-bit (quick) / 16-bit (thorough) pattern at every bit offset on all-zero and all-one backgrounds, which covers every byte-boundary carry and window alignment the code distinguishes.",
    "level_note": "Trusted: Go toolchain, bytes.Compare, math/big (only to cross-check the limb accumulator). Not covered: 256-bit inputs outside the pattern alphabets.",
}

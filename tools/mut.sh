#!/bin/bash
# usage: tools/mut.sh <patch.diff> <ID> [tier]  -- applies a patch to a scratch copy of /repo and runs one check against it
set -u
patch=$(readlink -f "$1"); id=$2; tier=${3:-quick}
d=$(mktemp -d /tmp/mut.XXXXXX)
trap 'rm -rf "$d"' EXIT
rsync -a --exclude .git /repo/ "$d/repo/"
( cd "$d/repo" && patch -p1 -s < "$patch" ) || { echo "patch failed"; exit 3; }
VX_REPO="$d/repo" VX_NO_EVIDENCE=1 VX_REPLAY_DIR="$d/replays" /verif/run "$id" "$tier"
echo "exit=$?"

#!/usr/bin/env python3
"""Turns the two generated addition-chain programs of the *current tree* into
programs over the exponent algebra: the field-element type becomes an integer
exponent, Square becomes e<-2e, Mul becomes e<-e1+e2.  The program text itself
(every step, loop and temporary) is what gets executed by the C16 driver."""
import os, re, sys
repo = sys.argv[1]
d = os.path.join(repo, "sm2/internal/fiat")
out = ["//go:build verif", "", "package fiat_test", "", 'import "math/big"', "",
       "type vxExpo struct{ v big.Int }", "",
       "func vxExpSquare(o, a *vxExpo) { var t big.Int; t.Lsh(&a.v, 1); o.v.Set(&t) }",
       "func vxExpMul(o, a, b *vxExpo) { var t big.Int; t.Add(&a.v, &b.v); o.v.Set(&t) }", ""]
ok = {}
for fname, typ, sq, mul, fn, newfn in [
    ("addchain_sm2_64_scalar_inverse.go", "sm2ScalarMontgomeryDomainFieldElement", "sm2ScalarSquare", "sm2ScalarMul", "sm2ScalarFermatInvert_FiatAC", "vxScalarChain"),
    ("addchain_sm2_64_field_inverse.go", "sm2MontgomeryDomainFieldElement", "sm2Square", "sm2Mul", "sm2FermatInvert_FiatAC", "vxFieldChain"),
]:
    try:
        src = open(os.path.join(d, fname)).read()
        i = src.index("func " + fn)
        body = src[i:]
        body = re.sub(r"\b%s\b" % typ, "vxExpo", body)
        body = re.sub(r"\b%s\b" % sq, "vxExpSquare", body)
        body = re.sub(r"\b%s\b" % mul, "vxExpMul", body)
        body = re.sub(r"\b%s\b" % fn, newfn, body)
        out.append(body)
        ok[newfn] = True
    except Exception as e:  # seam lost: the driver reports it
        out.append("func %s(z, x *vxExpo) { panic(%r) }" % (newfn, "chain source not transformable: " + str(e)))
open(os.path.join(d, "zzgen_verif_chain_test.go"), "w").write("\n".join(out) + "\n")

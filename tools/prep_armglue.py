#!/usr/bin/env python3
"""Builds the 'armglue' variant of the tree: the arm64 kernel-plus-Go-glue GCM
implementation (sm4_gcm_arm64.go of the *current tree*) compiled for amd64 on
top of the amd64 block/GHASH kernels.  The fused amd64 Seal/Open glue is
removed; the five xorNNN helpers (assembly on arm64) are supplied in Go.  This
executes the arm64 path's counter, ladder, tail and ensureCapacity logic, which
cannot otherwise run in this amd64-only sandbox."""
import os, re, sys
repo = sys.argv[1]
d = os.path.join(repo, "sm4")
src = open(os.path.join(d, "sm4_gcm_arm64.go")).read()
src = src.replace("//go:build arm64", "//go:build amd64", 1)
# drop the body-less xor declarations (and their //go:noescape lines)
src = re.sub(r"//go:noescape\s*\nfunc xor(256|128|64|32|16)\([^)]*\)\s*\n", "", src)
src += '''

// ---- supplied by the verification harness: Go versions of the arm64 xor helpers ----
func vxXor(dst, a, b *byte, n int) {
	d := unsafe.Slice(dst, n)
	x := unsafe.Slice(a, n)
	y := unsafe.Slice(b, n)
	var t [256]byte
	for i := 0; i < n; i++ {
		t[i] = x[i] ^ y[i]
	}
	copy(d, t[:n])
}
func xor256(dst *byte, src1 *byte, src2 *byte) { vxXor(dst, src1, src2, 256) }
func xor128(dst *byte, src1 *byte, src2 *byte) { vxXor(dst, src1, src2, 128) }
func xor64(dst *byte, src1 *byte, src2 *byte)  { vxXor(dst, src1, src2, 64) }
func xor32(dst *byte, src1 *byte, src2 *byte)  { vxXor(dst, src1, src2, 32) }
func xor16(dst *byte, src1 *byte, src2 *byte)  { vxXor(dst, src1, src2, 16) }
'''
src = src.replace('import (', 'import (\n\t"unsafe"', 1)
open(os.path.join(d, "zzgen_gcm_armglue_amd64.go"), "w").write(src)
os.unlink(os.path.join(d, "sm4_gcm_amd64.go"))

#!/usr/bin/env python3
"""'generic' variant: the accelerated path is switched off (candoAsm=false at package initialisation), so NewCipher
returns the portable cipher and crypto/cipher builds the standard library's generic GCM over it - the third
implementation path named by C06."""
import os, sys
repo = sys.argv[1]
open(os.path.join(repo, "sm4", "zzgen_vx_generic.go"), "w").write('''//go:build amd64 || arm64

package sm4

func init() { candoAsm = false }
''')

#!/bin/bash
# prepares the 'sched' variant: instruments the copy for the controlled scheduler (C17)
set -e
repo=$1
export GOFLAGS=-mod=mod GOPROXY=off GOSUMDB=off GOTOOLCHAIN=local
bin=/verif/harness/bin/vxinstr
mkdir -p /verif/harness/bin
if [ ! -x $bin ] || [ -n "$(find /verif/harness/cmd/vxinstr -newer $bin -name '*.go')" ]; then
  (cd /verif/harness && go build -o $bin ./cmd/vxinstr)
fi
cd $repo
$bin -mode sched -root $repo -shared sm4Cipher,sm4CipherAsm,sm4GcmAsm -methods $repo/.vx_methods.json -report $repo/.vx_instr_report.json utils sm2/internal/fiat sm2/internal sm3 sm2 sm4

#!/bin/bash
# prepares the 'trace' variant: instruments the copy for the C08 trace monitor
set -e
repo=$1
export GOFLAGS=-mod=mod GOPROXY=off GOSUMDB=off GOTOOLCHAIN=local
bin=/verif/harness/bin/vxinstr
mkdir -p /verif/harness/bin
if [ ! -x $bin ] || [ -n "$(find /verif/harness/cmd/vxinstr -newer $bin -name '*.go')" ]; then
  (cd /verif/harness && go build -o $bin ./cmd/vxinstr)
fi
cd $repo
$bin -mode trace -root $repo -report $repo/.vx_trace_report.json utils sm2/internal/fiat sm2/internal sm2

#!/bin/bash
# prepares the 'tracesm4' variant: instruments the Go sources of package sm4 for the C09 glue trace monitor
set -e
repo=$1
export GOFLAGS=-mod=mod GOPROXY=off GOSUMDB=off GOTOOLCHAIN=local
bin=/verif/harness/bin/vxinstr
mkdir -p /verif/harness/bin
if [ ! -x $bin ] || [ -n "$(find /verif/harness/cmd/vxinstr -newer $bin -name '*.go')" ]; then
  (cd /verif/harness && go build -o $bin ./cmd/vxinstr)
fi
cd $repo
$bin -mode trace -root $repo -report $repo/.vx_trace_report_sm4.json sm4

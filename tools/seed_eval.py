#!/usr/bin/env python3
"""Evaluates one sub-agent seeded breakage: tools/seed_eval.py <ID> <A|B> <demo-dest-relative-path> <go test args...>
 1. clean copy of /repo + patch: builds; the repository's own suite passes
 2. demonstration fails with the patch and passes without it
 3. our checks (the property's own, plus any extra ids given via SEED_CHECKS="C04,C10") run against the patched copy
 4. everything is stored under /verif/seeded/<ID>-<A|B>/ with meta.json"""
import json, os, shutil, subprocess, sys, tempfile, time
pid, which = sys.argv[1], sys.argv[2]
outname = which
if len(sys.argv) > 3 and sys.argv[3] == "--auto":
    # round 2: deliverables in /tmp/wt2_<ID>/_out/<A|B>, HOWTO.txt starts with DEST: and RUN: lines; stored as <ID>-C / <ID>-D
    rnd = os.environ.get("SEED_ROUND", "2")
    src = "/tmp/wt%s_%s/_out/%s" % (rnd, pid, which)
    lines = open(os.path.join(src, "HOWTO.txt")).read().splitlines()
    demo_dest = next(l for l in lines if l.startswith("DEST:")).split(":", 1)[1].strip()
    runline = next(l for l in lines if l.startswith("RUN:")).split(":", 1)[1].strip()
    import shlex
    demo_cmd = [a for a in shlex.split(runline) if a.split("=")[0] not in ("GOFLAGS", "GOPROXY", "GOSUMDB", "GOTOOLCHAIN") or "=" not in a]
    if any("=" in a and a.split("=")[0].isupper() for a in demo_cmd[:3]) and demo_cmd[0] != "env":
        demo_cmd = ["env"] + demo_cmd  # e.g. GOARCH=386 go test ...
    outname = {"2": {"A": "C", "B": "D"}, "3": {"A": "E", "B": "F"}, "4": {"A": "G", "B": "H"}, "5": {"A": "I", "B": "J"}, "6": {"A": "K", "B": "L"}, "7": {"A": "M", "B": "N"}}[rnd][which]
else:
    demo_dest = sys.argv[3]
    demo_cmd = sys.argv[4:]
    src = "/tmp/wt_%s/_out/%s" % (pid, which)
env = dict(os.environ, GOFLAGS="-mod=mod", GOPROXY="off", GOSUMDB="off", GOTOOLCHAIN="local")
def sh(cmd, cwd, timeout=1800):
    p = subprocess.run(cmd, cwd=cwd, env=env, stdout=subprocess.PIPE, stderr=subprocess.STDOUT, text=True, timeout=timeout)
    return p.returncode, p.stdout
d = tempfile.mkdtemp(prefix="seed.", dir="/tmp")
meta = {"property": pid, "variant": which, "ran": []}
try:
    clean, mut = os.path.join(d, "clean"), os.path.join(d, "mut")
    for t in (clean, mut):
        subprocess.check_call(["rsync", "-a", "--exclude", ".git", "/repo/", t + "/"])
    rc, out = sh(["patch", "-p1", "-s", "-i", os.path.join(src, "patch.diff")], mut)
    if rc != 0:
        print("PATCH DOES NOT APPLY\n", out); sys.exit(3)
    rc, out = sh(["go", "build", "./..."], mut)
    meta["builds"] = rc == 0
    rc, out = sh(["go", "test", "-vet=off", "-count=1", "./..."], mut)
    meta["suite_passes_with_patch"] = rc == 0
    meta["ran"].append("go test -vet=off -count=1 ./...  (patched) -> exit %d" % rc)
    if rc != 0:
        print("SUITE FAILS WITH PATCH:\n", out[-1500:])
    demo = [f for f in os.listdir(src) if f.endswith(".go")]
    demodir = os.path.join(src, "demo")
    for t, label in ((mut, "with"), (clean, "without")):
        dest = os.path.join(t, demo_dest)
        os.makedirs(os.path.dirname(dest), exist_ok=True)
        if os.path.isdir(demodir) and not demo:
            if os.path.isdir(dest):
                shutil.rmtree(dest)
            shutil.copytree(demodir, dest if not dest.endswith(".go") else os.path.dirname(dest), dirs_exist_ok=True)
        else:
            shutil.copy(os.path.join(src, demo[0]), dest)
        rc, out = sh(demo_cmd, t)
        meta["demo_%s_patch_exit" % label] = rc
        meta["demo_%s_patch_tail" % label] = out[-600:]
        meta["ran"].append("%s (%s patch) -> exit %d" % (" ".join(demo_cmd), label, rc))
    meta["demo_confirms"] = meta["demo_with_patch_exit"] != 0 and meta["demo_without_patch_exit"] == 0
    checks = os.environ.get("SEED_CHECKS", pid).split(",")
    meta["checks"] = {}
    for c in checks:
        e2 = dict(os.environ, VX_REPO=mut, VX_NO_EVIDENCE="1", VX_REPLAY_DIR=os.path.join(d, "replays"))
        t0 = time.time()
        p = subprocess.run(["/verif/run", c, os.environ.get("SEED_TIER", "quick")], env=e2, stdout=subprocess.PIPE, stderr=subprocess.STDOUT, text=True)
        keys = [l.strip()[:300] for l in p.stdout.splitlines() if l.strip().startswith("key=")]
        meta["checks"][c] = {"exit": p.returncode, "detected": p.returncode == 1, "keys": keys[:8], "summary": p.stdout.strip().splitlines()[-1][:300] if p.stdout.strip() else "", "wall_s": round(time.time() - t0, 1)}
        meta["ran"].append("VX_REPO=<patched copy> ./run %s %s -> exit %d" % (c, os.environ.get("SEED_TIER", "quick"), p.returncode))
    outdir = "/verif/seeded/%s-%s" % (pid, outname)
    if os.path.isdir(outdir):
        shutil.rmtree(outdir)
    os.makedirs(outdir)
    for f in os.listdir(src):
        s = os.path.join(src, f)
        if os.path.isdir(s):
            shutil.copytree(s, os.path.join(outdir, f))
        else:
            shutil.copy(s, os.path.join(outdir, f + (".txt" if f.endswith(".go") else "")))
    notes = open(os.path.join(src, "NOTES.md")).read() if os.path.exists(os.path.join(src, "NOTES.md")) else ""
    if not notes and os.path.exists(os.path.join(src, "HOWTO.txt")):
        notes = "\n".join(l for l in open(os.path.join(src, "HOWTO.txt")).read().splitlines() if not l.startswith(("DEST:", "RUN:")))
    meta["needs_to_manifest"] = os.environ.get("SEED_NEEDS", "")
    meta["agent_notes_head"] = notes[:700]
    json.dump(meta, open(os.path.join(outdir, "meta.json"), "w"), indent=1)
    print(json.dumps({k: meta[k] for k in ("builds", "suite_passes_with_patch", "demo_confirms")}), {c: (v["detected"], v["keys"][:2]) for c, v in meta["checks"].items()})
finally:
    shutil.rmtree(d, ignore_errors=True)

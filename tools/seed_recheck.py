#!/usr/bin/env python3
"""Re-verifies a stored seeded breakage against the *current* /repo: tools/seed_recheck.py <seeded dir name> [check ids]
The demo destination and command are taken from meta.json ("ran" lines) / HOWTO.txt.  Confirms: patch applies, builds,
repository suite passes with it, demo fails with it and passes without it, and the named checks (default: those recorded
as detecting it) exit 1.  Prints one summary line; exit 0 when all of that holds."""
import json, os, re, shutil, subprocess, sys, tempfile, shlex
name = sys.argv[1]
sd = os.path.join("/verif/seeded", name)
meta = json.load(open(os.path.join(sd, "meta.json")))
env = dict(os.environ, GOFLAGS="-mod=mod", GOPROXY="off", GOSUMDB="off", GOTOOLCHAIN="local")
def sh(cmd, cwd, timeout=3600):
    p = subprocess.run(cmd, cwd=cwd, env=env, stdout=subprocess.PIPE, stderr=subprocess.STDOUT, text=True, timeout=timeout)
    return p.returncode, p.stdout
demo_cmd = None
for l in meta["ran"]:
    m = re.match(r"((?:env \S+=\S+ )*go test .*) \(with patch\)", l)
    if m:
        demo_cmd = shlex.split(m.group(1))
pkgdir = [a for a in demo_cmd if a.startswith("./")][-1].rstrip("/").lstrip("./")
checks = sys.argv[2:] or [c for c, v in meta.get("checks", {}).items() if v.get("detected")]
d = tempfile.mkdtemp(prefix="seedre.", dir="/tmp")
ok = True
try:
    clean, mut = os.path.join(d, "clean"), os.path.join(d, "mut")
    for t in (clean, mut):
        subprocess.check_call(["rsync", "-a", "--exclude", ".git", "/repo/", t + "/"])
    rc, out = sh(["patch", "-p1", "-s", "-i", os.path.join(sd, "patch.diff")], mut)
    if rc != 0:
        print(name, "PATCH DOES NOT APPLY"); sys.exit(3)
    rc, out = sh(["go", "test", "-vet=off", "-count=1", "./..."], mut)
    suite = rc == 0
    res = {}
    for t, label in ((mut, "with"), (clean, "without")):
        if os.path.isdir(os.path.join(sd, "demo")):
            shutil.copytree(os.path.join(sd, "demo"), os.path.join(t, pkgdir), dirs_exist_ok=True)
            for root, _, fs in os.walk(os.path.join(t, pkgdir)):
                for f in fs:
                    if f.endswith(".go.txt"):
                        os.rename(os.path.join(root, f), os.path.join(root, f[:-4]))
        else:
            shutil.copy(os.path.join(sd, "demo_test.go.txt"), os.path.join(t, pkgdir, "zz_seed_demo_test.go"))
        rc, out = sh(demo_cmd, t)
        res[label] = rc
        if label == "with" and rc == 0 or label == "without" and rc != 0:
            print(out[-800:])
    det = {}
    for c in checks:
        e = dict(env, VX_REPO=mut, VX_NO_EVIDENCE="1", VX_REPLAY_DIR=os.path.join(d, "replays"))
        p = subprocess.run(["/verif/run", c, "quick"], env=e, stdout=subprocess.PIPE, stderr=subprocess.STDOUT, text=True)
        det[c] = p.returncode
    ok = suite and res["with"] != 0 and res["without"] == 0 and all(v == 1 for v in det.values())
    print("%s: suite_passes=%s demo_with=%d demo_without=%d checks=%s => %s" % (name, suite, res["with"], res["without"], det, "OK" if ok else "NOT CONFIRMED"))
finally:
    shutil.rmtree(d, ignore_errors=True)
sys.exit(0 if ok else 1)

#!/usr/bin/env python3
"""prints the markdown table rows for the seeded changes whose names end in the given suffixes: tools/seed_table.py E F"""
import json, os, sys
suf = sys.argv[1:] or ["A", "B"]
print("| seeded | change (agent's words, abridged) | reported by | first key |\n|---|---|---|---|")
for d in sorted(os.listdir("/verif/seeded")):
    if d[-1] not in suf:
        continue
    m = json.load(open("/verif/seeded/%s/meta.json" % d))
    note = m.get("agent_notes_head", "").strip().split("\n")
    first = next((l for l in note if l.strip() and not l.startswith("#")), "").lstrip("-* ")[:150].replace("|", "/")
    det = [c for c, v in m.get("checks", {}).items() if v.get("detected")]
    own = d[:3]
    det.sort(key=lambda c: (c != own, c))
    key = ""
    for c in det:
        ks = m["checks"][c].get("keys") or []
        if ks:
            key = ks[0].split(" count=")[0].replace("key=", "")[:90].replace("|", "/")
            break
    print("| %s | %s | %s | `%s` |" % (d, first, ", ".join(det) or "**none**", key))

#!/usr/bin/env python3
import json, sys, glob
import jsonschema
m = json.load(open('/verif/MANIFEST.json'))
jsonschema.validate(m, json.load(open('/root/.vp/MANIFEST.schema.json')))
es = json.load(open('/root/.vp/EVIDENCE.schema.json'))
bad = 0
for c in m['checks']:
    f = c['evidence_file']
    try:
        e = json.load(open(f))
        jsonschema.validate(e, es)
        assert e['level'] == c['level_claimed']['category'], "level mismatch"
        print('ok', f, e['tier'], 'exhaustive=%s' % e['coverage'].get('exhaustive'))
    except Exception as ex:
        bad += 1
        print('BAD', f, str(ex)[:300])
sys.exit(1 if bad else 0)
